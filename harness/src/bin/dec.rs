//! C02 / C17 tie for M1: `Decoder`, `encode_size`, `decode_size`.
//!
//! Case lines (shared with the Lean driver):
//!   `dec <chunk> <chunk> …`   one `Decoder::decode` call per chunk on a fresh decoder
//!   `var enc <n>`             `encode_size` of an n-byte message / `usize::encode_var`
//!   `var dec <chunk>`         `decode_size` of arbitrary bytes
//! Output row: case \t implementation output \t direct oracle \t tags
use mio_harness::*;
use message_io::util::encoding::{self, Decoder, MAX_ENCODED_SIZE};
use integer_encoding::VarInt;
use std::panic::{catch_unwind, AssertUnwindSafe};

/// Independent canonical-frame parser (the direct oracle; does not use the crate or the model):
/// Some(messages) iff `stream` is exactly a concatenation of canonically prefixed frames.
fn parse_wellformed(stream: &[u8]) -> Option<Vec<Vec<u8>>> {
    let mut out = vec![];
    let mut i = 0;
    while i < stream.len() {
        let mut v: u128 = 0;
        let mut k = 0;
        loop {
            if i + k >= stream.len() || k >= 10 {
                return None
            }
            let b = stream[i + k];
            v |= ((b & 0x7f) as u128) << (7 * k);
            k += 1;
            if b & 0x80 == 0 {
                break
            }
        }
        if v > u64::MAX as u128 {
            return None
        }
        // canonical: minimal length (no trailing zero groups)
        if k > 1 && stream[i + k - 1] == 0 {
            return None
        }
        let len = v as usize;
        let start = i + k;
        if stream.len() - start < len {
            return None
        }
        out.push(stream[start..start + len].to_vec());
        i = start + len;
    }
    Some(out)
}

fn run_dec(chunks: &[Vec<u8>]) -> (String, String) {
    let res = catch_unwind(AssertUnwindSafe(|| {
        let mut dec = Decoder::default();
        let mut rows = vec![];
        let mut all = vec![];
        let mut reached = 0;
        let r = catch_unwind(AssertUnwindSafe(|| {
            for c in chunks {
                let mut outs: Vec<Vec<u8>> = vec![];
                dec.decode(c, |m| outs.push(m.to_vec()));
                rows.push(format!("{}s={}", show_outs(&outs), dec.stored_size()));
                all.extend(outs);
                reached += 1;
            }
        }));
        (r.is_ok(), rows, all, dec.stored_size(), reached)
    }));
    let (ok, rows, all, stored, _reached) = res.unwrap_or((false, vec![], vec![], 0, 0));
    let imp = format!("{} {}", if ok { "ok" } else { "panic" }, rows.join("|"));
    let stream: Vec<u8> = chunks.iter().flatten().copied().collect();
    let oracle = match parse_wellformed(&stream) {
        Some(ms) => {
            if ok && all == ms && stored == 0 {
                "wf:ok"
            }
            else {
                "wf:FAIL"
            }
        }
        None => {
            if ok {
                "mal:ok"
            }
            else {
                "mal:FAIL"
            }
        }
    };
    (imp, oracle.to_string())
}

fn case_line(chunks: &[Vec<u8>]) -> String {
    let mut s = String::from("dec");
    for c in chunks {
        s.push(' ');
        s.push_str(&chunk_to_text(c));
    }
    s
}

fn varint(mut n: u64) -> Vec<u8> {
    let mut v = vec![];
    while n >= 0x80 {
        v.push((n as u8) | 0x80);
        n >>= 7;
    }
    v.push(n as u8);
    v
}

fn cut(stream: &[u8], cuts: &[usize]) -> Vec<Vec<u8>> {
    let mut out = vec![];
    let mut prev = 0;
    for &c in cuts {
        out.push(stream[prev..c].to_vec());
        prev = c;
    }
    out.push(stream[prev..].to_vec());
    out
}

struct Gen {
    rng: Rng,
    big: bool,
}

impl Gen {
    fn msg_len(&mut self) -> usize {
        let small = [0usize, 1, 2, 3, 7, 20, 126, 127, 128, 129, 200];
        let mid = [16383usize, 16384, 16385, 65535, 65536];
        let big = [(1usize << 21) - 1, 1 << 21, (1 << 21) + 1];
        match self.rng.below(20) {
            0..=9 => *self.rng.pick(&small),
            10..=13 => self.rng.below(40) as usize,
            14..=16 => self.rng.range(120, 140) as usize,
            17 | 18 => *self.rng.pick(&mid),
            _ => {
                if self.big {
                    *self.rng.pick(&big)
                }
                else {
                    *self.rng.pick(&mid)
                }
            }
        }
    }
    fn content(&mut self, n: usize) -> Vec<u8> {
        match self.rng.below(6) {
            0 => vec![0x00; n],
            1 => vec![0x80; n],
            2 => vec![0xff; n],
            3 => {
                // bytes that look like prefixes of later frames
                let mut v = vec![];
                while v.len() < n {
                    let x = *self.rng.pick(&[0u64, 1, 127, 128, 300, 16384]);
                    v.extend(varint(x));
                }
                v.truncate(n);
                v
            }
            _ => {
                if n <= 400 {
                    self.rng.bytes(n)
                }
                else {
                    let b = self.rng.next() as u8;
                    let mut v = vec![b; n];
                    for i in 0..8.min(n) {
                        v[i] = self.rng.next() as u8;
                    }
                    v[n - 1] = self.rng.next() as u8;
                    v
                }
            }
        }
    }
    fn messages(&mut self) -> Vec<Vec<u8>> {
        let n = match self.rng.below(10) {
            0 => 0,
            1..=4 => 1 + self.rng.below(2),
            _ => 2 + self.rng.below(5),
        };
        (0..n)
            .map(|_| {
                let l = self.msg_len();
                self.content(l)
            })
            .collect()
    }
    /// positions within +-2 of every prefix of the stream
    fn prefix_positions(ms: &[Vec<u8>]) -> (Vec<usize>, Vec<(usize, usize)>) {
        let mut pos = vec![];
        let mut prefixes = vec![];
        let mut off = 0usize;
        for m in ms {
            let p = varint(m.len() as u64).len();
            prefixes.push((off, off + p));
            for d in off.saturating_sub(2)..=off + p + 2 {
                pos.push(d);
            }
            off += p + m.len();
        }
        let total = off;
        pos.retain(|&p| p >= 1 && p < total);
        pos.sort();
        pos.dedup();
        (pos, prefixes)
    }
    fn cuts(&mut self, ms: &[Vec<u8>], total: usize) -> Vec<usize> {
        if total <= 1 {
            return vec![]
        }
        let (pp, _) = Self::prefix_positions(ms);
        let mut cuts: Vec<usize> = match self.rng.below(7) {
            6 => {
                // exactly one cut 1..4 bytes before the end of a frame (preferably one with a multi-byte
                // prefix) that is otherwise whole, so that the frame is met with nothing buffered
                let mut ends: Vec<(usize, usize)> = vec![]; // (frame end, prefix width)
                let mut off = 0usize;
                for m in ms {
                    let p = varint(m.len() as u64).len();
                    off += p + m.len();
                    ends.push((off, p));
                }
                let multi: Vec<(usize, usize)> = ends.iter().copied().filter(|e| e.1 >= 2).collect();
                let pool = if multi.is_empty() { &ends } else { &multi };
                let mut v = vec![];
                for _ in 0..self.rng.range(1, 2) {
                    let (end, _) = *self.rng.pick(pool);
                    let k = self.rng.range(1, 4) as usize;
                    if end > k {
                        v.push(end - k);
                    }
                }
                v
            }
            0 | 1 => pp.iter().copied().filter(|_| self.rng.chance(1, 2)).collect(),
            2 => {
                if total <= 4096 {
                    (1..total).collect()
                }
                else {
                    pp.clone()
                }
            }
            3 => {
                let n = self.rng.range(1, 32);
                (0..n).map(|_| self.rng.range(1, total as u64 - 1) as usize).collect()
            }
            4 => {
                // one cut strictly inside a random multi-byte prefix plus a few random ones
                let mut v: Vec<usize> =
                    pp.iter().copied().filter(|_| self.rng.chance(1, 4)).collect();
                v.push(self.rng.range(1, total as u64 - 1) as usize);
                v
            }
            _ => vec![],
        };
        cuts.sort();
        cuts.dedup();
        cuts
    }
}

fn tags_wf(ms: &[Vec<u8>], cuts: &[usize], chunks: &[Vec<u8>]) -> String {
    let (_, prefixes) = Gen::prefix_positions(ms);
    let mut t = vec![];
    let inside = cuts.iter().any(|&c| prefixes.iter().any(|&(a, b)| b - a >= 2 && c > a && c < b));
    if inside {
        t.push("pfxcut".to_string());
    }
    // a chunk that starts inside a frame (slow path) and completes >= 2 frames
    let mut ends = vec![];
    let mut off = 0;
    for m in ms {
        off += varint(m.len() as u64).len() + m.len();
        ends.push(off);
    }
    let mut start = 0;
    for c in chunks {
        let end = start + c.len();
        let starts_inside = start != 0 && !ends.contains(&start);
        let completed = ends.iter().filter(|&&e| e > start && e <= end).count();
        if starts_inside && completed >= 2 {
            t.push("slowmulti".into());
            break
        }
        start = end;
    }
    if chunks.iter().any(|c| c.is_empty()) {
        t.push("emptychunk".into());
    }
    let maxw = ms.iter().map(|m| varint(m.len() as u64).len()).max().unwrap_or(0);
    t.push(format!("w{}", maxw));
    t.push(format!("n{}", ms.len().min(9)));
    t.join(",")
}

fn gen_wf(out: &mut impl std::io::Write, seed: u64, n: u64, big: bool) {
    let mut g = Gen { rng: Rng::new(seed), big };
    for _ in 0..n {
        let ms = g.messages();
        let stream: Vec<u8> =
            ms.iter().flat_map(|m| [varint(m.len() as u64), m.clone()].concat()).collect();
        let cuts = g.cuts(&ms, stream.len());
        let mut chunks = cut(&stream, &cuts);
        if g.rng.chance(1, 5) {
            let at = g.rng.below(chunks.len() as u64 + 1) as usize;
            chunks.insert(at, vec![]);
        }
        let (imp, oracle) = run_dec(&chunks);
        emit(out, &case_line(&chunks), &imp, &oracle, &tags_wf(&ms, &cuts, &chunks));
    }
}

/// every way to cut every stream built from a small alphabet of messages, total length <= maxlen
fn gen_exhaustive(out: &mut impl std::io::Write, maxlen: usize) {
    let alphabet: Vec<Vec<u8>> = vec![vec![], vec![0x80], vec![0x00, 0xff], vec![0x81, 0x00, 0x7f]];
    let mut lists: Vec<Vec<Vec<u8>>> = vec![vec![]];
    let mut frontier = lists.clone();
    for _ in 0..4 {
        let mut next = vec![];
        for l in &frontier {
            for a in &alphabet {
                let mut l2 = l.clone();
                l2.push(a.clone());
                let total: usize = l2.iter().map(|m| 1 + m.len()).sum();
                if total <= maxlen {
                    next.push(l2);
                }
            }
        }
        lists.extend(next.clone());
        frontier = next;
    }
    for ms in lists {
        let stream: Vec<u8> =
            ms.iter().flat_map(|m| [varint(m.len() as u64), m.clone()].concat()).collect();
        let n = stream.len();
        if n == 0 {
            continue
        }
        for mask in 0u32..(1 << (n - 1)) {
            let cuts: Vec<usize> = (1..n).filter(|i| mask & (1 << (i - 1)) != 0).collect();
            let chunks = cut(&stream, &cuts);
            let (imp, oracle) = run_dec(&chunks);
            emit(out, &case_line(&chunks), &imp, &oracle, "exh");
        }
    }
    // a 130-byte message: every subset of the cut positions 1..=6 (in and around the 2-byte prefix)
    let m = vec![0x80u8; 130];
    let stream = [varint(130), m].concat();
    for mask in 0u32..64 {
        let cuts: Vec<usize> = (1..=6).filter(|i| mask & (1 << (i - 1)) != 0).collect();
        let chunks = cut(&stream, &cuts);
        let (imp, oracle) = run_dec(&chunks);
        emit(out, &case_line(&chunks), &imp, &oracle, "exh,pfxcut");
    }
}

fn gen_mal(out: &mut impl std::io::Write, seed: u64, n: u64) {
    let mut g = Gen { rng: Rng::new(seed ^ 0x5151), big: false };
    // fixed regression corpus first (the two as-found witnesses and relatives)
    let fixed: Vec<Vec<Vec<u8>>> = vec![
        vec![vec![0x80], vec![0x00, 1, 2, 3]],
        vec![vec![0xff; 11], vec![1]],
        vec![vec![0xff; 10], vec![0xff], vec![1, 2, 3]],
        vec![vec![0x81], vec![0x80], vec![0x00, 9, 9]],
        vec![vec![0xff; 9], vec![0x7f, 1, 2]],
        vec![vec![0xff; 9], vec![0x01], vec![5; 40]],
        vec![vec![0x80, 0x80], vec![0x80, 0x00, 0x00, 0x01, 0x07]],
    ];
    for chunks in fixed {
        let (imp, oracle) = run_dec(&chunks);
        emit(out, &case_line(&chunks), &imp, &oracle, "corpus");
    }
    for _ in 0..n {
        let kind = g.rng.below(7);
        let mut tag = String::new();
        let stream: Vec<u8> = match kind {
            0 => {
                tag.push_str("random");
                let n = g.rng.below(40) as usize;
                g.rng.bytes(n)
            }
            1 => {
                tag.push_str("noncanonical");
                // value with trailing zero groups, then some payload
                let v = g.rng.below(5);
                let mut p = varint(v);
                let last = p.len() - 1;
                p[last] |= 0x80;
                for _ in 0..g.rng.below(3) {
                    p.push(0x80);
                }
                p.push(0x00);
                let k = g.rng.below(12) as usize;
                p.extend(g.rng.bytes(k));
                p
            }
            2 => {
                tag.push_str("overlong");
                let k = g.rng.range(9, 14) as usize;
                let mut p = vec![0x80 | (g.rng.next() as u8); k];
                let k = g.rng.below(6) as usize;
                p.extend(g.rng.bytes(k));
                p
            }
            3 => {
                tag.push_str("huge");
                let v = *g.rng.pick(&[u64::MAX, 1 << 63, (1 << 63) - 1, 1 << 40, u32::MAX as u64 + 1]);
                let mut p = varint(v);
                let k = g.rng.below(20) as usize;
                p.extend(g.rng.bytes(k));
                p
            }
            _ => {
                tag.push_str("mutated");
                let ms = g.messages();
                let mut s: Vec<u8> = ms
                    .iter()
                    .filter(|m| m.len() <= 300)
                    .flat_map(|m| [varint(m.len() as u64), m.clone()].concat())
                    .collect();
                for _ in 0..g.rng.range(1, 3) {
                    if s.is_empty() {
                        s.push(g.rng.next() as u8);
                        continue
                    }
                    let i = g.rng.below(s.len() as u64) as usize;
                    match g.rng.below(4) {
                        0 => s[i] ^= 1 << g.rng.below(8),
                        1 => s.insert(i, *g.rng.pick(&[0x80u8, 0xff, 0x00, 0x81])),
                        2 => {
                            s.remove(i);
                        }
                        _ => s.truncate(i),
                    }
                }
                s
            }
        };
        let total = stream.len();
        let mut cuts: Vec<usize> = if total <= 1 {
            vec![]
        }
        else {
            match g.rng.below(4) {
                0 => (1..total).collect(),
                1 => (1..total.min(14)).filter(|_| g.rng.chance(1, 2)).collect(),
                2 => (0..g.rng.range(1, 6)).map(|_| g.rng.range(1, total as u64 - 1) as usize).collect(),
                _ => vec![],
            }
        };
        cuts.sort();
        cuts.dedup();
        let chunks = cut(&stream, &cuts);
        let (imp, oracle) = run_dec(&chunks);
        emit(out, &case_line(&chunks), &imp, &oracle, &tag);
    }
}

fn run_var(ws: &[&str]) -> (String, String, String) {
    match ws {
        ["enc", n] => {
            let n: u64 = match n.parse() {
                Ok(n) => n,
                Err(_) => return ("bad-case".into(), "ok".into(), "".into()),
            };
            let mut buf = [0u8; MAX_ENCODED_SIZE];
            let direct = catch_unwind(AssertUnwindSafe(|| {
                let k = (n as usize).encode_var(&mut buf);
                buf[..k].to_vec()
            }));
            let enc = match direct {
                Ok(v) => v,
                Err(_) => return ("panic".into(), "FAIL".into(), "enc".into()),
            };
            let mut ok = true;
            let mut tag = "enc".to_string();
            if n <= (1u64 << 32) {
                // through the crate's own entry point, on a real (zero page) message of that length
                let msg = vec![0u8; n as usize];
                let mut b2 = [0u8; MAX_ENCODED_SIZE];
                let e2 = encoding::encode_size(&msg, &mut b2).to_vec();
                ok &= e2 == enc;
                tag.push_str(",encode_size");
            }
            // oracle: decodes back to n, consuming exactly the prefix; canonical shape
            ok &= encoding::decode_size(&enc) == Some((n as usize, enc.len()));
            ok &= enc == varint(n);
            (to_hex(&enc), if ok { "ok".into() } else { "FAIL".into() }, tag)
        }
        ["dec", c] => match text_to_chunk(c) {
            Some(bs) => {
                let r = catch_unwind(|| encoding::decode_size(&bs));
                let imp = match r {
                    Ok(Some((v, u))) => format!("some {} {}", v, u),
                    Ok(None) => "none".into(),
                    Err(_) => "panic".into(),
                };
                (imp.clone(), if imp == "panic" { "FAIL".into() } else { "ok".into() }, "dec".into())
            }
            None => ("bad-case".into(), "ok".into(), "".into()),
        },
        _ => ("bad-case".into(), "ok".into(), "".into()),
    }
}

fn gen_var(out: &mut impl std::io::Write, seed: u64, n: u64) {
    let mut rng = Rng::new(seed ^ 0x7a7a);
    let mut vals: Vec<u64> = vec![0, 1, 127, 128, 129, 255, 256, 16383, 16384, 16385, u64::MAX, u64::MAX - 1];
    for k in 1..=9 {
        let p = 1u64 << (7 * k);
        vals.extend([p - 1, p, p + 1]);
    }
    vals.extend([1u64 << 63, (1u64 << 63) - 1, (1u64 << 63) + 1]);
    for _ in 0..n {
        let bits = rng.range(1, 64);
        vals.push(rng.next() >> (64 - bits));
    }
    for v in vals {
        let c = format!("var enc {}", v);
        let (imp, o, t) = run_var(&["enc", &v.to_string()]);
        emit(out, &c, &imp, &o, &t);
    }
    for _ in 0..n {
        let k = rng.range(0, 12) as usize;
        let mut bs = rng.bytes(k);
        if rng.chance(1, 2) {
            for b in bs.iter_mut() {
                *b |= 0x80;
            }
            if rng.chance(1, 2) && !bs.is_empty() {
                let l = bs.len() - 1;
                bs[l] &= 0x7f;
            }
        }
        let t = chunk_to_text(&bs);
        let (imp, o, tg) = run_var(&["dec", &t]);
        emit(out, &format!("var dec {}", t), &imp, &o, &tg);
    }
}

fn main() {
    quiet_panics();
    let out = std::io::stdout();
    let mut out = std::io::BufWriter::new(out.lock());
    match arg(1).as_str() {
        "gen-wf" => gen_wf(&mut out, arg_u64(2, 1), arg_u64(3, 1000), arg(4) == "big"),
        "gen-exh" => gen_exhaustive(&mut out, arg_u64(2, 10) as usize),
        "gen-mal" => gen_mal(&mut out, arg_u64(2, 1), arg_u64(3, 1000)),
        "gen-var" => gen_var(&mut out, arg_u64(2, 1), arg_u64(3, 1000)),
        "run" => {
            for line in stdin_lines() {
                let ws: Vec<&str> = line.split(' ').collect();
                match ws.first() {
                    Some(&"dec") => {
                        let chunks: Option<Vec<Vec<u8>>> =
                            ws[1..].iter().map(|c| text_to_chunk(c)).collect();
                        match chunks {
                            Some(chunks) => {
                                let (imp, oracle) = run_dec(&chunks);
                                emit(&mut out, &line, &imp, &oracle, "");
                            }
                            None => emit(&mut out, &line, "bad-case", "ok", ""),
                        }
                    }
                    Some(&"var") => {
                        let (imp, o, t) = run_var(&ws[1..]);
                        emit(&mut out, &line, &imp, &o, &t);
                    }
                    _ => emit(&mut out, &line, "bad-case", "ok", ""),
                }
            }
        }
        _ => eprintln!("usage: dec gen-wf|gen-exh|gen-mal|gen-var <seed> <n> | run"),
    }
}
