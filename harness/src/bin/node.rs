//! C05 / C09 / C15 tie for M4: the node listener in its three modes.
//!
//! Case lines (the driver plays the same scenario on the model with an eager schedule):
//!   `node serial <mode> <cbdur_us>`            stress: overlaps of callback invocations
//!   `node stop <mode> <scenario> <param>`      stop() scenarios: invocations after stop, listener returns
//!   `node early <mode> <cached> <live>`        events before the listener call: order of delivery
use mio_harness::*;
use message_io::network::{NetEvent, Transport};
use message_io::node::{self, NodeEvent, NodeHandler, NodeListener, NodeTask, StoredNodeEvent};
use std::io::Write;
use std::net::{SocketAddr, TcpStream, UdpSocket};
use std::sync::atomic::{AtomicBool, AtomicU64, AtomicUsize, Ordering};
use std::sync::{Arc, Mutex};
use std::time::{Duration, Instant};

#[derive(Clone, Copy, PartialEq, Debug)]
enum Mode {
    Sync,
    Async,
    Enqueue,
}
impl Mode {
    fn name(self) -> &'static str {
        match self {
            Mode::Sync => "sync",
            Mode::Async => "async",
            Mode::Enqueue => "enqueue",
        }
    }
}

#[derive(Clone, Debug, PartialEq)]
enum Ev {
    Accepted(SocketAddr),
    Message(SocketAddr, Vec<u8>),
    Disconnected(SocketAddr),
    Connected(bool),
    Signal(u64),
}

/// what runs the listener; returns when the listener has returned / the task was waited
enum Running {
    Thread(std::thread::JoinHandle<()>),
    Task(NodeTask, Option<std::thread::JoinHandle<()>>),
}

fn to_ev(e: NodeEvent<u64>) -> Ev {
    match e {
        NodeEvent::Network(NetEvent::Accepted(ep, listener)) => {
            // the second field is the id of the listener that accepted the connection: a listener id of the
            // same transport, never the connection's own id; a wrong one poisons the observed event
            let plausible = listener.resource_type() == message_io::network::ResourceType::Local
                && listener.adapter_id() == ep.resource_id().adapter_id()
                && listener != ep.resource_id();
            if plausible { Ev::Accepted(ep.addr()) } else { Ev::Accepted("0.0.0.0:0".parse().unwrap()) }
        }
        NodeEvent::Network(NetEvent::Message(ep, d)) => Ev::Message(ep.addr(), d.to_vec()),
        NodeEvent::Network(NetEvent::Disconnected(ep)) => Ev::Disconnected(ep.addr()),
        NodeEvent::Network(NetEvent::Connected(_, ok)) => Ev::Connected(ok),
        NodeEvent::Signal(s) => Ev::Signal(s),
    }
}

fn stored_to_ev(e: &StoredNodeEvent<u64>) -> Ev {
    match e {
        StoredNodeEvent::Network(n) => to_ev(NodeEvent::Network(n.borrow())),
        StoredNodeEvent::Signal(s) => Ev::Signal(*s),
    }
}

/// start the listener in the given mode with `cb`
fn start(mode: Mode, handler: &NodeHandler<u64>, listener: NodeListener<u64>, mut cb: impl FnMut(Ev) + Send + 'static) -> Running {
    match mode {
        Mode::Sync => Running::Thread(std::thread::spawn(move || listener.for_each(move |e| cb(to_ev(e))))),
        Mode::Async => Running::Task(listener.for_each_async(move |e| cb(to_ev(e))), None),
        Mode::Enqueue => {
            let (task, mut rx) = listener.enqueue();
            let h = handler.clone();
            let consumer = std::thread::spawn(move || loop {
                // the consumer of the queue belongs to this harness: it stops with the node
                if !h.is_running() {
                    break
                }
                if let Some(ev) = rx.receive_timeout(Duration::from_millis(20)) {
                    cb(stored_to_ev(&ev));
                }
            });
            Running::Task(task, Some(consumer))
        }
    }
}

/// wait for the listener to finish; returns the time it took, None if it did not within the bound
fn finish(r: Running, bound: Duration) -> Option<Duration> {
    let t0 = Instant::now();
    let (tx, rx) = std::sync::mpsc::channel();
    std::thread::spawn(move || {
        match r {
            Running::Thread(h) => {
                let _ = h.join();
            }
            Running::Task(mut task, consumer) => {
                let _ = std::panic::catch_unwind(std::panic::AssertUnwindSafe(|| task.wait()));
                if let Some(c) = consumer {
                    let _ = c.join();
                }
            }
        }
        let _ = tx.send(());
    });
    rx.recv_timeout(bound).ok().map(|_| t0.elapsed())
}

fn varint(mut n: u64) -> Vec<u8> {
    let mut v = vec![];
    while n >= 0x80 {
        v.push((n as u8) | 0x80);
        n >>= 7;
    }
    v.push(n as u8);
    v
}
fn framed(payload: &[u8]) -> Vec<u8> {
    [varint(payload.len() as u64), payload.to_vec()].concat()
}

// -------------------------------------------------------------------------------------------------
// C05

fn run_serial(mode: Mode, cbdur_us: u64) -> (String, String, String, String) {
    let (handler, listener) = node::split::<u64>();
    let (_l1, a_tcp) = handler.network().listen(Transport::FramedTcp, "127.0.0.1:0").unwrap();
    let (_l2, a_udp) = handler.network().listen(Transport::Udp, "127.0.0.1:0").unwrap();
    let inside = Arc::new(AtomicBool::new(false));
    let overlaps = Arc::new(AtomicUsize::new(0));
    let entries: Arc<Mutex<std::collections::HashMap<std::thread::ThreadId, usize>>> = Arc::new(Mutex::new(Default::default()));
    let seq = Arc::new(AtomicU64::new(0));
    let (i2, o2, e2, s2) = (inside.clone(), overlaps.clone(), entries.clone(), seq.clone());
    let cb = move |_e: Ev| {
        if i2.swap(true, Ordering::SeqCst) {
            o2.fetch_add(1, Ordering::SeqCst);
        }
        s2.fetch_add(1, Ordering::SeqCst);
        *e2.lock().unwrap().entry(std::thread::current().id()).or_insert(0) += 1;
        if cbdur_us >= 1000 {
            std::thread::sleep(Duration::from_micros(cbdur_us));
        }
        else if cbdur_us > 0 {
            let t = Instant::now();
            while t.elapsed() < Duration::from_micros(cbdur_us) {
                std::hint::spin_loop();
            }
        }
        i2.store(false, Ordering::SeqCst);
    };
    let running = start(mode, &handler, listener, cb);
    let stop_flag = Arc::new(AtomicBool::new(false));
    let mut hs = vec![];
    for p in 0..3u8 {
        let sf = stop_flag.clone();
        hs.push(std::thread::spawn(move || {
            let Ok(mut s) = TcpStream::connect(a_tcp) else { return };
            s.set_nodelay(true).ok();
            while !sf.load(Ordering::Relaxed) {
                let _ = s.write_all(&framed(&[p; 16]));
                std::thread::sleep(Duration::from_micros(150));
            }
        }));
    }
    {
        let sf = stop_flag.clone();
        hs.push(std::thread::spawn(move || {
            let u = UdpSocket::bind("127.0.0.1:0").unwrap();
            while !sf.load(Ordering::Relaxed) {
                let _ = u.send_to(&[7; 32], a_udp);
                std::thread::sleep(Duration::from_micros(200));
            }
        }));
    }
    for k in 0..3u64 {
        let (h, sf) = (handler.clone(), stop_flag.clone());
        hs.push(std::thread::spawn(move || {
            let mut i = 0u64;
            while !sf.load(Ordering::Relaxed) {
                match k {
                    0 => h.signals().send(i),
                    1 => h.signals().send_with_priority(i),
                    _ => {
                        h.signals().send_with_timer(i, Duration::from_micros(300));
                    }
                }
                i += 1;
                std::thread::sleep(Duration::from_micros(120));
            }
        }));
    }
    // long callbacks (longer than the 50 ms sampling period of the dispatch threads) get a longer run
    let long = cbdur_us >= 50_000;
    std::thread::sleep(Duration::from_millis(if long { 900 } else { 220 }));
    stop_flag.store(true, Ordering::Relaxed);
    for h in hs {
        let _ = h.join();
    }
    handler.stop();
    let returned = finish(running, Duration::from_secs(3));
    let n = seq.load(Ordering::SeqCst);
    let ov = overlaps.load(Ordering::SeqCst);
    let per_thread: Vec<usize> = entries.lock().unwrap().values().copied().collect();
    let both = per_thread.iter().filter(|c| **c >= if long { 2 } else { 100 }).count() >= 2 || (mode == Mode::Enqueue && n > if long { 4 } else { 200 });
    let case = format!("node serial {} {}", mode.name(), cbdur_us);
    let ok = ov == 0 && returned.is_some();
    (
        case,
        format!("overlaps={}", ov),
        if ok { "ok".into() } else { format!("FAIL overlaps={} returned={:?}", ov, returned) },
        format!("serial,{}{},n{}", mode.name(), if both { ",both-threads" } else { "" }, (n / 500).min(9)),
    )
}

/// C05 during the replay of cached start-up events: datagrams and a connection are cached before the
/// listener call, signals (immediate and timed) are already queued, the callback takes 20 ms; no two
/// invocations may overlap, in any mode
fn run_serial_cached(mode: Mode) -> (String, String, String, String) {
    let (handler, listener) = node::split::<u64>();
    let (_l2, a_udp) = handler.network().listen(Transport::Udp, "127.0.0.1:0").unwrap();
    let (_l1, a_tcp) = handler.network().listen(Transport::FramedTcp, "127.0.0.1:0").unwrap();
    let u = UdpSocket::bind("127.0.0.1:0").unwrap();
    for i in 0..5u8 {
        let _ = u.send_to(&[i; 8], a_udp);
    }
    let mut conn = TcpStream::connect(a_tcp).ok();
    if let Some(c) = conn.as_mut() {
        let _ = c.write_all(&framed(&[1, 2, 3]));
    }
    std::thread::sleep(Duration::from_millis(150));
    handler.signals().send(1);
    handler.signals().send_with_priority(2);
    handler.signals().send_with_timer(3, Duration::from_millis(30));
    handler.signals().send_with_timer(4, Duration::from_millis(70));
    let inside = Arc::new(AtomicBool::new(false));
    let overlaps = Arc::new(AtomicUsize::new(0));
    let count = Arc::new(AtomicUsize::new(0));
    let (i2, o2, c2) = (inside.clone(), overlaps.clone(), count.clone());
    let running = start(mode, &handler, listener, move |_e| {
        if i2.swap(true, Ordering::SeqCst) {
            o2.fetch_add(1, Ordering::SeqCst);
        }
        c2.fetch_add(1, Ordering::SeqCst);
        std::thread::sleep(Duration::from_millis(20));
        i2.store(false, Ordering::SeqCst);
    });
    let deadline = Instant::now() + Duration::from_secs(3);
    while count.load(Ordering::SeqCst) < 11 && Instant::now() < deadline {
        std::thread::sleep(Duration::from_millis(10));
    }
    std::thread::sleep(Duration::from_millis(50));
    handler.stop();
    let returned = finish(running, Duration::from_secs(3));
    drop(conn);
    let ov = overlaps.load(Ordering::SeqCst);
    let n = count.load(Ordering::SeqCst);
    let ok = ov == 0 && returned.is_some();
    (
        format!("node serialc {}", mode.name()),
        format!("overlaps={}", ov),
        if ok { "ok".into() } else { format!("FAIL overlaps={} invocations={} returned={:?}", ov, n, returned) },
        format!("serial,cached,{}{}", mode.name(), if n >= 8 { ",both-threads" } else { "" }),
    )
}

/// many invocations under contention: `total` signals are queued before the listener starts and a peer
/// floods 1-byte frames from the first invocation on, so that both dispatch threads compete for the
/// callback at every turn, for more turns than a 16-bit counter holds.  No two invocations may overlap.
fn run_serial_many(mode: Mode, total: u64) -> (String, String, String, String) {
    let (handler, listener) = node::split::<u64>();
    let (_l1, a_tcp) = handler.network().listen(Transport::FramedTcp, "127.0.0.1:0").unwrap();
    for i in 0..total {
        handler.signals().send(i);
    }
    let inside = Arc::new(AtomicBool::new(false));
    let overlaps = Arc::new(AtomicUsize::new(0));
    let calls = Arc::new(AtomicU64::new(0));
    let nets = Arc::new(AtomicU64::new(0));
    let feeding = Arc::new(AtomicBool::new(false));
    let done = Arc::new(AtomicBool::new(false));
    let (i2, o2, c2, n2, f2, d2, h2) = (inside.clone(), overlaps.clone(), calls.clone(), nets.clone(), feeding.clone(), done.clone(), handler.clone());
    let cb = move |e: Ev| {
        if i2.swap(true, Ordering::SeqCst) {
            o2.fetch_add(1, Ordering::SeqCst);
        }
        f2.store(true, Ordering::SeqCst);
        if !matches!(e, Ev::Signal(_)) {
            n2.fetch_add(1, Ordering::SeqCst);
        }
        let t = Instant::now();
        while t.elapsed() < Duration::from_micros(3) {
            std::hint::spin_loop();
        }
        if c2.fetch_add(1, Ordering::SeqCst) + 1 >= total && !d2.swap(true, Ordering::SeqCst) {
            h2.stop();
        }
        i2.store(false, Ordering::SeqCst);
    };
    let (f3, d3) = (feeding.clone(), done.clone());
    let feeder = std::thread::spawn(move || {
        let Ok(mut s) = TcpStream::connect(a_tcp) else { return };
        s.set_nodelay(true).ok();
        s.set_write_timeout(Some(Duration::from_millis(200))).ok();
        while !f3.load(Ordering::SeqCst) && !d3.load(Ordering::SeqCst) {
            std::thread::sleep(Duration::from_millis(1));
        }
        let chunk: Vec<u8> = std::iter::repeat([1u8, 7u8]).take(64).flatten().collect();
        while !d3.load(Ordering::SeqCst) {
            let _ = s.write(&chunk);
        }
    });
    let running = start(mode, &handler, listener, cb);
    let deadline = Instant::now() + Duration::from_secs(60);
    while !done.load(Ordering::SeqCst) && Instant::now() < deadline {
        std::thread::sleep(Duration::from_millis(10));
    }
    let reached = done.swap(true, Ordering::SeqCst);
    handler.stop();
    let returned = finish(running, Duration::from_secs(5));
    let _ = feeder.join();
    let ov = overlaps.load(Ordering::SeqCst);
    let n = calls.load(Ordering::SeqCst);
    let net = nets.load(Ordering::SeqCst);
    let ok = ov == 0 && reached && returned.is_some();
    (
        format!("node serialmany {} {}", mode.name(), total),
        format!("overlaps={}", ov),
        if ok { "ok".into() } else { format!("FAIL overlaps={} invocations={} (network {}) of {} reached={} returned={:?}", ov, n, net, total, reached, returned) },
        format!("serial,many,{}{}", mode.name(), if net >= 1000 { ",both-threads" } else { "" }),
    )
}

/// sparse traffic: a signal callback that lasts 150 ms (three sampling periods of the dispatch threads, so
/// the network thread's poll times out, without events, while the callback runs) and, in the middle of it,
/// a single datagram — or a frame arriving in two halves 10 ms apart.  The network event must wait.
fn run_serial_sparse(mode: Mode) -> (String, String, String, String) {
    let (handler, listener) = node::split::<u64>();
    let (_l1, a_tcp) = handler.network().listen(Transport::FramedTcp, "127.0.0.1:0").unwrap();
    let (_l2, a_udp) = handler.network().listen(Transport::Udp, "127.0.0.1:0").unwrap();
    let (_l3, a_raw) = handler.network().listen(Transport::Tcp, "127.0.0.1:0").unwrap();
    let raw_bytes = Arc::new(AtomicU64::new(0));
    let rb2 = raw_bytes.clone();
    let inside = Arc::new(AtomicBool::new(false));
    let in_signal = Arc::new(AtomicBool::new(false));
    let overlaps = Arc::new(AtomicUsize::new(0));
    let nets = Arc::new(AtomicU64::new(0));
    let sigs = Arc::new(AtomicU64::new(0));
    let (i2, s2, o2, n2, g2) = (inside.clone(), in_signal.clone(), overlaps.clone(), nets.clone(), sigs.clone());
    let cb = move |e: Ev| {
        if i2.swap(true, Ordering::SeqCst) {
            o2.fetch_add(1, Ordering::SeqCst);
        }
        if matches!(e, Ev::Signal(_)) {
            g2.fetch_add(1, Ordering::SeqCst);
            s2.store(true, Ordering::SeqCst);
            std::thread::sleep(Duration::from_millis(150));
            s2.store(false, Ordering::SeqCst);
        }
        else {
            if let Ev::Message(_, data) = &e {
                // raw Tcp chunks are told apart by their filler byte; they are counted in bytes
                if data.first() == Some(&0xEE) {
                    rb2.fetch_add(data.len() as u64, Ordering::SeqCst);
                }
                else {
                    n2.fetch_add(1, Ordering::SeqCst);
                }
            }
            std::thread::sleep(Duration::from_millis(5));
        }
        i2.store(false, Ordering::SeqCst);
    };
    let running = start(mode, &handler, listener, cb);
    let udp = UdpSocket::bind("127.0.0.1:0").unwrap();
    let mut tcp = TcpStream::connect(a_tcp).unwrap();
    tcp.set_nodelay(true).ok();
    let mut raw = TcpStream::connect(a_raw).unwrap();
    raw.set_nodelay(true).ok();
    let mut raw_sent = 0u64;
    std::thread::sleep(Duration::from_millis(120));
    let wait_signal = |flag: &AtomicBool| {
        let t = Instant::now();
        while !flag.load(Ordering::SeqCst) && t.elapsed() < Duration::from_secs(2) {
            std::thread::sleep(Duration::from_millis(1));
        }
    };
    let mut sent = 0u64;
    for r in 0..3u64 {
        // a datagram 80 ms into the signal callback
        handler.signals().send(r);
        wait_signal(&in_signal);
        std::thread::sleep(Duration::from_millis(80));
        let _ = udp.send_to(&[r as u8; 8], a_udp);
        sent += 1;
        // … and a piece of a raw Tcp stream
        let _ = raw.write_all(&[0xEE; 3000]);
        raw_sent += 3000;
        std::thread::sleep(Duration::from_millis(140));
        // a frame in two halves, 60 and 70 ms into the next signal callback
        handler.signals().send(100 + r);
        wait_signal(&in_signal);
        std::thread::sleep(Duration::from_millis(60));
        let frame = framed(&[r as u8; 40]);
        let _ = tcp.write_all(&frame[..20]);
        std::thread::sleep(Duration::from_millis(10));
        let _ = tcp.write_all(&frame[20..]);
        sent += 1;
        std::thread::sleep(Duration::from_millis(150));
    }
    std::thread::sleep(Duration::from_millis(100));
    handler.stop();
    let returned = finish(running, Duration::from_secs(3));
    let ov = overlaps.load(Ordering::SeqCst);
    let (n, g) = (nets.load(Ordering::SeqCst), sigs.load(Ordering::SeqCst));
    let rb = raw_bytes.load(Ordering::SeqCst);
    let ok = ov == 0 && returned.is_some() && n == sent && g == 6 && rb == raw_sent;
    (
        format!("node serialsparse {}", mode.name()),
        format!("overlaps={}", ov),
        if ok { "ok".into() } else { format!("FAIL overlaps={} network messages {} of {}, raw Tcp bytes {} of {}, signals {} of 6 returned={:?}", ov, n, sent, rb, raw_sent, g, returned) },
        format!("serial,sparse,{},both-threads", mode.name()),
    )
}

// -------------------------------------------------------------------------------------------------
// C09

/// scenario: before(k) | innet(i) | insig(i) | contended | replay(k) | external
fn run_stop(mode: Mode, scenario: &str, param: u64) -> (String, String, String, String) {
    let (handler, listener) = node::split::<u64>();
    let (_l, addr) = handler.network().listen(Transport::FramedTcp, "127.0.0.1:0").unwrap();
    let stopped = Arc::new(AtomicBool::new(false));
    let after = Arc::new(AtomicUsize::new(0));
    let net_seen = Arc::new(AtomicU64::new(0));
    let sig_seen = Arc::new(AtomicU64::new(0));
    let total = Arc::new(AtomicU64::new(0));
    // peers that will have produced events before the listener call
    let mut peers = vec![];
    let cached = match scenario {
        "before" | "replay" => param,
        _ => 0,
    };
    for i in 0..cached {
        if let Ok(mut s) = TcpStream::connect(addr) {
            s.set_nodelay(true).ok();
            let _ = s.write_all(&framed(&[i as u8; 8]));
            peers.push(s);
        }
    }
    if cached > 0 {
        std::thread::sleep(Duration::from_millis(120));
    }
    if scenario == "before" {
        handler.stop();
        stopped.store(true, Ordering::SeqCst);
    }
    let (h, st, af, ns, ss, tot) = (handler.clone(), stopped.clone(), after.clone(), net_seen.clone(), sig_seen.clone(), total.clone());
    let sc = scenario.to_string();
    let cb = move |e: Ev| {
        if st.load(Ordering::SeqCst) {
            af.fetch_add(1, Ordering::SeqCst);
        }
        tot.fetch_add(1, Ordering::SeqCst);
        let is_sig = matches!(e, Ev::Signal(_));
        let idx = if is_sig { ss.fetch_add(1, Ordering::SeqCst) } else { ns.fetch_add(1, Ordering::SeqCst) };
        let do_stop = match sc.as_str() {
            "innet" => !is_sig && idx == param,
            "insig" => is_sig && idx == param,
            "contended" => {
                if is_sig && idx == 0 {
                    std::thread::sleep(Duration::from_millis(60)); // the network thread queues up on the lock
                    true
                }
                else {
                    false
                }
            }
            "contnet" => {
                // the mirror image: stop() inside a network callback that sleeps while signals keep arriving,
                // so that the signal thread holds a dequeued signal and queues up on the callback lock
                if !is_sig && idx == 0 {
                    std::thread::sleep(Duration::from_millis(60));
                    true
                }
                else {
                    false
                }
            }
            "replay" => !is_sig && idx == 1,
            _ => false,
        };
        if do_stop && !st.load(Ordering::SeqCst) {
            h.stop();
            st.store(true, Ordering::SeqCst);
        }
    };
    let t_start = Instant::now();
    let running = start(mode, &handler, listener, cb);
    // traffic while the listener runs
    let traffic_stop = Arc::new(AtomicBool::new(false));
    let mut hs = vec![];
    // storm: no signal is ever delivered, but timers far in the future are created and cancelled
    // every 2 ms until after the listener has (or should have) returned: the signal thread's
    // receive_timeout() keeps being woken by timer commands
    let storm_stop = Arc::new(AtomicBool::new(false));
    let storm = if scenario == "storm" {
        let (hh, sf) = (handler.clone(), storm_stop.clone());
        Some(std::thread::spawn(move || {
            while !sf.load(Ordering::Relaxed) {
                let id = hh.signals().send_with_timer(77, Duration::from_secs(3600));
                std::thread::sleep(Duration::from_millis(1 + param % 3));
                hh.signals().cancel_timer(id);
            }
        }))
    }
    else {
        None
    };
    if scenario != "before" && scenario != "storm" {
        for p in 0..2u8 {
            let sf = traffic_stop.clone();
            hs.push(std::thread::spawn(move || {
                let Ok(mut s) = TcpStream::connect(addr) else { return };
                s.set_nodelay(true).ok();
                while !sf.load(Ordering::Relaxed) {
                    if s.write_all(&framed(&[p; 8])).is_err() {
                        break
                    }
                    std::thread::sleep(Duration::from_millis(2));
                }
            }));
        }
        let (hh, sf) = (handler.clone(), traffic_stop.clone());
        hs.push(std::thread::spawn(move || {
            let mut i = 0;
            while !sf.load(Ordering::Relaxed) {
                hh.signals().send(i);
                i += 1;
                std::thread::sleep(Duration::from_millis(3));
            }
        }));
    }
    if scenario == "external" || scenario == "storm" {
        std::thread::sleep(Duration::from_millis(20 + param * 7));
        handler.stop();
    }
    // wait until stopped (or give up), then let late traffic arrive
    let deadline = Instant::now() + Duration::from_secs(3);
    while handler.is_running() && Instant::now() < deadline {
        std::thread::sleep(Duration::from_millis(5));
    }
    std::thread::sleep(Duration::from_millis(80));
    // the peers and the signal producer keep going while the listener is awaited: its threads must notice
    // the stop under steady traffic (signals every 3 ms, messages every 2 ms), not only once things go quiet
    let was_running = handler.is_running();
    let returned = finish(running, Duration::from_millis(1500));
    traffic_stop.store(true, Ordering::Relaxed);
    for h in hs {
        let _ = h.join();
    }
    storm_stop.store(true, Ordering::Relaxed);
    if let Some(h) = storm {
        let _ = h.join();
    }
    drop(peers);
    let after_n = after.load(Ordering::SeqCst);
    let case = format!("node stop {} {} {}", mode.name(), scenario, param);
    // enqueue: events already forwarded into the queue before stop() are still consumed by the
    // consumer loop of this harness (the node's own callback is the forwarder): not counted
    let after_effective = if mode == Mode::Enqueue && scenario != "before" { 0 } else { after_n };
    let ok = after_effective == 0 && returned.is_some() && !was_running;
    let _ = t_start;
    (
        case,
        format!("after={} returned={} running={}", after_effective, returned.is_some(), was_running),
        if ok { "ok".into() } else { format!("FAIL invocations after stop()={} listener returned={:?} is_running={}", after_n, returned, was_running) },
        format!("stop,{},{}{}", mode.name(), scenario, if total.load(Ordering::SeqCst) > 0 || scenario == "storm" { ",invoked" } else { "" }),
    )
}

// -------------------------------------------------------------------------------------------------
// C15

fn run_early(mode: Mode, cached_actions: usize, live_actions: usize, delay_ms: u64, rng: &mut Rng) -> (String, String, String, String) {
    let (handler, listener) = node::split::<u64>();
    let (_l, addr) = handler.network().listen(Transport::FramedTcp, "127.0.0.1:0").unwrap();
    let observed: Arc<Mutex<Vec<Ev>>> = Arc::new(Mutex::new(vec![]));
    let mut expected: Vec<Ev> = vec![];
    let mut conns: Vec<TcpStream> = vec![];
    let mut msg_id = 0u8;
    let mut act = |expected: &mut Vec<Ev>, conns: &mut Vec<TcpStream>, rng: &mut Rng| {
        let choice = if conns.is_empty() { 0 } else { rng.below(6) };
        match choice {
            0 | 1 if conns.len() < 4 => {
                if let Ok(s) = TcpStream::connect(addr) {
                    s.set_nodelay(true).ok();
                    expected.push(Ev::Accepted(s.local_addr().unwrap()));
                    conns.push(s);
                }
            }
            5 if conns.len() > 1 => {
                let s = conns.remove(rng.below(conns.len() as u64) as usize);
                expected.push(Ev::Disconnected(s.local_addr().unwrap()));
                drop(s);
            }
            _ => {
                let i = rng.below(conns.len() as u64) as usize;
                // every third message repeats the previous payload byte for byte (possibly on the same
                // connection, back to back): equal events are still distinct events
                if !rng.chance(1, 3) || msg_id == 0 {
                    msg_id = msg_id.wrapping_add(1);
                }
                let payload = vec![msg_id; 1 + (msg_id as usize % 5)];
                let _ = conns[i].write_all(&framed(&payload));
                expected.push(Ev::Message(conns[i].local_addr().unwrap(), payload));
            }
        }
        std::thread::sleep(Duration::from_millis(4));
    };
    for _ in 0..cached_actions {
        act(&mut expected, &mut conns, rng);
    }
    let n_cached = expected.len();
    std::thread::sleep(Duration::from_millis(delay_ms));
    let obs2 = observed.clone();
    let running = start(mode, &handler, listener, move |e| {
        if !matches!(e, Ev::Signal(_)) {
            obs2.lock().unwrap().push(e);
        }
    });
    // signals flow as well: they must not disturb the order of network events
    for i in 0..5 {
        handler.signals().send(i);
    }
    for _ in 0..live_actions {
        act(&mut expected, &mut conns, rng);
    }
    let deadline = Instant::now() + Duration::from_secs(3);
    while observed.lock().unwrap().len() < expected.len() && Instant::now() < deadline {
        std::thread::sleep(Duration::from_millis(5));
    }
    std::thread::sleep(Duration::from_millis(40));
    handler.stop();
    let returned = finish(running, Duration::from_secs(3));
    let obs = observed.lock().unwrap().clone();
    let order_ok = obs == expected;
    let case = format!("node early {} {} {}", mode.name(), n_cached, expected.len() - n_cached);
    let first_diff = obs.iter().zip(expected.iter()).position(|(a, b)| a != b);
    (
        case,
        format!("order={} delivered={}", if order_ok { "ok" } else { "broken" }, obs.len()),
        if order_ok && returned.is_some() {
            "ok".into()
        }
        else {
            format!("FAIL first difference at {:?}: got {:?} expected {:?} (observed {} of {})", first_diff, first_diff.and_then(|i| obs.get(i)), first_diff.and_then(|i| expected.get(i)), obs.len(), expected.len())
        },
        format!("early,{}{}{}", mode.name(), if n_cached >= 3 { ",cached3" } else { "" }, if expected.iter().any(|e| matches!(e, Ev::Disconnected(_))) { ",disconnect" } else { "" }),
    )
}

/// a burst before the listener call: one peer writes `n` numbered frames in a single write, so that the
/// caching thread receives them in a few large poll batches (thousands of events in the cache); then the
/// listener starts, ten more frames follow and the peer closes.  Every frame must arrive, in order.
fn run_early_burst(mode: Mode, n: u32) -> (String, String, String, String) {
    let (handler, listener) = node::split::<u64>();
    let (_l, addr) = handler.network().listen(Transport::FramedTcp, "127.0.0.1:0").unwrap();
    let observed: Arc<Mutex<Vec<Ev>>> = Arc::new(Mutex::new(vec![]));
    let mut peer = TcpStream::connect(addr).unwrap();
    peer.set_nodelay(true).ok();
    let local = peer.local_addr().unwrap();
    let mut wire = vec![];
    for i in 0..n {
        wire.extend_from_slice(&framed(&i.to_le_bytes()));
    }
    // byte-identical messages back to back (a heartbeat, empty messages): equal events are distinct events
    let same: [&[u8]; 6] = [b"ping", b"ping", b"ping", b"", b"", b"end"];
    for m in same {
        wire.extend_from_slice(&framed(m));
    }
    peer.write_all(&wire).unwrap();
    std::thread::sleep(Duration::from_millis(300));
    let obs2 = observed.clone();
    let running = start(mode, &handler, listener, move |e| {
        if !matches!(e, Ev::Signal(_)) {
            obs2.lock().unwrap().push(e);
        }
    });
    std::thread::sleep(Duration::from_millis(30));
    for i in n..n + 10 {
        let _ = peer.write_all(&framed(&i.to_le_bytes()));
        std::thread::sleep(Duration::from_millis(2));
    }
    drop(peer);
    let want = n as usize + 18;
    let deadline = Instant::now() + Duration::from_secs(5);
    while observed.lock().unwrap().len() < want && Instant::now() < deadline {
        std::thread::sleep(Duration::from_millis(5));
    }
    std::thread::sleep(Duration::from_millis(40));
    handler.stop();
    let returned = finish(running, Duration::from_secs(3));
    let obs = observed.lock().unwrap().clone();
    let mut expected = vec![Ev::Accepted(local)];
    for i in 0..n {
        expected.push(Ev::Message(local, i.to_le_bytes().to_vec()));
    }
    for m in same {
        expected.push(Ev::Message(local, m.to_vec()));
    }
    for i in n..n + 10 {
        expected.push(Ev::Message(local, i.to_le_bytes().to_vec()));
    }
    expected.push(Ev::Disconnected(local));
    let order_ok = obs == expected;
    let first_diff = obs.iter().zip(expected.iter()).position(|(a, b)| a != b).or(if obs.len() != expected.len() { Some(obs.len().min(expected.len())) } else { None });
    (
        format!("node earlyburst {} {}", mode.name(), n),
        format!("order={} delivered={}", if order_ok { "ok" } else { "broken" }, obs.len()),
        if order_ok && returned.is_some() {
            "ok".into()
        }
        else {
            format!("FAIL first difference at {:?}: got {:?} expected {:?} (observed {} of {})", first_diff, first_diff.and_then(|i| obs.get(i)), first_diff.and_then(|i| expected.get(i)), obs.len(), expected.len())
        },
        format!("early,burst,cached3,{}", mode.name()),
    )
}

/// everything happens before the listener call: two peers connect, say hello and close, one after the
/// other.  The cache then holds Accepted, Message, Disconnected per peer; they are delivered in exactly that
/// order (in enqueue mode: the queue the user reads from keeps it too).
fn run_early_gone(mode: Mode) -> (String, String, String, String) {
    let (handler, listener) = node::split::<u64>();
    let (_l, addr) = handler.network().listen(Transport::FramedTcp, "127.0.0.1:0").unwrap();
    let observed: Arc<Mutex<Vec<Ev>>> = Arc::new(Mutex::new(vec![]));
    let mut expected: Vec<Ev> = vec![];
    for k in 0..2u8 {
        let mut s = TcpStream::connect(addr).unwrap();
        s.set_nodelay(true).ok();
        let local = s.local_addr().unwrap();
        let _ = s.write_all(&framed(&[k; 5]));
        std::thread::sleep(Duration::from_millis(60));
        drop(s);
        std::thread::sleep(Duration::from_millis(60));
        expected.push(Ev::Accepted(local));
        expected.push(Ev::Message(local, vec![k; 5]));
        expected.push(Ev::Disconnected(local));
    }
    std::thread::sleep(Duration::from_millis(100));
    let obs2 = observed.clone();
    let running = start(mode, &handler, listener, move |e| {
        if !matches!(e, Ev::Signal(_)) {
            obs2.lock().unwrap().push(e);
        }
    });
    let deadline = Instant::now() + Duration::from_secs(3);
    while observed.lock().unwrap().len() < expected.len() && Instant::now() < deadline {
        std::thread::sleep(Duration::from_millis(5));
    }
    std::thread::sleep(Duration::from_millis(40));
    handler.stop();
    let returned = finish(running, Duration::from_secs(3));
    let obs = observed.lock().unwrap().clone();
    let order_ok = obs == expected;
    let first_diff = obs.iter().zip(expected.iter()).position(|(a, b)| a != b).or(if obs.len() != expected.len() { Some(obs.len().min(expected.len())) } else { None });
    (
        format!("node earlygone {}", mode.name()),
        format!("order={} delivered={}", if order_ok { "ok" } else { "broken" }, obs.len()),
        if order_ok && returned.is_some() {
            "ok".into()
        }
        else {
            format!("FAIL first difference at {:?}: got {:?} expected {:?} (observed {} of {})", first_diff, first_diff.and_then(|i| obs.get(i)), first_diff.and_then(|i| expected.get(i)), obs.len(), expected.len())
        },
        format!("early,gone,cached3,disconnect,{}", mode.name()),
    )
}

// -------------------------------------------------------------------------------------------------
// C15: the hand-over itself, while a peer keeps sending

/// a peer sends numbered messages every 3 ms from before the listener call until `AFTER_MS` after it;
/// the listener call must take the poller over while that traffic lasts (the caching thread looks at its
/// stop flag after every poll), so the first cached event reaches the callback long before the traffic
/// ends; all messages arrive, in order
fn run_early_busy(mode: Mode, udp: bool) -> (String, String, String, String) {
    const BEFORE_MS: u64 = 150;
    const AFTER_MS: u64 = 900;
    let (handler, listener) = node::split::<u64>();
    let transport = if udp { Transport::Udp } else { Transport::FramedTcp };
    let (_l, addr) = handler.network().listen(transport, "127.0.0.1:0").unwrap();
    let observed: Arc<Mutex<Vec<(u32, Instant)>>> = Arc::new(Mutex::new(vec![]));
    let stop_sending = Arc::new(std::sync::atomic::AtomicBool::new(false));
    let stop2 = stop_sending.clone();
    let sender = std::thread::spawn(move || {
        let mut n = 0u32;
        if udp {
            let s = std::net::UdpSocket::bind("127.0.0.1:0").unwrap();
            while !stop2.load(std::sync::atomic::Ordering::SeqCst) {
                let _ = s.send_to(&n.to_le_bytes(), addr);
                n += 1;
                std::thread::sleep(Duration::from_millis(3));
            }
        }
        else {
            let mut s = TcpStream::connect(addr).unwrap();
            s.set_nodelay(true).ok();
            while !stop2.load(std::sync::atomic::Ordering::SeqCst) {
                let _ = s.write_all(&framed(&n.to_le_bytes()));
                n += 1;
                std::thread::sleep(Duration::from_millis(3));
            }
            // keep the connection open until everything was read
            std::thread::sleep(Duration::from_millis(400));
        }
        (n, Instant::now())
    });
    std::thread::sleep(Duration::from_millis(BEFORE_MS));
    let obs2 = observed.clone();
    let called = Instant::now();
    // the traffic ends AFTER_MS after the call, whatever the call does in the meantime
    let stop3 = stop_sending.clone();
    let timer = std::thread::spawn(move || {
        std::thread::sleep(Duration::from_millis(AFTER_MS));
        stop3.store(true, std::sync::atomic::Ordering::SeqCst);
        Instant::now()
    });
    let running = start(mode, &handler, listener, move |e| {
        if let Ev::Message(_, data) = e {
            if data.len() == 4 {
                obs2.lock().unwrap().push((u32::from_le_bytes([data[0], data[1], data[2], data[3]]), Instant::now()));
            }
        }
    });
    let traffic_end = timer.join().unwrap();
    let (sent, _) = {
        // the Tcp sender lingers; its count is final once the flag is set
        let deadline = Instant::now() + Duration::from_secs(3);
        loop {
            if sender.is_finished() || Instant::now() > deadline {
                break
            }
            if observed.lock().unwrap().len() > 0 && !udp {
                // wait for the reads to catch up, then go on
            }
            std::thread::sleep(Duration::from_millis(5));
        }
        sender.join().unwrap()
    };
    let deadline = Instant::now() + Duration::from_secs(3);
    while (observed.lock().unwrap().len() as u32) < sent && Instant::now() < deadline {
        std::thread::sleep(Duration::from_millis(5));
    }
    handler.stop();
    let returned = finish(running, Duration::from_secs(3));
    let obs = observed.lock().unwrap().clone();
    let numbers: Vec<u32> = obs.iter().map(|(n, _)| *n).collect();
    let order_ok = numbers == (0..sent).collect::<Vec<u32>>();
    let first = obs.first().map(|(_, t)| *t);
    let timely = first.map_or(false, |t| t < traffic_end);
    let case = format!("node earlybusy {} {}", mode.name(), if udp { "u" } else { "f" });
    let imp = format!("order={} takeover={}", if order_ok { "ok" } else { "broken" }, if timely { "during-traffic" } else { "only-after-traffic" });
    let oracle = if order_ok && timely && returned.is_some() {
        "ok".to_string()
    }
    else if !timely {
        format!(
            "FAIL nothing reached the callback while the peer kept sending: first delivery {:?} after the listener call, traffic went on for {:?} after it ({} messages sent, {} delivered in the end)",
            first.map(|t| t.duration_since(called)),
            traffic_end.duration_since(called),
            sent,
            obs.len()
        )
    }
    else {
        format!("FAIL delivered {:?}… of 0..{} (listener returned: {})", &numbers[..numbers.len().min(8)], sent, returned.is_some())
    };
    (case, imp, oracle, format!("early,busy,{},{}", mode.name(), if udp { "udp" } else { "framed" }))
}

// -------------------------------------------------------------------------------------------------
// C11 through the node layer: a raw Tcp stream whose first chunks arrive before the listener call

/// a raw peer sends buffers (sizes around the 65535-byte read buffer) with pauses; the node connects
/// with Transport::Tcp and starts its listener only after `late` of them were sent; the concatenation
/// of the Message chunks must be the sent stream, every chunk within 1..=65535, Connected first
fn run_tcp_late(mode: Mode, late: usize) -> (String, String, String, String) {
    let sizes: [usize; 7] = [1, 65534, 65535, 65536, 17, 4096, 70000];
    let peer = std::net::TcpListener::bind("127.0.0.1:0").unwrap();
    let paddr = peer.local_addr().unwrap();
    let (handler, listener) = node::split::<u64>();
    let (_ep, _) = handler.network().connect(Transport::Tcp, paddr).unwrap();
    let (mut stream, _) = peer.accept().unwrap();
    stream.set_nodelay(true).ok();
    let mut sent: Vec<u8> = vec![];
    let mut send_one = |k: usize, sent: &mut Vec<u8>| {
        let buf: Vec<u8> = (0..sizes[k]).map(|i| (i * 7 + k * 31 + i / 251) as u8).collect();
        let _ = stream.write_all(&buf);
        sent.extend_from_slice(&buf);
        std::thread::sleep(Duration::from_millis(15));
    };
    let late = late.min(sizes.len());
    for k in 0..late {
        send_one(k, &mut sent);
    }
    std::thread::sleep(Duration::from_millis(150));
    let observed: Arc<Mutex<Vec<Ev>>> = Arc::new(Mutex::new(vec![]));
    let obs2 = observed.clone();
    let running = start(mode, &handler, listener, move |e| {
        if !matches!(e, Ev::Signal(_)) {
            obs2.lock().unwrap().push(e);
        }
    });
    for i in 0..3 {
        handler.signals().send(i);
    }
    for k in late..sizes.len() {
        send_one(k, &mut sent);
    }
    let total = sent.len();
    let deadline = Instant::now() + Duration::from_secs(4);
    loop {
        let got: usize = observed.lock().unwrap().iter().map(|e| if let Ev::Message(_, d) = e { d.len() } else { 0 }).sum();
        if got >= total || Instant::now() > deadline {
            break
        }
        std::thread::sleep(Duration::from_millis(5));
    }
    std::thread::sleep(Duration::from_millis(40));
    handler.stop();
    let returned = finish(running, Duration::from_secs(3));
    let obs = observed.lock().unwrap().clone();
    let mut cat: Vec<u8> = vec![];
    let mut bounds = true;
    let mut chunks = 0;
    for e in &obs {
        if let Ev::Message(_, d) = e {
            bounds &= !d.is_empty() && d.len() <= 65535;
            cat.extend_from_slice(d);
            chunks += 1;
        }
    }
    let connected_first = matches!(obs.first(), Some(Ev::Connected(true)));
    let stream_ok = cat == sent;
    let first_diff = cat.iter().zip(sent.iter()).position(|(a, b)| a != b);
    let ok = stream_ok && bounds && connected_first && returned.is_some();
    (
        format!("node tcp {} {}", mode.name(), late),
        format!("stream={} chunks_in_bounds={} connected_first={}", if stream_ok { "ok" } else { "broken" }, bounds, connected_first),
        if ok { "ok".into() } else { format!("FAIL received {} of {} bytes in {} chunks, first difference at {:?}, bounds={} connected_first={} returned={:?}", cat.len(), total, chunks, first_diff, bounds, connected_first, returned) },
        format!("tcp-late,{},boundary{}", mode.name(), if late >= 3 { ",cached3,burst3" } else { "" }),
    )
}

fn main() {
    quiet_panics();
    let out = std::io::stdout();
    let mut out = std::io::BufWriter::new(out.lock());
    let modes = [Mode::Sync, Mode::Async, Mode::Enqueue];
    let parse_mode = |s: &str| match s {
        "sync" => Mode::Sync,
        "async" => Mode::Async,
        _ => Mode::Enqueue,
    };
    match arg(1).as_str() {
        "gen-serial" => {
            let n = arg_u64(2, 1);
            for _ in 0..n {
                for m in modes {
                    for d in [0u64, 5, 1000, 80_000] {
                        let (c, i, o, t) = run_serial(m, d);
                        emit(&mut out, &c, &i, &o, &t);
                    }
                    let (c, i, o, t) = run_serial_cached(m);
                    emit(&mut out, &c, &i, &o, &t);
                    let (c, i, o, t) = run_serial_many(m, 140_000);
                    emit(&mut out, &c, &i, &o, &t);
                    let (c, i, o, t) = run_serial_sparse(m);
                    emit(&mut out, &c, &i, &o, &t);
                }
            }
        }
        "gen-sparse" => {
            for m in modes {
                let (c, i, o, t) = run_serial_sparse(m);
                emit(&mut out, &c, &i, &o, &t);
            }
        }
        "gen-stop" => {
            let thorough = arg(2) == "thorough";
            for m in modes {
                let mut list: Vec<(&str, u64)> = vec![("before", 0), ("before", 1), ("before", 3), ("innet", 0), ("innet", 2), ("insig", 0), ("insig", 3), ("contended", 0), ("replay", 5), ("external", 1), ("storm", 0), ("contnet", 0)];
                if thorough {
                    list.extend([("innet", 1), ("innet", 5), ("insig", 1), ("insig", 7), ("replay", 3), ("replay", 9), ("external", 0), ("external", 3), ("external", 6), ("contended", 1), ("storm", 1), ("storm", 2), ("contnet", 1)]);
                }
                for (sc, p) in list {
                    let (c, i, o, t) = run_stop(m, sc, p);
                    emit(&mut out, &c, &i, &o, &t);
                }
            }
        }
        "gen-tcp" => {
            for m in modes {
                for late in [0usize, 3, 7] {
                    let (c, i, o, t) = run_tcp_late(m, late);
                    emit(&mut out, &c, &i, &o, &t);
                }
            }
        }
        "gen-early" => {
            let mut rng = Rng::new(arg_u64(2, 1) ^ 0xea71);
            let n = arg_u64(3, 4);
            for k in 0..n {
                for m in modes {
                    let cached = rng.range(0, 9) as usize;
                    let live = rng.range(0, 6) as usize;
                    let delay = *rng.pick(&[0u64, 10, 60, 300]);
                    let delay = if k == 0 { 0 } else { delay };
                    let (c, i, o, t) = run_early(m, cached, live, delay, &mut rng);
                    emit(&mut out, &c, &i, &o, &t);
                }
            }
            for m in modes {
                let (c, i, o, t) = run_early_burst(m, 3000);
                emit(&mut out, &c, &i, &o, &t);
            }
            for m in modes {
                let (c, i, o, t) = run_early_gone(m);
                emit(&mut out, &c, &i, &o, &t);
            }
            for m in modes {
                for udp in [true, false] {
                    let (c, i, o, t) = run_early_busy(m, udp);
                    emit(&mut out, &c, &i, &o, &t);
                }
            }
        }
        "run" => {
            let mut rng = Rng::new(7);
            for line in stdin_lines() {
                let ws: Vec<&str> = line.split(' ').collect();
                let row = match ws.as_slice() {
                    ["node", "serialmany", m, n] => run_serial_many(parse_mode(m), n.parse().unwrap_or(1000)),
                    ["node", "serialsparse", m] => run_serial_sparse(parse_mode(m)),
                    ["node", "serialc", m] => run_serial_cached(parse_mode(m)),
                    ["node", "serial", m, d] => run_serial(parse_mode(m), d.parse().unwrap_or(0)),
                    ["node", "stop", m, sc, p] => run_stop(parse_mode(m), sc, p.parse().unwrap_or(0)),
                    ["node", "tcp", m, late] => run_tcp_late(parse_mode(m), late.parse().unwrap_or(0)),
                    ["node", "earlygone", m] => run_early_gone(parse_mode(m)),
                    ["node", "earlyburst", m, n] => run_early_burst(parse_mode(m), n.parse().unwrap_or(10)),
                    ["node", "earlybusy", m, k] => run_early_busy(parse_mode(m), *k == "u"),
                    ["node", "early", m, c, l] => run_early(parse_mode(m), c.parse().unwrap_or(0), l.parse().unwrap_or(0), 20, &mut rng),
                    _ => (line.clone(), "bad-case".into(), "ok".into(), String::new()),
                };
                emit(&mut out, &row.0, &row.1, &row.2, &row.3);
            }
        }
        _ => eprintln!("usage: node gen-serial <n> | gen-stop [thorough] | gen-early <seed> <n> | run"),
    }
}
