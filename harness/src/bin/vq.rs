//! C06 / C07 / C08 / C16 tie for M3: `message_io::events::{EventReceiver, EventSender}`.
//!
//! Sequential histories (`vq seq …`, C07): one thread issues every call on a *logical* time grid.
//! A tick is 4 quarters; sender-side calls run at phase 1 of a tick, receiver-side calls at
//! phase 3, durations and timeouts are whole ticks, so a deadline (phase 1) never coincides with
//! the instant a receive reads the clock (phase 3): the expected result is unique and the trace
//! carries logical times only.  Tokens:
//!   s<id>@t  p<id>@t  t<id>:<dur>@t  c<n>@t  T@t=<r>  R<d>@t=<r>/<tret>  B@t=<r>/<tret>
//! (`r` = event id or `-`; `tret` = quarter in which the blocking call returned).
use mio_harness::*;
use message_io::events::{EventReceiver, TimerId};
use std::collections::VecDeque;
use std::time::{Duration, Instant};

const QUARTER_US: u64 = 1000;

#[derive(Clone, Debug, PartialEq)]
enum Op {
    Send(u64),
    Prio(u64),
    Timer(u64, u64),
    Cancel(usize),
    Try,
    RecvTimeout(u64),
    Recv,
    Gap(u64),
}

/// reference queue = the property statement, executable (direct oracle; independent of the model)
#[derive(Default)]
struct RefQ {
    prio: VecDeque<u64>,
    plain: VecDeque<u64>,
    timers: Vec<(u64, u64, u64)>, // deadline, seq, id
    seq: u64,
}
impl RefQ {
    fn pick(&mut self, now: u64) -> Option<u64> {
        if let Some(p) = self.prio.pop_front() {
            return Some(p)
        }
        let best = self.timers.iter().filter(|t| t.0 <= now).min_by_key(|t| (t.0, t.1)).copied();
        if let Some(b) = best {
            self.timers.retain(|t| *t != b);
            return Some(b.2)
        }
        self.plain.pop_front()
    }
    /// (result, time of return) of a blocking receive with optional timeout
    fn pick_blocking(&mut self, now: u64, d: Option<u64>) -> Option<(Option<u64>, u64)> {
        if let Some(e) = self.pick(now) {
            return Some((Some(e), now))
        }
        let next = self.timers.iter().min_by_key(|t| (t.0, t.1)).copied();
        match (next, d) {
            (Some(n), Some(d)) if n.0 <= now + d => {
                self.timers.retain(|t| *t != n);
                Some((Some(n.2), n.0))
            }
            (Some(n), None) => {
                self.timers.retain(|t| *t != n);
                Some((Some(n.2), n.0))
            }
            (_, Some(d)) => Some((None, now + d)),
            (None, None) => None,
        }
    }
    /// something becomes deliverable within 100 quarters (so a blocking receive() returns soon)
    fn has_near_future(&self, now: u64) -> bool {
        !self.prio.is_empty() || !self.plain.is_empty() || self.timers.iter().any(|t| t.0 <= now + 100)
    }
}

struct SeqRun {
    start: Instant,
    cur: u64,
    late: bool,
}
impl SeqRun {
    fn quarter_now(&self) -> u64 {
        self.start.elapsed().as_micros() as u64 / QUARTER_US
    }
    /// wait for the next slot with the given phase (t % 4 == phase, t >= cur); returns t
    fn slot(&mut self, phase: u64) -> u64 {
        let mut t = self.cur.max(self.quarter_now());
        while t % 4 != phase {
            t += 1;
        }
        // never start inside the last 40% of the slot's quarter
        loop {
            let target = self.start + Duration::from_micros(t * QUARTER_US + 30);
            let now = Instant::now();
            if now < target {
                std::thread::sleep(target - now);
            }
            let el = self.start.elapsed().as_micros() as u64;
            if el < t * QUARTER_US + 600 {
                break
            }
            t += 4;
        }
        self.cur = t;
        t
    }
    fn check_not_late(&mut self, t: u64) {
        let el = self.start.elapsed().as_micros() as u64;
        if el >= (t + 1) * QUARTER_US - 50 {
            self.late = true;
        }
    }
}

fn show(r: Option<u64>) -> String {
    r.map(|x| x.to_string()).unwrap_or("-".into())
}

/// run a script on a real queue; returns (trace, oracle verdict, tags)
fn run_seq(script: &[Op]) -> (String, String, String) {
    let mut q = EventReceiver::<u64>::default();
    let sender = q.sender().clone();
    let mut ids: Vec<TimerId> = vec![];
    let mut rq = RefQ::default();
    let mut ref_keys: Vec<(u64, u64, u64)> = vec![];
    let mut run = SeqRun { start: Instant::now(), cur: 0, late: false };
    let mut toks: Vec<String> = vec![];
    let mut fail = None::<String>;
    let mut tags = std::collections::BTreeSet::new();
    let mut last_timer_slot: Option<(u64, u64)> = None;
    for op in script {
        match op {
            Op::Gap(k) => {
                run.cur += 4 * k;
            }
            Op::Send(id) => {
                let t = run.slot(1);
                sender.send(*id);
                run.check_not_late(t);
                rq.plain.push_back(*id);
                toks.push(format!("s{}@{}", id, t));
            }
            Op::Prio(id) => {
                let t = run.slot(1);
                sender.send_with_priority(*id);
                run.check_not_late(t);
                rq.prio.push_back(*id);
                toks.push(format!("p{}@{}", id, t));
            }
            Op::Timer(id, dur) => {
                let t = run.slot(1);
                // Two timers scheduled in different slots with the same *logical* deadline have
                // real deadlines a few microseconds apart in an order the grid does not fix:
                // such a call is not issued (ties from one slot keep their call order).
                if ref_keys.iter().any(|k| k.0 == t + dur) && last_timer_slot != Some((t, *dur)) {
                    continue
                }
                last_timer_slot = Some((t, *dur));
                ids.push(sender.send_with_timer(*id, Duration::from_micros(dur * QUARTER_US)));
                run.check_not_late(t);
                let key = (t + dur, rq.seq, *id);
                rq.seq += 1;
                rq.timers.push(key);
                ref_keys.push(key);
                toks.push(format!("t{}:{}@{}", id, dur, t));
            }
            Op::Cancel(n) => {
                if *n >= ids.len() {
                    continue
                }
                let t = run.slot(1);
                sender.cancel_timer(ids[*n]);
                run.check_not_late(t);
                let key = ref_keys[*n];
                rq.timers.retain(|x| *x != key);
                toks.push(format!("c{}@{}", n, t));
            }
            Op::Try => {
                let t = run.slot(3);
                let r = q.try_receive();
                run.check_not_late(t);
                if !rq.timers.is_empty() && (!rq.plain.is_empty() || !rq.prio.is_empty()) {
                    tags.insert("timer+queued");
                }
                let e = rq.pick(t);
                if e != r && fail.is_none() {
                    fail = Some(format!("T@{} got {} expected {}", t, show(r), show(e)));
                }
                toks.push(format!("T@{}={}", t, show(r)));
            }
            Op::RecvTimeout(d) => {
                let t = run.slot(3);
                let r = q.receive_timeout(Duration::from_micros(d * QUARTER_US));
                let tret = run.quarter_now();
                if !rq.timers.is_empty() && (!rq.plain.is_empty() || !rq.prio.is_empty()) {
                    tags.insert("timer+queued");
                }
                let (e, et) = rq.pick_blocking(t, Some(*d)).unwrap();
                if e != r && fail.is_none() {
                    fail = Some(format!("R{}@{} got {} expected {}", d, t, show(r), show(e)));
                }
                else if tret < et && fail.is_none() {
                    fail = Some(format!("R{}@{} returned at {} before {}", d, t, tret, et));
                }
                else if tret > et + 1 {
                    run.late = true;
                }
                if et > t {
                    tags.insert("waited");
                }
                run.cur = run.cur.max(tret);
                toks.push(format!("R{}@{}={}/{}", d, t, show(r), tret));
            }
            Op::Recv => {
                if !rq.has_near_future(run.cur.max(run.quarter_now())) {
                    continue
                }
                let t = run.slot(3);
                let r = q.receive();
                let tret = run.quarter_now();
                if !rq.timers.is_empty() && (!rq.plain.is_empty() || !rq.prio.is_empty()) {
                    tags.insert("timer+queued");
                }
                let (e, et) = rq.pick_blocking(t, None).unwrap();
                if e != Some(r) && fail.is_none() {
                    fail = Some(format!("B@{} got {} expected {}", t, r, show(e)));
                }
                else if tret < et && fail.is_none() {
                    fail = Some(format!("B@{} returned at {} before {}", t, tret, et));
                }
                else if tret > et + 1 {
                    run.late = true;
                }
                if et > t {
                    tags.insert("waited");
                }
                run.cur = run.cur.max(tret);
                toks.push(format!("B@{}={}/{}", t, r, tret));
            }
        }
    }
    let trace = format!("vq seq {}", toks.join(" "));
    if run.late {
        tags.insert("late");
    }
    let verdict = match (&fail, run.late) {
        (Some(f), false) => format!("FAIL {}", f),
        (_, true) => "inconclusive".into(),
        (None, false) => "ok".into(),
    };
    (trace, verdict, tags.into_iter().collect::<Vec<_>>().join(","))
}

/// a script from a recorded trace (times and observations stripped)
fn script_of_trace(line: &str) -> Option<Vec<Op>> {
    let mut ops = vec![];
    let mut last_t = 0u64;
    for tok in line.split(' ').skip(2) {
        let lhs = tok.split('=').next()?;
        let (op, t) = lhs.split_once('@')?;
        let t: u64 = t.parse().ok()?;
        // keep the relative spacing of the recording
        if t >= last_t + 8 {
            ops.push(Op::Gap((t - last_t) / 4 - 1));
        }
        last_t = t;
        let (kind, arg) = op.split_at(1);
        ops.push(match kind {
            "s" => Op::Send(arg.parse().ok()?),
            "p" => Op::Prio(arg.parse().ok()?),
            "t" => {
                let (id, dur) = arg.split_once(':')?;
                Op::Timer(id.parse().ok()?, dur.parse().ok()?)
            }
            "c" => Op::Cancel(arg.parse().ok()?),
            "T" => Op::Try,
            "R" => Op::RecvTimeout(arg.parse().ok()?),
            "B" => Op::Recv,
            _ => return None,
        });
    }
    Some(ops)
}

fn gen_script(rng: &mut Rng) -> Vec<Op> {
    let n = rng.range(3, 12);
    let mut ops = vec![];
    let mut next_id = 1;
    let mut timers = 0;
    for _ in 0..n {
        let op = match rng.below(20) {
            0..=3 => {
                next_id += 1;
                Op::Send(next_id)
            }
            4..=5 => {
                next_id += 1;
                Op::Prio(next_id)
            }
            6..=9 => {
                next_id += 1;
                timers += 1;
                Op::Timer(next_id, *rng.pick(&[0u64, 4, 4, 8, 12, 4_000_000]))
            }
            10 => {
                if timers > 0 {
                    Op::Cancel(rng.below(timers) as usize)
                }
                else {
                    Op::Try
                }
            }
            11..=14 => Op::Try,
            15..=16 => Op::RecvTimeout(*rng.pick(&[0u64, 4, 8])),
            17 => Op::Recv,
            _ => Op::Gap(rng.range(1, 3)),
        };
        ops.push(op);
    }
    ops
}

fn run_parallel(scripts: Vec<Vec<Op>>, threads: usize) -> Vec<(String, String, String)> {
    let n = scripts.len();
    let scripts = std::sync::Arc::new(scripts);
    let next = std::sync::Arc::new(std::sync::atomic::AtomicUsize::new(0));
    let results = std::sync::Arc::new(std::sync::Mutex::new(vec![None; n]));
    let mut hs = vec![];
    for _ in 0..threads {
        let (scripts, next, results) = (scripts.clone(), next.clone(), results.clone());
        hs.push(std::thread::spawn(move || loop {
            let i = next.fetch_add(1, std::sync::atomic::Ordering::SeqCst);
            if i >= scripts.len() {
                break
            }
            let mut r = run_seq(&scripts[i]);
            // an inconclusive (late) run is repeated, never reported
            let mut tries = 0;
            while r.1 == "inconclusive" && tries < 3 {
                r = run_seq(&scripts[i]);
                tries += 1;
            }
            results.lock().unwrap()[i] = Some(r);
        }));
    }
    for h in hs {
        h.join().unwrap();
    }
    let r = results.lock().unwrap().clone();
    r.into_iter().map(|x| x.unwrap()).collect()
}

fn emit_all(out: &mut impl std::io::Write, rows: Vec<(String, String, String)>) {
    for (trace, verdict, tags) in rows {
        if verdict == "inconclusive" {
            emit(out, &format!("#inconclusive {}", trace), "ok", "ok", "inconclusive");
        }
        else {
            emit(out, &trace, "ok", &verdict, &tags);
        }
    }
}

fn main() {
    quiet_panics();
    let out = std::io::stdout();
    let mut out = std::io::BufWriter::new(out.lock());
    let threads = 12;
    match arg(1).as_str() {
        "gen-seq" => {
            let mut rng = Rng::new(arg_u64(2, 1));
            let n = arg_u64(3, 500);
            // corpus first: the as-found F2 history and relatives
            let mut scripts: Vec<Vec<Op>> = vec![
                vec![Op::Timer(7, 4_000_000), Op::Send(42), Op::Try, Op::RecvTimeout(0)],
                vec![Op::Timer(7, 8), Op::Send(42), Op::Try, Op::Try, Op::Gap(2), Op::Try],
                vec![Op::Timer(1, 4), Op::Timer(2, 4), Op::Cancel(0), Op::Gap(1), Op::Try, Op::Try],
                vec![Op::Timer(1, 8), Op::Timer(2, 4), Op::Prio(3), Op::Send(4), Op::Recv, Op::Recv, Op::Recv, Op::Recv],
            ];
            for _ in 0..n {
                scripts.push(gen_script(&mut rng));
            }
            emit_all(&mut out, run_parallel(scripts, threads));
        }
        "gen-seq-exh" => {
            let len = arg_u64(2, 4) as usize;
            let alphabet = [Op::Timer(0, 4), Op::Timer(0, 4_000_000), Op::Send(0), Op::Prio(0), Op::Try, Op::RecvTimeout(4)];
            let mut scripts: Vec<Vec<Op>> = vec![vec![]];
            let mut frontier = scripts.clone();
            for _ in 0..len {
                let mut next = vec![];
                for s in &frontier {
                    for a in &alphabet {
                        let mut s2 = s.clone();
                        s2.push(a.clone());
                        next.push(s2);
                    }
                }
                scripts.extend(next.clone());
                frontier = next;
            }
            // distinct ids
            for s in scripts.iter_mut() {
                for (i, op) in s.iter_mut().enumerate() {
                    match op {
                        Op::Timer(id, _) | Op::Send(id) | Op::Prio(id) => *id = i as u64 + 1,
                        _ => {}
                    }
                }
            }
            scripts.retain(|s| s.iter().any(|o| matches!(o, Op::Try | Op::RecvTimeout(_))));
            emit_all(&mut out, run_parallel(scripts, threads));
        }
        "run" => {
            for line in stdin_lines() {
                if line.starts_with("vq seq") {
                    match script_of_trace(&line) {
                        Some(script) => emit_all(&mut out, run_parallel(vec![script], 1)),
                        None => emit(&mut out, &line, "bad-case", "ok", ""),
                    }
                }
                else {
                    emit(&mut out, &line, "bad-case", "ok", "");
                }
            }
        }
        _ => eprintln!("usage: vq gen-seq <seed> <n> | gen-seq-exh <len> | run"),
    }
}
