//! C06 / C07 / C08 / C16 tie for M3: `message_io::events::{EventReceiver, EventSender}`.
//!
//! Sequential histories (`vq seq …`, C07): one thread issues every call on a *logical* time grid.
//! A tick is 4 quarters; sender-side calls run at phase 1 of a tick, receiver-side calls at
//! phase 3, durations and timeouts are whole ticks, so a deadline (phase 1) never coincides with
//! the instant a receive reads the clock (phase 3): the expected result is unique and the trace
//! carries logical times only.  Tokens:
//!   s<id>@t  p<id>@t  t<id>:<dur>@t  c<n>@t  T@t=<r>  R<d>@t=<r>/<tret>  B@t=<r>/<tret>
//! (`r` = event id or `-`; `tret` = quarter in which the blocking call returned).
use mio_harness::*;
use message_io::events::{EventReceiver, TimerId};
use std::collections::VecDeque;
use std::time::{Duration, Instant};

const QUARTER_US: u64 = 1000;

#[derive(Clone, Debug, PartialEq)]
enum Op {
    Send(u64),
    Prio(u64),
    Timer(u64, u64),
    Cancel(usize),
    Try,
    RecvTimeout(u64),
    Recv,
    Gap(u64),
}

/// a blocking call of a sequential script is expected to return within a few milliseconds; if it does not
/// (a missed wake-up), this watchdog sends a sentinel after 3 s so that the script fails instead of hanging
const WATCHDOG_SENTINEL: u64 = 9_999_999;
fn watchdog(sender: &message_io::events::EventSender<u64>) -> std::sync::Arc<std::sync::atomic::AtomicBool> {
    let done = std::sync::Arc::new(std::sync::atomic::AtomicBool::new(false));
    let (d2, tx) = (done.clone(), sender.clone());
    std::thread::spawn(move || {
        for _ in 0..300 {
            std::thread::sleep(Duration::from_millis(10));
            if d2.load(std::sync::atomic::Ordering::SeqCst) {
                return
            }
        }
        tx.send(WATCHDOG_SENTINEL);
    });
    done
}

/// reference queue = the property statement, executable (direct oracle; independent of the model)
#[derive(Default)]
struct RefQ {
    prio: VecDeque<u64>,
    plain: VecDeque<u64>,
    timers: Vec<(u64, u64, u64)>, // deadline, seq, id
    seq: u64,
}
impl RefQ {
    fn pick(&mut self, now: u64) -> Option<u64> {
        if let Some(p) = self.prio.pop_front() {
            return Some(p)
        }
        let best = self.timers.iter().filter(|t| t.0 <= now).min_by_key(|t| (t.0, t.1)).copied();
        if let Some(b) = best {
            self.timers.retain(|t| *t != b);
            return Some(b.2)
        }
        self.plain.pop_front()
    }
    /// (result, time of return) of a blocking receive with optional timeout
    fn pick_blocking(&mut self, now: u64, d: Option<u64>) -> Option<(Option<u64>, u64)> {
        if let Some(e) = self.pick(now) {
            return Some((Some(e), now))
        }
        let next = self.timers.iter().min_by_key(|t| (t.0, t.1)).copied();
        match (next, d) {
            (Some(n), Some(d)) if n.0 <= now + d => {
                self.timers.retain(|t| *t != n);
                Some((Some(n.2), n.0))
            }
            (Some(n), None) => {
                self.timers.retain(|t| *t != n);
                Some((Some(n.2), n.0))
            }
            (_, Some(d)) => Some((None, now + d)),
            (None, None) => None,
        }
    }
    /// something becomes deliverable within 100 quarters (so a blocking receive() returns soon)
    fn has_near_future(&self, now: u64) -> bool {
        !self.prio.is_empty() || !self.plain.is_empty() || self.timers.iter().any(|t| t.0 <= now + 100)
    }
}

struct SeqRun {
    start: Instant,
    cur: u64,
    late: bool,
}
impl SeqRun {
    fn quarter_now(&self) -> u64 {
        self.start.elapsed().as_micros() as u64 / QUARTER_US
    }
    /// wait for the next slot with the given phase (t % 4 == phase, t >= cur); returns t
    fn slot(&mut self, phase: u64) -> u64 {
        let mut t = self.cur.max(self.quarter_now());
        while t % 4 != phase {
            t += 1;
        }
        // never start inside the last 40% of the slot's quarter
        loop {
            let target = self.start + Duration::from_micros(t * QUARTER_US + 30);
            let now = Instant::now();
            if now < target {
                std::thread::sleep(target - now);
            }
            let el = self.start.elapsed().as_micros() as u64;
            if el < t * QUARTER_US + 600 {
                break
            }
            t += 4;
        }
        self.cur = t;
        t
    }
    fn check_not_late(&mut self, t: u64) {
        let el = self.start.elapsed().as_micros() as u64;
        if el >= (t + 1) * QUARTER_US - 50 {
            self.late = true;
        }
    }
}

fn show(r: Option<u64>) -> String {
    r.map(|x| x.to_string()).unwrap_or("-".into())
}

/// run a script on a real queue; returns (trace, oracle verdict, tags)
fn run_seq(script: &[Op]) -> (String, String, String) {
    let mut q = EventReceiver::<u64>::default();
    let sender = q.sender().clone();
    let mut ids: Vec<TimerId> = vec![];
    let mut rq = RefQ::default();
    let mut ref_keys: Vec<(u64, u64, u64)> = vec![];
    let mut run = SeqRun { start: Instant::now(), cur: 0, late: false };
    let mut toks: Vec<String> = vec![];
    let mut fail = None::<String>;
    let mut tags = std::collections::BTreeSet::new();
    let mut last_timer_slot: Option<(u64, u64)> = None;
    let mut late_return = None::<String>;
    for op in script {
        match op {
            Op::Gap(k) => {
                run.cur += 4 * k;
            }
            Op::Send(id) => {
                let t = run.slot(1);
                sender.send(*id);
                run.check_not_late(t);
                rq.plain.push_back(*id);
                toks.push(format!("s{}@{}", id, t));
            }
            Op::Prio(id) => {
                let t = run.slot(1);
                sender.send_with_priority(*id);
                run.check_not_late(t);
                rq.prio.push_back(*id);
                toks.push(format!("p{}@{}", id, t));
            }
            Op::Timer(id, dur) => {
                let t = run.slot(1);
                // Two timers scheduled in different slots with the same *logical* deadline have
                // real deadlines a few microseconds apart in an order the grid does not fix:
                // such a call is not issued (ties from one slot keep their call order).
                if ref_keys.iter().any(|k| k.0 == t + dur) && last_timer_slot != Some((t, *dur)) {
                    continue
                }
                last_timer_slot = Some((t, *dur));
                ids.push(sender.send_with_timer(*id, Duration::from_micros(dur * QUARTER_US)));
                run.check_not_late(t);
                let key = (t + dur, rq.seq, *id);
                rq.seq += 1;
                rq.timers.push(key);
                ref_keys.push(key);
                toks.push(format!("t{}:{}@{}", id, dur, t));
            }
            Op::Cancel(n) => {
                if *n >= ids.len() {
                    continue
                }
                let t = run.slot(1);
                sender.cancel_timer(ids[*n]);
                run.check_not_late(t);
                let key = ref_keys[*n];
                rq.timers.retain(|x| *x != key);
                toks.push(format!("c{}@{}", n, t));
            }
            Op::Try => {
                let t = run.slot(3);
                let r = q.try_receive();
                run.check_not_late(t);
                if !rq.timers.is_empty() && (!rq.plain.is_empty() || !rq.prio.is_empty()) {
                    tags.insert("timer+queued");
                }
                let e = rq.pick(t);
                if e != r && fail.is_none() {
                    fail = Some(format!("T@{} got {} expected {}", t, show(r), show(e)));
                }
                toks.push(format!("T@{}={}", t, show(r)));
            }
            Op::RecvTimeout(d) => {
                // u64::MAX = Duration::MAX ("wait as long as needed"): only when something will become deliverable
                let forever = *d == u64::MAX;
                if forever && !rq.has_near_future(run.cur.max(run.quarter_now())) {
                    continue
                }
                let t = run.slot(3);
                let wd = if forever { Some(watchdog(&sender)) } else { None };
                let r = q.receive_timeout(if forever { Duration::MAX } else { Duration::from_micros(d * QUARTER_US) });
                if let Some(wd) = wd {
                    wd.store(true, std::sync::atomic::Ordering::SeqCst);
                }
                if r == Some(WATCHDOG_SENTINEL) {
                    fail.get_or_insert(format!("R{}@{} was still blocked 3 s later", d, t));
                    toks.push(format!("R{}@{}=hung", d, t));
                    break
                }
                let tret = run.quarter_now();
                if !rq.timers.is_empty() && (!rq.plain.is_empty() || !rq.prio.is_empty()) {
                    tags.insert("timer+queued");
                }
                let (e, et) = rq.pick_blocking(t, if forever { None } else { Some(*d) }).unwrap();
                if e != r && fail.is_none() {
                    fail = Some(format!("R{}@{} got {} expected {}", d, t, show(r), show(e)));
                }
                else if tret < et && fail.is_none() {
                    fail = Some(format!("R{}@{} returned at {} before {}", d, t, tret, et));
                }
                if tret > et + 1 {
                    late_return.get_or_insert(format!("{:?} started at {} returned at {} instead of {}", op, t, tret, et));
                }
                if et > t {
                    tags.insert("waited");
                }
                run.cur = run.cur.max(tret);
                toks.push(format!("R{}@{}={}/{}", d, t, show(r), tret));
            }
            Op::Recv => {
                if !rq.has_near_future(run.cur.max(run.quarter_now())) {
                    continue
                }
                let t = run.slot(3);
                let wd = watchdog(&sender);
                let r = q.receive();
                wd.store(true, std::sync::atomic::Ordering::SeqCst);
                if r == WATCHDOG_SENTINEL {
                    fail.get_or_insert(format!("B@{} was still blocked 3 s later", t));
                    toks.push(format!("B@{}=hung", t));
                    break
                }
                let tret = run.quarter_now();
                if !rq.timers.is_empty() && (!rq.plain.is_empty() || !rq.prio.is_empty()) {
                    tags.insert("timer+queued");
                }
                let (e, et) = rq.pick_blocking(t, None).unwrap();
                if e != Some(r) && fail.is_none() {
                    fail = Some(format!("B@{} got {} expected {}", t, r, show(e)));
                }
                else if tret < et && fail.is_none() {
                    fail = Some(format!("B@{} returned at {} before {}", t, tret, et));
                }
                if tret > et + 1 {
                    late_return.get_or_insert(format!("{:?} started at {} returned at {} instead of {}", op, t, tret, et));
                }
                if et > t {
                    tags.insert("waited");
                }
                run.cur = run.cur.max(tret);
                toks.push(format!("B@{}={}/{}", t, r, tret));
            }
        }
    }
    let trace = format!("vq seq {}", toks.join(" "));
    if run.late {
        tags.insert("late");
    }
    let verdict = match (&fail, run.late, &late_return) {
        (_, true, _) => "inconclusive".into(),
        (_, false, Some(l)) => format!("LATE {}", l),
        (Some(f), false, None) => format!("FAIL {}", f),
        (None, false, None) => "ok".into(),
    };
    (trace, verdict, tags.into_iter().collect::<Vec<_>>().join(","))
}

/// a script from a recorded trace (times and observations stripped)
fn script_of_trace(line: &str) -> Option<Vec<Op>> {
    let mut ops = vec![];
    let mut last_t = 0u64;
    for tok in line.split(' ').skip(2) {
        let lhs = tok.split('=').next()?;
        let (op, t) = lhs.split_once('@')?;
        let t: u64 = t.parse().ok()?;
        // keep the relative spacing of the recording
        if t >= last_t + 8 {
            ops.push(Op::Gap((t - last_t) / 4 - 1));
        }
        last_t = t;
        let (kind, arg) = op.split_at(1);
        ops.push(match kind {
            "s" => Op::Send(arg.parse().ok()?),
            "p" => Op::Prio(arg.parse().ok()?),
            "t" => {
                let (id, dur) = arg.split_once(':')?;
                Op::Timer(id.parse().ok()?, dur.parse().ok()?)
            }
            "c" => Op::Cancel(arg.parse().ok()?),
            "T" => Op::Try,
            "R" => Op::RecvTimeout(arg.parse().ok()?),
            "B" => Op::Recv,
            _ => return None,
        });
    }
    Some(ops)
}

fn gen_script(rng: &mut Rng) -> Vec<Op> {
    let n = rng.range(3, 12);
    let mut ops = vec![];
    let mut next_id = 1;
    let mut timers = 0;
    for _ in 0..n {
        let op = match rng.below(20) {
            0..=3 => {
                next_id += 1;
                Op::Send(next_id)
            }
            4..=5 => {
                next_id += 1;
                Op::Prio(next_id)
            }
            6..=9 => {
                next_id += 1;
                timers += 1;
                Op::Timer(next_id, *rng.pick(&[0u64, 4, 4, 8, 12, 4_000_000]))
            }
            10 => {
                if timers > 0 {
                    Op::Cancel(rng.below(timers) as usize)
                }
                else {
                    Op::Try
                }
            }
            11..=14 => Op::Try,
            15..=16 => Op::RecvTimeout(*rng.pick(&[0u64, 4, 8, u64::MAX])),
            17 => Op::Recv,
            _ => Op::Gap(rng.range(1, 3)),
        };
        ops.push(op);
    }
    ops
}

fn run_parallel(scripts: Vec<Vec<Op>>, threads: usize) -> Vec<(String, String, String)> {
    let n = scripts.len();
    let scripts = std::sync::Arc::new(scripts);
    let next = std::sync::Arc::new(std::sync::atomic::AtomicUsize::new(0));
    let results = std::sync::Arc::new(std::sync::Mutex::new(vec![None; n]));
    let mut hs = vec![];
    for _ in 0..threads {
        let (scripts, next, results) = (scripts.clone(), next.clone(), results.clone());
        hs.push(std::thread::spawn(move || loop {
            let i = next.fetch_add(1, std::sync::atomic::Ordering::SeqCst);
            if i >= scripts.len() {
                break
            }
            let mut r = run_seq(&scripts[i]);
            // an inconclusive (late) run is repeated, never reported
            let mut tries = 0;
            while (r.1 == "inconclusive" || r.1.starts_with("LATE")) && tries < 5 {
                r = run_seq(&scripts[i]);
                tries += 1;
            }
            if r.1.starts_with("LATE") {
                r.1 = format!("FAIL persistently {}", &r.1[5..]);
            }
            results.lock().unwrap()[i] = Some(r);
        }));
    }
    for h in hs {
        h.join().unwrap();
    }
    let r = results.lock().unwrap().clone();
    r.into_iter().map(|x| x.unwrap()).collect()
}


// =================================================================================================
// two-thread histories on a finer grid (C08 / C16): unit = 500 us, tick = 8 units;
// sender calls at phase 1, timer deadlines at phase 3 (durations = 8k+2), receiver calls at phase 5,
// receive timeouts at phase 7 (timeouts = 8k+2): the four classes of instants never coincide.

const UNIT_US: u64 = 500;

#[derive(Clone, Debug)]
enum SOp {
    Send(u64),
    Prio(u64),
    Timer(u64, u64),
    Cancel(usize),
}
#[derive(Clone, Debug)]
enum ROp {
    Try,
    RecvTimeout(u64),
    Recv,
}

struct Grid {
    start: Instant,
}
impl Grid {
    fn unit_now(&self) -> u64 {
        self.start.elapsed().as_micros() as u64 / UNIT_US
    }
    /// sleep until phase `phase` of a tick >= min_tick whose slot has not started yet; returns the unit
    fn slot(&self, min_tick: u64, phase: u64) -> (u64, bool) {
        let mut t = min_tick * 8 + phase;
        let mut missed = false;
        loop {
            let target = self.start + Duration::from_micros(t * UNIT_US + 30);
            let now = Instant::now();
            if now < target {
                std::thread::sleep(target - now);
            }
            let el = self.start.elapsed().as_micros() as u64;
            if el < t * UNIT_US + 300 {
                // a sender whose planned slot was missed changes the schedule: inconclusive
                return (t, missed && phase == 1)
            }
            if el < (t + 1) * UNIT_US {
                return (t, true) // started, but late inside the slot: inconclusive
            }
            t += 8;
            missed = true;
        }
    }
}

/// reference for two-thread histories: expected (result, return unit) of every receive call
fn ref_conc(tokens: &[(u64, String)]) -> Vec<(Option<u64>, u64)> {
    // parse sender tokens
    #[derive(Clone)]
    enum Ev {
        Plain(u64),
        Prio(u64),
        Timer(u64, u64),
        Cancel(usize),
        Call(char, u64),
    }
    let mut evs: Vec<(u64, Ev)> = vec![];
    for (t, tok) in tokens {
        let lhs = tok.split('=').next().unwrap();
        let op = lhs.split('@').next().unwrap();
        let (k, arg) = op.split_at(1);
        let ev = match k {
            "s" => Ev::Plain(arg.parse().unwrap()),
            "p" => Ev::Prio(arg.parse().unwrap()),
            "t" => {
                let (id, d) = arg.split_once(':').unwrap();
                Ev::Timer(id.parse().unwrap(), d.parse().unwrap())
            }
            "c" => Ev::Cancel(arg.parse().unwrap()),
            "T" => Ev::Call('T', 0),
            "R" => Ev::Call('R', arg.parse().unwrap()),
            _ => Ev::Call('B', 0),
        };
        evs.push((*t, ev));
    }
    let mut rq = RefQ::default();
    let mut keys: Vec<(u64, u64, u64)> = vec![];
    let mut out = vec![];
    let mut i = 0;
    let apply = |rq: &mut RefQ, keys: &mut Vec<(u64, u64, u64)>, t: u64, ev: &Ev| match ev {
        Ev::Plain(id) => rq.plain.push_back(*id),
        Ev::Prio(id) => rq.prio.push_back(*id),
        Ev::Timer(id, d) => {
            let k = (t + d, rq.seq, *id);
            rq.seq += 1;
            rq.timers.push(k);
            keys.push(k);
        }
        Ev::Cancel(n) => {
            let k = keys[*n];
            rq.timers.retain(|x| *x != k);
        }
        Ev::Call(..) => {}
    };
    while i < evs.len() {
        let (t, ev) = evs[i].clone();
        i += 1;
        match ev {
            Ev::Call(kind, d) => {
                let deadline = if kind == 'R' { Some(t.saturating_add(d)) } else { None };
                let mut now = t;
                loop {
                    if let Some(e) = rq.pick(now) {
                        out.push((Some(e), now));
                        break
                    }
                    if kind == 'T' {
                        out.push((None, now));
                        break
                    }
                    // next instant at which something changes: a sender op, a timer deadline, the timeout
                    let next_ev = evs.get(i).map(|e| e.0);
                    let next_timer = rq.timers.iter().map(|x| x.0).min();
                    let mut cands: Vec<u64> = vec![];
                    cands.extend(next_ev);
                    cands.extend(next_timer);
                    cands.extend(deadline);
                    let Some(&nx) = cands.iter().min() else {
                        out.push((None, u64::MAX));
                        break
                    };
                    if Some(nx) == deadline && next_ev.map_or(true, |e| e > nx) && next_timer.map_or(true, |e| e > nx) {
                        out.push((None, nx));
                        break
                    }
                    if i < evs.len() && evs[i].0 <= nx && matches!(evs[i].1, Ev::Call(..)) {
                        // the implementation started its next call although, by the reference,
                        // this one is still blocked: expected "still blocked"
                        out.push((None, u64::MAX));
                        break
                    }
                    now = nx;
                    while i < evs.len() && evs[i].0 <= now {
                        if matches!(evs[i].1, Ev::Call(..)) {
                            break
                        }
                        let (te, e) = evs[i].clone();
                        apply(&mut rq, &mut keys, te, &e);
                        i += 1;
                    }
                }
            }
            other => apply(&mut rq, &mut keys, t, &other),
        }
    }
    out
}

fn run_conc(sender: &[(u64, SOp)], receiver: &[(u64, ROp)]) -> (String, String, String) {
    let mut q = EventReceiver::<u64>::default();
    let tx = q.sender().clone();
    let grid = std::sync::Arc::new(Grid { start: Instant::now() + Duration::from_millis(2) });
    std::thread::sleep(Duration::from_millis(2));
    let n_calls = receiver.len() as u64;
    let last_tick = sender.iter().map(|x| x.0).chain(receiver.iter().map(|x| x.0)).max().unwrap_or(0);
    let g2 = grid.clone();
    let sender_ops: Vec<(u64, SOp)> = sender.to_vec();
    let st = std::thread::spawn(move || {
        let mut log: Vec<(u64, String)> = vec![];
        let mut ids: Vec<TimerId> = vec![];
        let mut late = false;
        for (tick, op) in sender_ops {
            let (t, l) = g2.slot(tick, 1);
            late |= l;
            match op {
                SOp::Send(id) => {
                    tx.send(id);
                    log.push((t, format!("s{}@{}", id, t)));
                }
                SOp::Prio(id) => {
                    tx.send_with_priority(id);
                    log.push((t, format!("p{}@{}", id, t)));
                }
                SOp::Timer(id, d) => {
                    ids.push(tx.send_with_timer(id, Duration::from_micros(d * UNIT_US)));
                    log.push((t, format!("t{}:{}@{}", id, d, t)));
                }
                SOp::Cancel(n) => {
                    if n < ids.len() {
                        tx.cancel_timer(ids[n]);
                        log.push((t, format!("c{}@{}", n, t)));
                    }
                }
            }
            late |= g2.start.elapsed().as_micros() as u64 >= (t + 1) * UNIT_US;
        }
        // sentinels: one plain event per receiver call, so that every blocking call returns
        for k in 0..n_calls {
            let (t, l) = g2.slot(last_tick + 4 + k, 1);
            late |= l;
            tx.send(9000 + k);
            log.push((t, format!("s{}@{}", 9000 + k, t)));
        }
        (log, late)
    });
    let mut rlog: Vec<(u64, String)> = vec![];
    let mut late = false;
    let mut min_tick = 0;
    for (tick, op) in receiver {
        let (t, l) = grid.slot((*tick).max(min_tick), 5);
        late |= l;
        let (tok, tret) = match op {
            ROp::Try => {
                let r = q.try_receive();
                (format!("T@{}={}", t, show(r)), grid.unit_now())
            }
            ROp::RecvTimeout(d) => {
                // u64::MAX stands for Duration::MAX ("wait as long as needed")
                let dur = if *d == u64::MAX { Duration::MAX } else { Duration::from_micros(d * UNIT_US) };
                let r = q.receive_timeout(dur);
                let tret = grid.unit_now();
                (format!("R{}@{}={}/{}", d, t, show(r), tret), tret)
            }
            ROp::Recv => {
                let r = q.receive();
                let tret = grid.unit_now();
                (format!("B@{}={}/{}", t, r, tret), tret)
            }
        };
        rlog.push((t, tok));
        min_tick = tret / 8 + 1;
    }
    let (slog, slate) = st.join().unwrap();
    late |= slate;
    let mut all: Vec<(u64, String)> = slog.into_iter().chain(rlog.into_iter()).collect();
    all.sort_by_key(|x| x.0);
    // drop sentinels sent after the last receiver call started (not part of the history)
    let last_call = all.iter().filter(|x| !x.1.starts_with(['s', 'p', 't', 'c'])).map(|x| x.0).max().unwrap_or(0);
    let last_ret = all
        .iter()
        .filter_map(|x| x.1.split('/').nth(1).and_then(|r| r.parse::<u64>().ok()))
        .max()
        .unwrap_or(0)
        .max(last_call);
    all.retain(|x| x.0 <= last_ret);
    let expected = ref_conc(&all);
    let mut fail = None::<String>;
    let mut late_return = None::<String>;
    let mut tags = std::collections::BTreeSet::new();
    let mut ci = 0;
    for (t, tok) in &all {
        if tok.starts_with(['s', 'p', 't', 'c']) {
            continue
        }
        let obs = tok.split('=').nth(1).unwrap();
        let (ores, oret) = match obs.split_once('/') {
            Some((a, b)) => (a.to_string(), b.parse::<u64>().unwrap()),
            None => (obs.to_string(), *t),
        };
        let (eres, et) = expected.get(ci).cloned().unwrap_or((None, 0));
        ci += 1;
        if oret > et.saturating_add(1) {
            // returned later than anything the history explains: an OS hiccup if it does not
            // repeat, a missed wake-up if it does (the runner repeats the case)
            late_return.get_or_insert(format!("{} expected {}/{} (late)", tok, show(eres), et));
        }
        else if show(eres) != ores {
            fail.get_or_insert(format!("{} expected {}/{}", tok, show(eres), et));
        }
        else if oret < et {
            fail.get_or_insert(format!("{} returned before {}", tok, et));
        }
        if et > *t {
            tags.insert(if eres.map_or(false, |e| e < 9000) { "woken" } else { "waited" });
        }
    }
    if all.iter().any(|x| x.1.starts_with('c')) {
        tags.insert("cancel");
    }
    // several sends in one slot while a call is blocked race with its wake-up: which of them the woken call
    // sees is not determined by the grid, so the reference twin does not apply; what must hold is exactly
    // once and per-kind order of the one sender (the model driver still validates the whole trace)
    let racy = sender.windows(2).any(|w| w[0].0 == w[1].0 && (matches!(w[0].1, SOp::Send(_) | SOp::Prio(_)) || matches!(w[1].1, SOp::Send(_) | SOp::Prio(_))))
        && receiver.first().map_or(false, |r| r.0 < sender.first().map_or(0, |s| s.0));
    if racy {
        let ids = |c: char| -> Vec<u64> {
            all.iter().filter(|x| x.1.starts_with(c)).filter_map(|x| x.1[1..].split('@').next().and_then(|v| v.parse().ok())).collect()
        };
        let (plain, prio) = (ids('s'), ids('p'));
        let got: Vec<u64> = all
            .iter()
            .filter(|x| !x.1.starts_with(['s', 'p', 't', 'c']))
            .filter_map(|x| x.1.split('=').nth(1).and_then(|o| o.split('/').next()).and_then(|v| v.parse::<u64>().ok()))
            .collect();
        let in_order = |sent: &Vec<u64>| {
            let pos: Vec<usize> = got.iter().filter_map(|g| sent.iter().position(|s| s == g)).collect();
            pos.windows(2).all(|w| w[0] < w[1])
        };
        let mut sorted = got.clone();
        sorted.sort();
        sorted.dedup();
        fail = if sorted.len() != got.len() {
            Some(format!("an event was returned twice: {:?}", got))
        }
        else if !in_order(&plain) {
            Some(format!("plain events of one sender returned out of order: sent {:?}, returned {:?}", plain, got))
        }
        else if !in_order(&prio) {
            Some(format!("priority events of one sender returned out of order: sent {:?}, returned {:?}", prio, got))
        }
        else {
            None
        };
        late_return = None;
    }
    let trace = format!("vq conc {}", all.iter().map(|x| x.1.clone()).collect::<Vec<_>>().join(" "));
    let verdict = match (&fail, late, &late_return) {
        (_, true, _) => "inconclusive".to_string(),
        (_, false, Some(l)) => format!("LATE {}", l),
        (Some(f), false, None) => format!("FAIL {}", f),
        (None, false, None) => "ok".into(),
    };
    (trace, verdict, tags.into_iter().collect::<Vec<_>>().join(","))
}

fn gen_conc_script(rng: &mut Rng) -> (Vec<(u64, SOp)>, Vec<(u64, ROp)>) {
    if rng.chance(1, 4) {
        // template: the receiver blocks first (receive() or a long receive_timeout()), then only timer
        // commands arrive: the blocked call must be woken by a timer created while it waits, and a
        // cancel sent while it waits must take effect
        let block = if rng.chance(2, 3) { ROp::Recv } else { ROp::RecvTimeout(*rng.pick(&[34u64, 50, u64::MAX])) };
        let mut sender = vec![];
        let mut id = 1;
        let mut used: Vec<u64> = vec![];
        let n = rng.range(1, 3);
        for k in 0..n {
            let tick = 1 + k;
            let dur = *rng.pick(&[2u64, 10, 18, 26]);
            if used.contains(&(tick * 8 + 1 + dur)) {
                continue
            }
            used.push(tick * 8 + 1 + dur);
            id += 1;
            sender.push((tick, SOp::Timer(id, dur)));
        }
        if rng.chance(1, 3) && sender.len() >= 2 {
            sender.push((1 + n, SOp::Cancel(0)));
        }
        if rng.chance(1, 2) {
            // created and cancelled back to back (same slot, no pause) while the receiver is blocked: the
            // command that wakes the receiver and the one right behind it must be applied in the order sent
            let dur = *rng.pick(&[4u64, 12, 20]);
            let tick = 2 + n;
            if !used.contains(&(tick * 8 + 1 + dur)) {
                id += 1;
                let index = sender.iter().filter(|(_, op)| matches!(op, SOp::Timer(..))).count();
                sender.push((tick, SOp::Timer(id, dur)));
                sender.push((tick, SOp::Cancel(index)));
            }
        }
        let mut receiver = vec![(0, block)];
        for k in 0..rng.range(0, 2) {
            receiver.push((8 + k, rng.pick(&[ROp::Try, ROp::Recv, ROp::RecvTimeout(10)]).clone()));
        }
        return (sender, receiver)
    }
    let ticks = rng.range(4, 10);
    let mut sender = vec![];
    let mut receiver = vec![];
    let mut id = 1;
    let mut timers = 0;
    let mut deadlines: Vec<u64> = vec![];
    for tick in 0..ticks {
        if rng.chance(3, 5) {
            id += 1;
            let op = match rng.below(10) {
                0..=2 => SOp::Send(id),
                3..=4 => SOp::Prio(id),
                5..=8 => {
                    // equal logical deadlines from different slots are a few microseconds apart in
                    // an order the grid does not fix: never generated
                    let dur = *rng.pick(&[0u64, 2, 10, 10, 18, 26, 8_000_002]);
                    if deadlines.contains(&(tick * 8 + 1 + dur)) {
                        SOp::Send(id)
                    }
                    else {
                        deadlines.push(tick * 8 + 1 + dur);
                        timers += 1;
                        SOp::Timer(id, dur)
                    }
                }
                _ => {
                    if timers > 0 {
                        SOp::Cancel(rng.below(timers) as usize)
                    }
                    else {
                        SOp::Send(id)
                    }
                }
            };
            sender.push((tick, op));
        }
        if rng.chance(2, 5) {
            let op = match rng.below(6) {
                0 => ROp::Try,
                1..=3 => ROp::RecvTimeout(*rng.pick(&[2u64, 10, 18, 34, 34, u64::MAX])),
                _ => ROp::Recv,
            };
            receiver.push((tick, op));
        }
    }
    if receiver.is_empty() {
        receiver.push((0, ROp::Recv));
    }
    (sender, receiver)
}

fn conc_script_of_trace(line: &str) -> Option<(Vec<(u64, SOp)>, Vec<(u64, ROp)>)> {
    let mut sender = vec![];
    let mut receiver = vec![];
    for tok in line.split(' ').skip(2) {
        let lhs = tok.split('=').next()?;
        let (op, t) = lhs.split_once('@')?;
        let tick = t.parse::<u64>().ok()? / 8;
        let (kind, arg) = op.split_at(1);
        match kind {
            "s" => {
                let id: u64 = arg.parse().ok()?;
                if id < 9000 {
                    sender.push((tick, SOp::Send(id)))
                }
            }
            "p" => sender.push((tick, SOp::Prio(arg.parse().ok()?))),
            "t" => {
                let (id, dur) = arg.split_once(':')?;
                sender.push((tick, SOp::Timer(id.parse().ok()?, dur.parse().ok()?)))
            }
            "c" => sender.push((tick, SOp::Cancel(arg.parse().ok()?))),
            "T" => receiver.push((tick, ROp::Try)),
            "R" => receiver.push((tick, ROp::RecvTimeout(arg.parse().ok()?))),
            "B" => receiver.push((tick, ROp::Recv)),
            _ => return None,
        }
    }
    Some((sender, receiver))
}

fn run_conc_parallel(scripts: Vec<(Vec<(u64, SOp)>, Vec<(u64, ROp)>)>, threads: usize) -> Vec<(String, String, String)> {
    let n = scripts.len();
    let scripts = std::sync::Arc::new(scripts);
    let next = std::sync::Arc::new(std::sync::atomic::AtomicUsize::new(0));
    let results = std::sync::Arc::new(std::sync::Mutex::new(vec![None; n]));
    let mut hs = vec![];
    for _ in 0..threads {
        let (scripts, next, results) = (scripts.clone(), next.clone(), results.clone());
        hs.push(std::thread::spawn(move || loop {
            let i = next.fetch_add(1, std::sync::atomic::Ordering::SeqCst);
            if i >= scripts.len() {
                break
            }
            let mut r = run_conc(&scripts[i].0, &scripts[i].1);
            let mut tries = 0;
            while (r.1 == "inconclusive" || r.1.starts_with("LATE")) && tries < 5 {
                r = run_conc(&scripts[i].0, &scripts[i].1);
                tries += 1;
            }
            if r.1.starts_with("LATE") {
                // late in six consecutive runs: not a hiccup
                r.1 = format!("FAIL persistently {}", &r.1[5..]);
            }
            results.lock().unwrap()[i] = Some(r);
        }));
    }
    for h in hs {
        h.join().unwrap();
    }
    let r = results.lock().unwrap().clone();
    r.into_iter().map(|x| x.unwrap()).collect()
}

// =================================================================================================
// many-thread stress histories (C06 / C08): `vq hist …`

fn run_stress(rng: &mut Rng, senders: usize, per: usize) -> (String, String, String) {
    let mut q = EventReceiver::<u64>::default();
    let start = Instant::now();
    let barrier = std::sync::Arc::new(std::sync::Barrier::new(senders));
    let mut hs = vec![];
    for sidx in 0..senders {
        let tx = q.sender().clone();
        let barrier = barrier.clone();
        let mut r = Rng::new(rng.next());
        hs.push(std::thread::spawn(move || {
            let base = (sidx as u64 + 1) << 24;
            let (mut plain, mut prio, mut timers) = (vec![], vec![], vec![]);
            barrier.wait();
            for i in 0..per as u64 {
                let id = base + i;
                match r.below(10) {
                    0..=3 => {
                        tx.send(id);
                        plain.push(id);
                    }
                    4..=5 => {
                        tx.send_with_priority(id);
                        prio.push(id);
                    }
                    _ => {
                        // equal durations from all threads: same-instant collisions are likely
                        let dur = *r.pick(&[0u64, 1000, 1000, 1000, 3000, 200_000]);
                        let sched = start.elapsed().as_micros() as u64;
                        let tid = tx.send_with_timer(id, Duration::from_micros(dur));
                        let mut canc = None;
                        if dur == 200_000 || r.chance(1, 10) {
                            tx.cancel_timer(tid);
                            canc = Some(start.elapsed().as_micros() as u64);
                        }
                        timers.push((id, sched, dur, canc));
                    }
                }
            }
            // the sender handle is dropped here, before most events are delivered
            (plain, prio, timers)
        }));
    }
    // receiver: cycles through the three receive calls until nothing arrives for 30 ms
    let mut outs: Vec<(u64, u64)> = vec![];
    let mut k = 0u64;
    let mut idle_since = Instant::now();
    let mut results = vec![];
    let mut joined = false;
    loop {
        k += 1;
        let r = match k % 3 {
            0 => q.try_receive(),
            1 => q.receive_timeout(Duration::from_millis(2)),
            _ => q.receive_timeout(Duration::from_micros(100)),
        };
        match r {
            Some(e) => {
                outs.push((e, start.elapsed().as_micros() as u64));
                idle_since = Instant::now();
            }
            None => {
                if !joined && hs.iter().all(|h| h.is_finished()) {
                    for h in hs.drain(..) {
                        results.push(h.join().unwrap());
                    }
                    joined = true;
                    idle_since = Instant::now();
                }
                if joined && idle_since.elapsed() > Duration::from_millis(30) {
                    break
                }
            }
        }
    }
    // a blocking receive() must also drain: nothing may be left
    let mut toks = vec![];
    let mut interleaved = false;
    for (i, (plain, prio, timers)) in results.iter().enumerate() {
        toks.push(format!("P{}:{}", i, plain.iter().map(|x| x.to_string()).collect::<Vec<_>>().join(",")));
        toks.push(format!("Q{}:{}", i, prio.iter().map(|x| x.to_string()).collect::<Vec<_>>().join(",")));
        toks.push(format!(
            "W{}:{}",
            i,
            timers
                .iter()
                .map(|(id, s, d, c)| format!("{}/{}/{}/{}", id, s, d, c.map(|x| x.to_string()).unwrap_or("-".into())))
                .collect::<Vec<_>>()
                .join(",")
        ));
    }
    toks.push(format!("O:{}", outs.iter().map(|(e, t)| format!("{}@{}", e, t)).collect::<Vec<_>>().join(",")));
    // direct oracle (independent of the model)
    let mut fail = None::<String>;
    let ids: Vec<u64> = outs.iter().map(|x| x.0).collect();
    let mut count = std::collections::HashMap::new();
    for id in &ids {
        *count.entry(*id).or_insert(0usize) += 1;
    }
    let mut switches = 0;
    for w in ids.windows(2) {
        if (w[0] >> 24) != (w[1] >> 24) {
            switches += 1;
        }
    }
    if switches > senders {
        interleaved = true;
    }
    let mut known = std::collections::HashSet::new();
    for (plain, prio, timers) in &results {
        for l in [plain, prio] {
            let got: Vec<u64> = ids.iter().copied().filter(|x| l.binary_search(x).is_ok()).collect();
            if &got != l {
                fail.get_or_insert(format!("sender list of {} events: received {} (order or count differs)", l.len(), got.len()));
            }
            known.extend(l.iter().copied());
        }
        for (id, sched, dur, canc) in timers {
            known.insert(*id);
            let n = count.get(id).copied().unwrap_or(0);
            let early = outs.iter().any(|(e, t)| e == id && *t < sched + dur);
            let bad = match canc {
                None => n != 1 || early,
                Some(ct) => (*ct < sched + dur && n != 0) || n > 1 || early,
            };
            if bad {
                fail.get_or_insert(format!("timer {} (dur {} us, cancelled {:?}) delivered {} times, early={}", id, dur, canc, n, early));
            }
        }
    }
    if let Some(x) = ids.iter().find(|x| !known.contains(x)) {
        fail.get_or_insert(format!("invented event {}", x));
    }
    let verdict = match fail {
        Some(f) => format!("FAIL {}", f),
        None => "ok".into(),
    };
    (format!("vq hist {}", toks.join(" ")), verdict, if interleaved { "interleaved".into() } else { String::new() })
}


// =================================================================================================
// forced interleavings through the sync point `events.ready_event.folded` (C08 cancel exactness):
// the receiver is held right after it folded the timer commands; meanwhile another thread cancels
// the pending timer (before its deadline) and the deadline passes; then the receiver goes on.

thread_local! {
    static IS_RECEIVER: std::cell::Cell<bool> = const { std::cell::Cell::new(false) };
}

/// `vq clones <pairs>`: two clones of one sender (cloned before any timer exists) schedule pairs of
/// timers; the second of each pair gets a duration shorter by 0..1500 ns, scanning the gap between the
/// two clock readings, so that many pairs fall on the same `Instant` to the nanosecond. Every id must be
/// distinct, a cancel through one id (every fourth pair) must not cancel the other event, every other
/// event must arrive exactly once.
fn run_clones(pairs: usize) -> (String, String, String) {
    if pairs == 0 || pairs > 2_000_000 {
        return ("bad-case".into(), "ok".into(), String::new())
    }
    let mut q = EventReceiver::<u64>::default();
    let a = q.sender().clone();
    let b = q.sender().clone();
    let base = Duration::from_millis(400 + (pairs as u64) / 400);
    let mut ids: Vec<TimerId> = Vec::with_capacity(2 * pairs);
    let mut cancelled: std::collections::HashSet<u64> = Default::default();
    for i in 0..pairs {
        let ia = a.send_with_timer(2 * i as u64, base);
        let ib = b.send_with_timer(2 * i as u64 + 1, base - Duration::from_nanos((i % 1500) as u64));
        ids.push(ia);
        ids.push(ib);
        if i % 4 == 0 {
            a.cancel_timer(ia);
            cancelled.insert(2 * i as u64);
        }
    }
    let mut seen_ids = std::collections::HashSet::new();
    let dup_ids = ids.iter().filter(|id| !seen_ids.insert(**id)).count();
    let mut got = vec![0u8; 2 * pairs];
    let deadline = Instant::now() + base + Duration::from_secs(3);
    let mut n = 0usize;
    while n < 2 * pairs - cancelled.len() && Instant::now() < deadline {
        match q.receive_timeout(Duration::from_millis(300)) {
            Some(e) => {
                got[e as usize] = got[e as usize].saturating_add(1);
                n += 1;
            }
            None => {
                if Instant::now() > deadline - Duration::from_secs(2) {
                    break
                }
            }
        }
    }
    // anything still coming is a duplicate
    while let Some(e) = q.receive_timeout(Duration::from_millis(50)) {
        got[e as usize] = got[e as usize].saturating_add(1);
    }
    let lost = (0..2 * pairs as u64).filter(|e| !cancelled.contains(e) && got[*e as usize] == 0).count();
    let dup = got.iter().filter(|c| **c > 1).count();
    let cross = cancelled.iter().filter(|e| got[**e as usize] > 0).count();
    let ok = dup_ids == 0 && lost == 0 && dup == 0 && cross == 0;
    (
        format!("dup_ids={} lost={} cross_cancel={}", dup_ids, lost, cross),
        if ok { "ok".into() } else { format!("FAIL {} equal TimerIds among distinct timers, {} events lost, {} delivered twice, {} cancelled events delivered", dup_ids, lost, dup, cross) },
        "clones,cancel,interleaved".into(),
    )
}

/// `vq backlog <kind> <n>`: n timer commands pile up between two receive calls (the receiver is away);
/// the next receive must see all of them (kinds: A earliest deadline first, B a due timer is not
/// "nothing", C expired timer before plain, D a cancel behind the backlog is exact, E priority / timer /
/// plain through receive_timeout(0))
fn run_backlog(kind: &str, n: usize) -> (String, String, String) {
    if n > 100000 {
        return ("bad-case".into(), "ok".into(), String::new())
    }
    let mut q = EventReceiver::<u64>::default();
    let tx = q.sender().clone();
    let far = Duration::from_secs(3600);
    let ms = Duration::from_millis;
    let pairs = |tx: &message_io::events::EventSender<u64>| {
        for i in 0..n {
            let id = tx.send_with_timer(1000 + i as u64, far);
            tx.cancel_timer(id);
        }
    };
    let show = |r: Option<u64>| r.map_or("-".to_string(), |x| x.to_string());
    let t0 = Instant::now();
    let (got, want): (Vec<String>, Vec<&str>) = match kind {
        "A" => {
            tx.send_with_timer(1, ms(20));
            pairs(&tx);
            tx.send_with_timer(2, ms(1));
            std::thread::sleep(ms(60));
            ((0..3).map(|_| show(q.try_receive())).collect(), vec!["2", "1", "-"])
        }
        "B" => {
            pairs(&tx);
            tx.send_with_timer(2, ms(1));
            std::thread::sleep(ms(30));
            ((0..2).map(|_| show(q.try_receive())).collect(), vec!["2", "-"])
        }
        "C" => {
            pairs(&tx);
            tx.send_with_timer(2, ms(1));
            tx.send(3);
            std::thread::sleep(ms(30));
            ((0..3).map(|_| show(q.try_receive())).collect(), vec!["2", "3", "-"])
        }
        "D" => {
            let id = tx.send_with_timer(1, ms(50));
            for i in 0..n {
                tx.send_with_timer(1000 + i as u64, far);
            }
            tx.cancel_timer(id);
            if t0.elapsed() >= ms(45) {
                return ("inconclusive".into(), "ok".into(), "inconclusive".into())
            }
            std::thread::sleep(ms(150));
            (vec![show(q.try_receive()), show(q.receive_timeout(ms(100)))], vec!["-", "-"])
        }
        "E" => {
            pairs(&tx);
            tx.send_with_timer(2, ms(1));
            tx.send_with_priority(4);
            tx.send(3);
            std::thread::sleep(ms(30));
            ((0..4).map(|_| show(q.receive_timeout(ms(0)))).collect(), vec!["4", "2", "3", "-"])
        }
        _ => return ("bad-case".into(), "ok".into(), String::new()),
    };
    if kind == "A" && t0.elapsed() < ms(60) {
        return ("bad-case".into(), "ok".into(), String::new())
    }
    let imp = format!("[{}]", got.join(","));
    let ok = got.iter().map(|s| s.as_str()).collect::<Vec<_>>() == want;
    (imp, if ok { "ok".into() } else { format!("FAIL expected [{}]", want.join(",")) }, format!("backlog,timer+queued,cancel,n{}", n))
}

/// `vq collide <threads> <rounds>`: all threads (clones of one sender) are released together by a spin
/// barrier before every `send_with_timer` with the same duration, so that several calls read the same
/// `Instant` and race on the shared sequence counter; ids must be distinct, every event delivered once
fn run_collide(threads: usize, rounds: usize) -> (String, String, String) {
    use std::sync::atomic::{AtomicUsize, Ordering};
    use std::sync::Arc;
    if threads < 2 || threads > 64 || rounds == 0 || rounds > 1_000_000 {
        return ("bad-case".into(), "ok".into(), String::new())
    }
    let mut q = EventReceiver::<u64>::default();
    let arrived = Arc::new(AtomicUsize::new(0));
    let generation = Arc::new(AtomicUsize::new(0));
    let dur = Duration::from_millis(50 + (rounds as u64) / 500);
    let mut hs = vec![];
    for t in 0..threads {
        let tx = q.sender().clone();
        let (arrived, generation) = (arrived.clone(), generation.clone());
        hs.push(std::thread::spawn(move || {
            let mut ids = Vec::with_capacity(rounds);
            for r in 0..rounds {
                // spin barrier
                let g = generation.load(Ordering::Acquire);
                if arrived.fetch_add(1, Ordering::AcqRel) + 1 == threads {
                    arrived.store(0, Ordering::Release);
                    generation.store(g + 1, Ordering::Release);
                }
                else {
                    while generation.load(Ordering::Acquire) == g {
                        std::hint::spin_loop();
                    }
                }
                ids.push(tx.send_with_timer((t * rounds + r) as u64, dur));
            }
            ids
        }));
    }
    let mut ids: Vec<TimerId> = vec![];
    for h in hs {
        ids.extend(h.join().unwrap());
    }
    let total = threads * rounds;
    let mut seen = std::collections::HashSet::new();
    let dup_ids = ids.iter().filter(|id| !seen.insert(**id)).count();
    let mut got = vec![0u8; total];
    let deadline = Instant::now() + dur + Duration::from_secs(4);
    let mut n = 0;
    while n < total && Instant::now() < deadline {
        if let Some(e) = q.receive_timeout(Duration::from_millis(200)) {
            got[e as usize] = got[e as usize].saturating_add(1);
            n += 1;
        }
        else if Instant::now() > deadline - Duration::from_secs(3) {
            break
        }
    }
    while let Some(e) = q.receive_timeout(Duration::from_millis(30)) {
        got[e as usize] = got[e as usize].saturating_add(1);
    }
    let lost = got.iter().filter(|c| **c == 0).count();
    let dup = got.iter().filter(|c| **c > 1).count();
    let ok = dup_ids == 0 && lost == 0 && dup == 0;
    (
        format!("dup_ids={} lost={}", dup_ids, lost),
        if ok { "ok".into() } else { format!("FAIL {} equal TimerIds among {} timers, {} events lost, {} delivered twice", dup_ids, total, lost, dup) },
        "collide,interleaved".into(),
    )
}

/// `vq early <rounds>`: sub-millisecond and millisecond timers polled with try_receive() in a tight loop
/// (so that the expiry test runs arbitrarily close before the deadline), through receive_timeout() and
/// through a receive() entered just before the deadline: the event must never come back before the
/// requested duration has elapsed since the moment *before* the scheduling call
fn run_early(rounds: usize) -> (String, String, String) {
    if rounds == 0 || rounds > 100_000 {
        return ("bad-case".into(), "ok".into(), String::new())
    }
    let mut q = EventReceiver::<u64>::default();
    let tx = q.sender().clone();
    let durs_us = [900u64, 500, 750, 7000, 12000, 3000, 1500, 250];
    let mut early = 0usize;
    let mut worst = Duration::ZERO;
    for r in 0..rounds {
        let d = Duration::from_micros(durs_us[r % durs_us.len()]);
        let t0 = Instant::now();
        tx.send_with_timer(r as u64, d);
        let got_at = match r % 3 {
            0 => loop {
                if q.try_receive().is_some() {
                    break Instant::now()
                }
                std::hint::spin_loop();
            },
            1 => {
                q.receive_timeout(Duration::from_secs(2));
                Instant::now()
            }
            _ => {
                // enter the blocking call about 300 us before the deadline
                if d > Duration::from_micros(400) {
                    let until = t0 + d - Duration::from_micros(300);
                    while Instant::now() < until {
                        std::hint::spin_loop();
                    }
                }
                q.receive();
                Instant::now()
            }
        };
        let elapsed = got_at.duration_since(t0);
        if elapsed < d {
            early += 1;
            worst = worst.max(d - elapsed);
        }
    }
    (
        format!("early={}", early),
        if early == 0 { "ok".into() } else { format!("FAIL {} of {} timers were delivered before their duration had elapsed (up to {:?} early)", early, rounds, worst) },
        "early,woken".into(),
    )
}

/// `vq expirerace <attempts>`: the receiver sits in receive_timeout(3 ms) with a 500 us timer pending; another
/// thread cancels that timer at its expiry instant plus 0..78 us (swept), so that the expiry wake-up and the
/// cancel command are ready together. Whatever the receiver does with the timer (the cancel comes after
/// the deadline), it must not answer None before the 3 ms have elapsed.
fn run_expirerace(attempts: usize) -> (String, String, String) {
    if attempts == 0 || attempts > 100_000 {
        return ("bad-case".into(), "ok".into(), String::new())
    }
    let mut early_none = 0usize;
    let mut worst = Duration::ZERO;
    let timeout = Duration::from_millis(3);
    let dbg = std::env::var("VERIF_DEBUG").is_ok();
    for a in 0..attempts {
        let mut q = EventReceiver::<u64>::default();
        let tx = q.sender().clone();
        let offset = Duration::from_micros((30 + (a % 60) * 3) as u64);
        let t0 = Instant::now();
        let id = tx.send_with_timer(1, Duration::from_micros(500));
        let h = std::thread::spawn(move || {
            let until = t0 + Duration::from_micros(500) + offset;
            while Instant::now() < until {
                std::hint::spin_loop();
            }
            tx.cancel_timer(id);
            tx
        });
        let start = Instant::now();
        let r = q.receive_timeout(timeout);
        let elapsed = start.elapsed();
        if r.is_none() && elapsed < timeout {
            if dbg {
                eprintln!("hit at offset {:?}", offset);
            }
            early_none += 1;
            worst = worst.max(timeout - elapsed);
        }
        let _tx = h.join().unwrap();
    }
    (
        format!("early_none={}", early_none),
        if early_none == 0 { "ok".into() } else { format!("FAIL receive_timeout(3 ms) answered None {} times before the timeout had elapsed (up to {:?} early)", early_none, worst) },
        "expirerace,cancel,woken,waited".into(),
    )
}

/// `vq deadlinerace <attempts>`: a timer whose deadline falls 5-160 us *before* the deadline of the
/// receive_timeout() that waits for it.  Whenever the receiver wakes up (also after both instants have
/// passed) the timer became deliverable during the call, so the call must return it; None is a failure.
/// By construction the timer's deadline precedes the call's: the call's timeout is computed from an
/// instant read after send_with_timer() returned.
fn run_deadlinerace(attempts: usize) -> (String, String, String) {
    if attempts == 0 || attempts > 100_000 {
        return ("bad-case".into(), "ok".into(), String::new())
    }
    let mut late_none = 0usize;
    let mut first = String::new();
    for a in 0..attempts {
        let mut q = EventReceiver::<u64>::default();
        let tx = q.sender().clone();
        // every other attempt stays below one millisecond altogether (a 300 us timer, a timeout of < 1 ms)
        let sub_ms = a % 2 == 1;
        let dur = Duration::from_micros(if sub_ms { 300 } else { 1500 });
        let delta = Duration::from_micros(if sub_ms { [350u64, 500, 650][a % 3] } else { [5u64, 10, 20, 40, 80, 160][a % 6] });
        tx.send_with_timer(a as u64, dur);
        let after = Instant::now();
        let call_deadline = after + dur + delta;
        let c0 = Instant::now();
        let timeout = call_deadline.saturating_duration_since(c0);
        let r = q.receive_timeout(timeout);
        if r.is_none() {
            late_none += 1;
            if first.is_empty() {
                first = format!("receive_timeout({:?}) answered None although a timer was due {:?} before its deadline", timeout, delta);
            }
        }
    }
    (
        format!("late_none={}", late_none),
        if late_none == 0 { "ok".into() } else { format!("FAIL {} of {} calls: {}", late_none, attempts, first) },
        "deadlinerace,timer,woken,waited".into(),
    )
}

/// `vq latecancel <attempts>`: a timer is cancelled in the last millisecond before its deadline (400 us
/// before it; every fourth attempt: a 900 us timer cancelled at once).  An attempt counts only if the
/// instant read after cancel_timer() returned is still before (the instant read before scheduling + the
/// duration), which is earlier than the timer's deadline: the cancel provably came first.  A cancelled
/// timer must never be delivered.
fn run_latecancel(attempts: usize) -> (String, String, String) {
    if attempts == 0 || attempts > 100_000 {
        return ("bad-case".into(), "ok".into(), String::new())
    }
    let mut delivered = 0usize;
    let mut counted = 0usize;
    for a in 0..attempts {
        let mut q = EventReceiver::<u64>::default();
        let tx = q.sender().clone();
        let short = a % 4 == 3;
        let dur = if short { Duration::from_micros(900) } else { Duration::from_millis(4) };
        let before = Instant::now();
        let id = tx.send_with_timer(a as u64, dur);
        if !short {
            let until = before + dur - Duration::from_micros(400);
            while Instant::now() < until {
                std::hint::spin_loop();
            }
        }
        tx.cancel_timer(id);
        let in_time = Instant::now() < before + dur;
        let r = if a % 2 == 0 {
            q.receive_timeout(Duration::from_millis(6))
        }
        else {
            std::thread::sleep(Duration::from_millis(6));
            q.try_receive()
        };
        if in_time {
            counted += 1;
            if r.is_some() {
                delivered += 1;
            }
        }
    }
    (
        format!("delivered={}", delivered),
        if delivered == 0 { "ok".into() } else { format!("FAIL {} of {} timers cancelled before their deadline (within its last millisecond) were delivered", delivered, counted) },
        format!("latecancel,cancel,timer{}", if counted * 2 >= attempts { ",waited" } else { "" }),
    )
}

/// `vq farfuture`: durations that cannot be added to the clock (Duration::MAX, u64::MAX s, i64::MAX s) and a
/// huge representable one.  send_with_timer may refuse (panic) or keep the timer pending for ever; it may
/// never deliver it: a plain event sent afterwards is the next thing returned, then nothing.
fn run_farfuture() -> (String, String, String) {
    let mut early = 0;
    let mut detail = String::new();
    for (k, d) in [Duration::MAX, Duration::from_secs(u64::MAX), Duration::from_secs(i64::MAX as u64), Duration::from_secs(u64::MAX / 4), Duration::from_secs(100 * 365 * 86400)].into_iter().enumerate() {
        let mut q = EventReceiver::<u64>::default();
        let tx = q.sender().clone();
        let tx2 = tx.clone();
        let scheduled = std::panic::catch_unwind(std::panic::AssertUnwindSafe(move || tx2.send_with_timer(1000 + k as u64, d))).is_ok();
        tx.send_with_timer(7, Duration::from_millis(3));
        tx.send(5);
        let mut got = vec![];
        for _ in 0..3 {
            if let Some(e) = q.receive_timeout(Duration::from_millis(10)) {
                got.push(e);
            }
        }
        if got != vec![5, 7] && got != vec![7, 5] {
            early += 1;
            if detail.is_empty() {
                detail = format!("a timer of {:?} (accepted: {}) was involved in {:?}", d, scheduled, got);
            }
        }
    }
    (format!("early={}", early), if early == 0 { "ok".into() } else { format!("FAIL {}", detail) }, "farfuture,timer,waited".into())
}

fn run_race(kind: char) -> (String, String, String, String) {
    use message_io::util::verif::set_sync_handler;
    use std::sync::atomic::{AtomicBool, Ordering};
    use std::sync::{Arc, Condvar, Mutex};
    let armed = Arc::new(AtomicBool::new(false));
    let at_point = Arc::new((Mutex::new(false), Condvar::new()));
    let release = Arc::new((Mutex::new(false), Condvar::new()));
    {
        let (armed, at_point, release) = (armed.clone(), at_point.clone(), release.clone());
        set_sync_handler(Some(Arc::new(move |name| {
            if name == "events.ready_event.folded" && IS_RECEIVER.with(|f| f.get()) && armed.swap(false, Ordering::SeqCst) {
                *at_point.0.lock().unwrap() = true;
                at_point.1.notify_all();
                let mut g = release.0.lock().unwrap();
                while !*g {
                    g = release.1.wait(g).unwrap();
                }
            }
        })));
    }
    let mut q = EventReceiver::<u64>::default();
    let tx = q.sender().clone();
    let before = Instant::now();
    let id = tx.send_with_timer(7, Duration::from_millis(40));
    let armed2 = armed.clone();
    let rx_thread = std::thread::spawn(move || {
        IS_RECEIVER.with(|f| f.set(true));
        std::thread::sleep(Duration::from_millis(20));
        armed2.store(true, Ordering::SeqCst);
        let r1 = match kind {
            'T' => q.try_receive(),
            'E' => q.receive_timeout(Duration::from_millis(300)),
            'B' => Some(q.receive()),
            _ => q.receive_timeout(Duration::from_millis(10)),
        };
        let t1 = Instant::now();
        std::thread::sleep(Duration::from_millis(5));
        let r2 = q.try_receive();
        (r1, r2, t1)
    });
    // wait until the receiver sits at the sync point
    let reached = {
        let g = at_point.0.lock().unwrap();
        let (g, _) = at_point.1.wait_timeout_while(g, Duration::from_secs(2), |r| !*r).unwrap();
        *g
    };
    let expire = kind == 'E' || kind == 'B';
    if !expire {
        tx.cancel_timer(id);
    }
    let cancelled_at = Instant::now();
    let in_time = cancelled_at < before + Duration::from_millis(40);
    // let the deadline pass while the receiver is held
    std::thread::sleep((before + Duration::from_millis(46)).saturating_duration_since(Instant::now()));
    *release.0.lock().unwrap() = true;
    release.1.notify_all();
    let released_at = Instant::now();
    if kind == 'B' {
        // a sentinel, so that a receive() that slept through the timer comes back at all
        let tx2 = tx.clone();
        std::thread::spawn(move || {
            std::thread::sleep(Duration::from_millis(400));
            tx2.send(999);
        });
    }
    let (r1, r2, t1) = rx_thread.join().unwrap();
    set_sync_handler(None);
    if expire {
        // the timer expired while the receiver sat between its expiry test and going to sleep:
        // the call must still return it at once
        let case = if kind == 'E' {
            "vq sched st40:7 tick20 callR300 clk fold tick26 waketimer clk fold callT clk fold".to_string()
        }
        else {
            "vq sched st40:7 tick20 callB clk fold tick26 waketimer clk fold callT clk fold".to_string()
        };
        let imp = format!("[{},{}]", show(r1), show(if r2 == Some(999) { None } else { r2 }));
        let late = t1.saturating_duration_since(released_at) > Duration::from_millis(150);
        let verdict = if !reached {
            "inconclusive".to_string()
        }
        else if r1 != Some(7) || late {
            format!("FAIL a timer that expired while the receiver was about to sleep did not wake it (got {} after {:?})", show(r1), t1.saturating_duration_since(released_at))
        }
        else {
            "ok".to_string()
        };
        return (case, imp, verdict, "forced-race,woken".into())
    }
    let case = if kind == 'T' {
        "vq sched st40:7 tick20 callT clk fold cancel0 tick26 callT clk fold".to_string()
    }
    else {
        "vq sched st40:7 tick20 callR10 clk fold cancel0 tick26 wakecmd clk fold waketimeout callT clk fold".to_string()
    };
    let imp = format!("[{},{}]", show(r1), show(r2));
    let verdict = if !reached || !in_time {
        "inconclusive".to_string()
    }
    else if r1.is_some() || r2.is_some() {
        "FAIL a timer cancelled before its deadline was delivered".to_string()
    }
    else {
        "ok".to_string()
    };
    (case, imp, verdict, "forced-race,cancel".into())
}

fn emit_all(out: &mut impl std::io::Write, rows: Vec<(String, String, String)>) {
    for (trace, verdict, tags) in rows {
        if verdict == "inconclusive" {
            emit(out, &format!("#inconclusive {}", trace), "ok", "ok", "inconclusive");
        }
        else {
            emit(out, &trace, "ok", &verdict, &tags);
        }
    }
}

fn main() {
    quiet_panics();
    let out = std::io::stdout();
    let mut out = std::io::BufWriter::new(out.lock());
    let threads = 12;
    match arg(1).as_str() {
        "gen-seq" => {
            let mut rng = Rng::new(arg_u64(2, 1));
            let n = arg_u64(3, 500);
            // corpus first: the as-found F2 history and relatives
            let mut scripts: Vec<Vec<Op>> = vec![
                vec![Op::Timer(7, 4_000_000), Op::Send(42), Op::Try, Op::RecvTimeout(0)],
                vec![Op::Timer(7, 8), Op::Send(42), Op::Try, Op::Try, Op::Gap(2), Op::Try],
                vec![Op::Timer(1, 4), Op::Timer(2, 4), Op::Cancel(0), Op::Gap(1), Op::Try, Op::Try],
                vec![Op::Timer(1, 8), Op::Timer(2, 4), Op::Prio(3), Op::Send(4), Op::Recv, Op::Recv, Op::Recv, Op::Recv],
            ];
            for _ in 0..n {
                scripts.push(gen_script(&mut rng));
            }
            emit_all(&mut out, run_parallel(scripts, threads));
        }
        "gen-seq-exh" => {
            let len = arg_u64(2, 4) as usize;
            let alphabet = [Op::Timer(0, 4), Op::Timer(0, 4_000_000), Op::Send(0), Op::Prio(0), Op::Try, Op::RecvTimeout(4)];
            let mut scripts: Vec<Vec<Op>> = vec![vec![]];
            let mut frontier = scripts.clone();
            for _ in 0..len {
                let mut next = vec![];
                for s in &frontier {
                    for a in &alphabet {
                        let mut s2 = s.clone();
                        s2.push(a.clone());
                        next.push(s2);
                    }
                }
                scripts.extend(next.clone());
                frontier = next;
            }
            // distinct ids
            for s in scripts.iter_mut() {
                for (i, op) in s.iter_mut().enumerate() {
                    match op {
                        Op::Timer(id, _) | Op::Send(id) | Op::Prio(id) => *id = i as u64 + 1,
                        _ => {}
                    }
                }
            }
            scripts.retain(|s| s.iter().any(|o| matches!(o, Op::Try | Op::RecvTimeout(_))));
            emit_all(&mut out, run_parallel(scripts, threads));
        }
        "gen-conc" => {
            let mut rng = Rng::new(arg_u64(2, 1) ^ 0xc0c0);
            let n = arg_u64(3, 200);
            // corpus first: the as-found F10 histories
            let mut scripts = vec![
                (vec![(2, SOp::Timer(7, 10))], vec![(0, ROp::Recv)]),
                (vec![(0, SOp::Timer(1, 18)), (0, SOp::Timer(2, 18)), (1, SOp::Cancel(0))], vec![(0, ROp::RecvTimeout(50)), (3, ROp::RecvTimeout(10))]),
                (vec![(0, SOp::Timer(1, 26)), (1, SOp::Timer(2, 2))], vec![(0, ROp::Recv), (2, ROp::Recv)]),
                (vec![(2, SOp::Send(5))], vec![(0, ROp::RecvTimeout(34)), (3, ROp::RecvTimeout(10))]),
                (vec![(2, SOp::Prio(5))], vec![(0, ROp::Recv)]),
                (vec![(2, SOp::Send(5))], vec![(0, ROp::RecvTimeout(u64::MAX))]),
                (vec![(0, SOp::Timer(1, 18)), (3, SOp::Timer(2, 2))], vec![(0, ROp::RecvTimeout(u64::MAX)), (1, ROp::RecvTimeout(u64::MAX))]),
                // a receiver already blocked when one sender sends plain, priority, plain, plain back to back:
                // whatever wakes it, the plain events keep their order
                (vec![(2, SOp::Send(5)), (2, SOp::Prio(6)), (2, SOp::Send(7)), (2, SOp::Send(8))], vec![(0, ROp::Recv), (3, ROp::Recv), (3, ROp::Recv), (3, ROp::Recv)]),
                (vec![(2, SOp::Send(5)), (2, SOp::Prio(6)), (2, SOp::Send(7)), (2, SOp::Send(8))], vec![(0, ROp::RecvTimeout(50)), (3, ROp::Try), (3, ROp::Try), (3, ROp::Try)]),
                // a priority send alone wakes a receiver blocked in either call
                (vec![(2, SOp::Prio(5))], vec![(0, ROp::RecvTimeout(34))]),
                (vec![(0, SOp::Timer(1, 8_000_002)), (2, SOp::Prio(5))], vec![(0, ROp::RecvTimeout(50))]),
                // a zero-duration timer is a timer: it keeps its place before a later timer of the same sender
                (vec![(0, SOp::Timer(1, 0)), (0, SOp::Timer(2, 2))], vec![(2, ROp::Try), (2, ROp::Try)]),
                (vec![(0, SOp::Send(3)), (0, SOp::Timer(1, 0)), (0, SOp::Timer(2, 2))], vec![(2, ROp::Recv), (2, ROp::Recv), (2, ROp::Recv)]),
            ];
            for _ in 0..n {
                scripts.push(gen_conc_script(&mut rng));
            }
            emit_all(&mut out, run_conc_parallel(scripts, threads));
        }
        "gen-race" => {
            for kind in ['T', 'R', 'E', 'B', 'T', 'R', 'E', 'B'] {
                let mut r = run_race(kind);
                let mut tries = 0;
                while r.2 == "inconclusive" && tries < 4 {
                    r = run_race(kind);
                    tries += 1;
                }
                if r.2 == "inconclusive" {
                    emit(&mut out, &format!("#inconclusive {}", r.0), "ok", "ok", "inconclusive");
                }
                else {
                    emit(&mut out, &r.0, &r.1, &r.2, &r.3);
                }
            }
        }
        "gen-backlog" => {
            for n in [200usize, 1500, 5000] {
                for kind in ["A", "B", "C", "D", "E"] {
                    let mut r = run_backlog(kind, n);
                    let mut tries = 0;
                    while r.0 == "inconclusive" && tries < 3 {
                        r = run_backlog(kind, n);
                        tries += 1;
                    }
                    if r.0 == "inconclusive" {
                        emit(&mut out, &format!("#inconclusive vq backlog {} {}", kind, n), "ok", "ok", "inconclusive");
                    }
                    else {
                        emit(&mut out, &format!("vq backlog {} {}", kind, n), &r.0, &r.1, &r.2);
                    }
                }
            }
        }
        "gen-farfuture" => {
            let (i, v, t) = run_farfuture();
            emit(&mut out, "vq farfuture", &i, &v, &t);
        }
        "gen-latecancel" => {
            let n = arg_u64(2, 200) as usize;
            let (i, v, t) = run_latecancel(n);
            emit(&mut out, &format!("vq latecancel {}", n), &i, &v, &t);
        }
        "gen-deadlinerace" => {
            let n = arg_u64(2, 300) as usize;
            let (i, v, t) = run_deadlinerace(n);
            emit(&mut out, &format!("vq deadlinerace {}", n), &i, &v, &t);
        }
        "gen-expirerace" => {
            let n = arg_u64(2, 320) as usize;
            let (i, v, t) = run_expirerace(n);
            emit(&mut out, &format!("vq expirerace {}", n), &i, &v, &t);
        }
        "gen-early" => {
            let rounds = arg_u64(2, 240) as usize;
            let (i, v, t) = run_early(rounds);
            emit(&mut out, &format!("vq early {}", rounds), &i, &v, &t);
        }
        "gen-collide" => {
            let threads = arg_u64(2, 8) as usize;
            let rounds = arg_u64(3, 20000) as usize;
            let (i, v, t) = run_collide(threads, rounds);
            emit(&mut out, &format!("vq collide {} {}", threads, rounds), &i, &v, &t);
        }
        "gen-clones" => {
            let pairs = arg_u64(2, 150000) as usize;
            let (i, v, t) = run_clones(pairs);
            emit(&mut out, &format!("vq clones {}", pairs), &i, &v, &t);
        }
        "gen-stress" => {
            let mut rng = Rng::new(arg_u64(2, 1) ^ 0x5757);
            let n = arg_u64(3, 4);
            let per = arg_u64(4, 2000) as usize;
            for i in 0..n {
                let senders = [2usize, 4, 8, 16][(i % 4) as usize];
                let (c, v, t) = run_stress(&mut rng, senders, per);
                emit(&mut out, &c, "ok", &v, &t);
            }
        }
        "run" => {
            for line in stdin_lines() {
                if line.trim() == "vq farfuture" {
                    let (i, v, t) = run_farfuture();
                    emit(&mut out, "vq farfuture", &i, &v, &t);
                    continue
                }
                if line.starts_with("vq latecancel ") {
                    let n = line.split(' ').nth(2).and_then(|x| x.parse().ok()).unwrap_or(0);
                    let (i, v, t) = run_latecancel(n);
                    emit(&mut out, &line, &i, &v, &t);
                    continue
                }
                if line.starts_with("vq deadlinerace ") {
                    let n = line.split(' ').nth(2).and_then(|x| x.parse().ok()).unwrap_or(0);
                    let (i, v, t) = run_deadlinerace(n);
                    emit(&mut out, &line, &i, &v, &t);
                    continue
                }
                if line.starts_with("vq expirerace ") {
                    let n = line.trim().split(' ').nth(2).and_then(|x| x.parse().ok()).unwrap_or(0);
                    let (i, v, t) = run_expirerace(n);
                    emit(&mut out, line.trim(), &i, &v, &t);
                }
                else if line.starts_with("vq early ") {
                    let n = line.trim().split(' ').nth(2).and_then(|x| x.parse().ok()).unwrap_or(0);
                    let (i, v, t) = run_early(n);
                    emit(&mut out, line.trim(), &i, &v, &t);
                }
                else if line.starts_with("vq collide ") {
                    let ws: Vec<&str> = line.trim().split(' ').collect();
                    let t = ws.get(2).and_then(|x| x.parse().ok()).unwrap_or(0);
                    let r = ws.get(3).and_then(|x| x.parse().ok()).unwrap_or(0);
                    let (i, v, tg) = run_collide(t, r);
                    emit(&mut out, line.trim(), &i, &v, &tg);
                }
                else if line.starts_with("vq backlog ") {
                    let ws: Vec<&str> = line.trim().split(' ').collect();
                    let n = ws.get(3).and_then(|x| x.parse().ok()).unwrap_or(usize::MAX);
                    let (i, v, t) = run_backlog(ws.get(2).copied().unwrap_or(""), n);
                    emit(&mut out, line.trim(), &i, &v, &t);
                }
                else if line.starts_with("vq clones ") {
                    let p = line.split(' ').nth(2).and_then(|x| x.parse().ok()).unwrap_or(0);
                    let (i, v, t) = run_clones(p);
                    emit(&mut out, line.trim(), &i, &v, &t);
                }
                else if line.starts_with("vq conc") {
                    match conc_script_of_trace(&line) {
                        Some(script) => emit_all(&mut out, run_conc_parallel(vec![script], 1)),
                        None => emit(&mut out, &line, "bad-case", "ok", ""),
                    }
                }
                else if line.starts_with("vq sched") {
                    let kind = if line.contains("callR") { 'R' } else { 'T' };
                    let r = run_race(kind);
                    emit(&mut out, &r.0, &r.1, &r.2, &r.3);
                }
                else if line.starts_with("vq hist") {
                    // a stress history cannot be re-executed deterministically: it is re-judged as recorded
                    emit(&mut out, &line, "ok", "ok", "recorded");
                }
                else if line.starts_with("vq seq") {
                    match script_of_trace(&line) {
                        Some(script) => emit_all(&mut out, run_parallel(vec![script], 1)),
                        None => emit(&mut out, &line, "bad-case", "ok", ""),
                    }
                }
                else {
                    emit(&mut out, &line, "bad-case", "ok", "");
                }
            }
        }
        _ => eprintln!("usage: vq gen-seq <seed> <n> | gen-seq-exh <len> | run"),
    }
}
