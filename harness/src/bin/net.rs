//! C03 / C04 / C13 / C14 / C17 / C18 tie for M5: scripted histories over `network::split()`, pumped on the
//! calling thread (so the history is a sequence), with raw TCP / tungstenite / UDP peers.
//!
//! One output row per (scenario, transport): `net hist <items…>` — user calls with their results
//! and the events the callback saw, in the order they happened (grammar: lean/Driver/NetD.lean).
//! The direct oracle judges the same history against the property statements: per-endpoint
//! lifecycle, exactly-one end, probes after the end, status table, descriptors back to baseline.
use mio_harness::*;
use message_io::network::{self, Endpoint, NetEvent, NetworkController, NetworkProcessor, ResourceId, SendStatus, Transport};
use std::collections::HashMap;
use std::io::{Read, Write};
use std::net::{SocketAddr, TcpListener, TcpStream, UdpSocket};
use std::time::Duration;

fn fds() -> usize {
    std::fs::read_dir("/proc/self/fd").map(|d| d.count()).unwrap_or(0)
}

#[derive(Clone, Debug, PartialEq)]
enum Item {
    Listen(ResourceId),
    Connect(ResourceId),
    Send(ResourceId, SendStatus),
    Remove(ResourceId, bool),
    IsReady(ResourceId, Option<bool>),
    EvConnected(ResourceId, bool),
    EvAccepted(ResourceId, ResourceId),
    EvMessage(ResourceId, usize),
    EvDisconnected(ResourceId),
    Pump(u8),
}

fn status_str(s: SendStatus) -> &'static str {
    match s {
        SendStatus::Sent => "Sent",
        SendStatus::MaxPacketSizeExceeded => "MaxPacketSizeExceeded",
        SendStatus::ResourceNotFound => "ResourceNotFound",
        SendStatus::ResourceNotAvailable => "ResourceNotAvailable",
    }
}

impl Item {
    fn adapter(&self) -> u8 {
        match self {
            Item::Pump(a) => *a,
            Item::Listen(i) | Item::Connect(i) | Item::Send(i, _) | Item::Remove(i, _) | Item::IsReady(i, _) | Item::EvConnected(i, _) | Item::EvAccepted(i, _) | Item::EvMessage(i, _) | Item::EvDisconnected(i) => i.adapter_id(),
        }
    }
    fn token(&self) -> String {
        match self {
            Item::Listen(i) => format!("L{}", i.base_value()),
            Item::Connect(i) => format!("C{}", i.base_value()),
            Item::Send(i, s) => {
                if i.is_local() { format!("SL{}={}", i.base_value(), status_str(*s)) } else { format!("S{}={}", i.base_value(), status_str(*s)) }
            }
            Item::Remove(i, b) => {
                if i.is_local() { format!("RL{}={}", i.base_value(), b) } else { format!("R{}={}", i.base_value(), b) }
            }
            Item::IsReady(i, r) => format!(
                "{}{}={}",
                if i.is_local() { "QL" } else { "Q" },
                i.base_value(),
                match r {
                    Some(true) => "Some(true)",
                    Some(false) => "Some(false)",
                    None => "None",
                }
            ),
            Item::EvConnected(i, ok) => format!("eC{}:{}", i.base_value(), if *ok { "t" } else { "f" }),
            Item::EvAccepted(i, l) => format!("eA{}:{}", i.base_value(), l.base_value()),
            Item::EvMessage(i, _) => {
                if i.is_local() { format!("eU{}", i.base_value()) } else { format!("eM{}", i.base_value()) }
            }
            Item::EvDisconnected(i) => format!("eD{}", i.base_value()),
            Item::Pump(_) => "P".into(),
        }
    }
}

/// action armed to run inside the callback
#[derive(Clone, Debug)]
enum Armed {
    RemoveSelfOnMessage,
    ProbeOnDisconnected,
    RemoveListenerOnAccepted,
    SendOnConnected,
    RemoveSelfOnConnected,
}

struct World {
    ctl: NetworkController,
    proc_: NetworkProcessor,
    hist: Vec<Item>,
    armed: Vec<Armed>,
    accepted: Vec<(Endpoint, ResourceId)>,
    notes: Vec<String>,
    closed_peers: Vec<SocketAddr>,
    leaks: Vec<String>,
    configured: bool,
    bad_keepalive: bool,
}

impl World {
    fn new() -> World {
        let (ctl, proc_) = network::split();
        World { ctl, proc_, hist: vec![], armed: vec![], accepted: vec![], notes: vec![], closed_peers: vec![], leaks: vec![], configured: false, bad_keepalive: false }
    }
    fn pump(&mut self, ms: u64) {
        // a receive batch never spans two pumps: mark the boundary for every adapter
        for a in 0..4u8 {
            if self.hist.last() != Some(&Item::Pump(a)) {
                self.hist.push(Item::Pump(a));
            }
        }
        let World { ctl, proc_, hist, armed, accepted, .. } = self;
        proc_.process_poll_events_until_timeout(Duration::from_millis(ms), |ev| match ev {
            NetEvent::Connected(ep, ok) => {
                hist.push(Item::EvConnected(ep.resource_id(), ok));
                if !ok && armed.iter().any(|a| matches!(a, Armed::ProbeOnDisconnected)) {
                    // a failed connect is over when it is reported: the endpoint is gone already
                    let id = ep.resource_id();
                    hist.push(Item::IsReady(id, ctl.is_ready(id)));
                    hist.push(Item::Send(id, ctl.send(ep, &[1, 2, 3])));
                    hist.push(Item::Remove(id, ctl.remove(id)));
                }
                for a in armed.clone() {
                    match a {
                        Armed::SendOnConnected if ok => {
                            let st = ctl.send(ep, &[1, 2, 3]);
                            hist.push(Item::Send(ep.resource_id(), st));
                        }
                        Armed::RemoveSelfOnConnected => {
                            let r = ctl.remove(ep.resource_id());
                            hist.push(Item::Remove(ep.resource_id(), r));
                        }
                        _ => {}
                    }
                }
            }
            NetEvent::Accepted(ep, lid) => {
                hist.push(Item::EvAccepted(ep.resource_id(), lid));
                accepted.push((ep, lid));
                if armed.iter().any(|a| matches!(a, Armed::RemoveListenerOnAccepted)) {
                    let r = ctl.remove(lid);
                    hist.push(Item::Remove(lid, r));
                }
            }
            NetEvent::Message(ep, data) => {
                hist.push(Item::EvMessage(ep.resource_id(), data.len()));
                if ep.resource_id().is_remote() && armed.iter().any(|a| matches!(a, Armed::RemoveSelfOnMessage)) {
                    let r = ctl.remove(ep.resource_id());
                    hist.push(Item::Remove(ep.resource_id(), r));
                }
            }
            NetEvent::Disconnected(ep) => {
                hist.push(Item::EvDisconnected(ep.resource_id()));
                if armed.iter().any(|a| matches!(a, Armed::ProbeOnDisconnected)) {
                    // the endpoint is gone already while its Disconnected is being delivered
                    let id = ep.resource_id();
                    hist.push(Item::IsReady(id, ctl.is_ready(id)));
                    hist.push(Item::Send(id, ctl.send(ep, &[1, 2, 3])));
                    hist.push(Item::Remove(id, ctl.remove(id)));
                }
            }
        });
    }
    /// `configured`: go through listen_with / connect_with with non-default configurations (keepalive
    /// on the stream transports, address reuse and an explicit source address on Udp)
    fn listen(&mut self, t: Transport) -> (ResourceId, SocketAddr) {
        use message_io::adapters::{framed_tcp::FramedTcpListenConfig, tcp::{TcpKeepalive, TcpListenConfig}, udp::UdpListenConfig};
        use message_io::network::TransportListen;
        // every other configured node uses a keepalive time the OS rejects (> 32767 s): the library only warns
        let secs = if self.bad_keepalive { 100_000 } else { 30 };
        let ka = || TcpKeepalive::new().with_time(Duration::from_secs(secs));
        let addr: SocketAddr = "127.0.0.1:0".parse().unwrap();
        let (id, addr) = if self.configured {
            match t {
                Transport::Tcp => self.ctl.listen_with(TransportListen::Tcp(TcpListenConfig::default().with_keepalive(ka())), addr).unwrap(),
                Transport::FramedTcp => self.ctl.listen_with(TransportListen::FramedTcp(FramedTcpListenConfig::default().with_keepalive(ka())), addr).unwrap(),
                Transport::Udp => self.ctl.listen_with(TransportListen::Udp(UdpListenConfig::default().with_reuse_address()), addr).unwrap(),
                _ => self.ctl.listen(t, addr).unwrap(),
            }
        }
        else {
            self.ctl.listen(t, addr).unwrap()
        };
        self.hist.push(Item::Listen(id));
        (id, addr)
    }
    fn try_connect(&mut self, t: Transport, addr: SocketAddr) -> std::io::Result<Endpoint> {
        use message_io::adapters::{framed_tcp::FramedTcpConnectConfig, tcp::{TcpConnectConfig, TcpKeepalive}, udp::UdpConnectConfig};
        use message_io::network::TransportConnect;
        let secs = if self.bad_keepalive { 100_000 } else { 30 };
        let ka = || TcpKeepalive::new().with_time(Duration::from_secs(secs));
        let (ep, _) = if self.configured {
            match t {
                Transport::Tcp => self.ctl.connect_with(TransportConnect::Tcp(TcpConnectConfig::default().with_keepalive(ka()).with_source_address("127.0.0.1:0".parse().unwrap())), addr)?,
                Transport::FramedTcp => self.ctl.connect_with(TransportConnect::FramedTcp(FramedTcpConnectConfig::default().with_keepalive(ka())), addr)?,
                Transport::Udp => self.ctl.connect_with(TransportConnect::Udp(UdpConnectConfig::default().with_source_address("127.0.0.1:0".parse().unwrap())), addr)?,
                _ => self.ctl.connect(t, addr)?,
            }
        }
        else {
            self.ctl.connect(t, addr)?
        };
        self.hist.push(Item::Connect(ep.resource_id()));
        Ok(ep)
    }
    fn connect(&mut self, t: Transport, addr: SocketAddr) -> Endpoint {
        self.try_connect(t, addr).unwrap()
    }
    fn send(&mut self, ep: Endpoint, n: usize) -> SendStatus {
        let st = self.ctl.send(ep, &vec![7u8; n]);
        self.hist.push(Item::Send(ep.resource_id(), st));
        st
    }
    fn remove(&mut self, id: ResourceId) -> bool {
        let r = self.ctl.remove(id);
        self.hist.push(Item::Remove(id, r));
        r
    }
    fn is_ready(&mut self, id: ResourceId) -> Option<bool> {
        let r = self.ctl.is_ready(id);
        self.hist.push(Item::IsReady(id, r));
        r
    }
}

fn varint(mut n: u64) -> Vec<u8> {
    let mut v = vec![];
    while n >= 0x80 {
        v.push((n as u8) | 0x80);
        n >>= 7;
    }
    v.push(n as u8);
    v
}

fn reset_close(s: TcpStream) {
    let sock = socket2::Socket::from(s);
    let _ = sock.set_linger(Some(Duration::from_secs(0)));
    drop(sock);
}

/// descriptor exhaustion while a connection waits at a listener: `accept()` answers EMFILE for as long as
/// the process has no free descriptor.  The accept loop must give the network thread back (it logs the
/// error and leaves), so that stop() still ends the node's threads within bounded time.
fn run_emfile(t: Transport) -> (String, String, String, String) {
    use message_io::node::{self, NodeEvent};
    let (handler, listener) = node::split::<()>();
    let (_lid, addr) = handler.network().listen(t, "127.0.0.1:0").unwrap();
    // a healthy connection on a second (Tcp) listener of the same node: the node echoes what it says
    let (_lid2, echo_addr) = handler.network().listen(Transport::Tcp, "127.0.0.1:0").unwrap();
    let h2 = handler.clone();
    let task = listener.for_each_async(move |e| {
        if let NodeEvent::Network(NetEvent::Message(ep, data)) = e {
            if ep.resource_id().adapter_id() == Transport::Tcp.id() && data.first() == Some(&b'p') {
                h2.network().send(ep, data);
            }
        }
    });
    // a first connection goes through normally
    let _first = TcpStream::connect(addr).ok();
    let mut healthy = TcpStream::connect(echo_addr).unwrap();
    healthy.set_read_timeout(Some(Duration::from_secs(2))).ok();
    let echo = |s: &mut TcpStream| -> bool {
        let mut buf = [0u8; 4];
        s.write_all(b"ping").is_ok() && s.read_exact(&mut buf).is_ok() && &buf == b"ping"
    };
    let served_before = echo(&mut healthy);
    std::thread::sleep(Duration::from_millis(100));
    let (tx, rx) = std::sync::mpsc::channel();
    let (go_tx, go_rx) = std::sync::mpsc::channel::<()>();
    let waiter = std::thread::spawn(move || {
        let _ = go_rx.recv();
        let mut task = task;
        let _ = std::panic::catch_unwind(std::panic::AssertUnwindSafe(|| task.wait()));
        let _ = tx.send(());
    });
    let mut old = libc::rlimit { rlim_cur: 0, rlim_max: 0 };
    unsafe { libc::getrlimit(libc::RLIMIT_NOFILE, &mut old) };
    let low = libc::rlimit { rlim_cur: old.rlim_cur.min(256), rlim_max: old.rlim_max };
    unsafe { libc::setrlimit(libc::RLIMIT_NOFILE, &low) };
    let mut hoard = vec![];
    while let Ok(f) = std::fs::File::open("/dev/null") {
        hoard.push(f);
        if hoard.len() > 100_000 {
            break
        }
    }
    hoard.pop();
    // the freed descriptor goes to the client; the listener's accept() has none left
    let client = TcpStream::connect(addr);
    let exhausted = std::fs::File::open("/dev/null").is_err();
    std::thread::sleep(Duration::from_millis(300));
    // while accept() keeps failing, the established connection must still be served
    let served_during = echo(&mut healthy);
    handler.stop();
    let _ = go_tx.send(());
    let in_time = rx.recv_timeout(Duration::from_secs(3)).is_ok();
    drop(hoard);
    unsafe { libc::setrlimit(libc::RLIMIT_NOFILE, &old) };
    if !in_time {
        // with descriptors available again the loop ends by itself: nothing is left behind for the next case
        let _ = rx.recv_timeout(Duration::from_secs(5));
    }
    let _ = waiter.join();
    let ok = in_time && client.is_ok() && exhausted && served_before && served_during;
    (
        // a '#' case is not put to the model: the fault could not be produced here, nothing is compared
        if client.is_err() || !exhausted { format!("#emfile-setup-failed {}", t) } else { format!("net emfile {}", t) },
        if client.is_err() || !exhausted { "setup-failed".into() } else { format!("stopped_in_time={} served={}", in_time, served_before && served_during) },
        if ok {
            "ok".into()
        }
        else if client.is_err() || !exhausted {
            "ok".into() // could not produce the fault on this machine: nothing is claimed
        }
        else if !(served_before && served_during) {
            format!("FAIL with the descriptor table full and a connection waiting at the {} listener, an established connection of the same node was no longer served (echo before: {}, during: {})", t, served_before, served_during)
        }
        else {
            "FAIL 3 s after stop() the node's threads were still running: the accept loop keeps retrying a failing accept() (EMFILE)".into()
        },
        format!("emfile,{}", t),
    )
}

fn dead_addr() -> SocketAddr {
    let l = TcpListener::bind("127.0.0.1:0").unwrap();
    l.local_addr().unwrap()
}

enum RawPeer {
    Tcp(TcpStream),
    Ws(Box<tungstenite::WebSocket<TcpStream>>),
}

/// a raw peer connecting to one of our listeners; for Ws the client handshake runs in a helper
/// thread while the node is pumped
fn raw_connect(w: &mut World, t: Transport, addr: SocketAddr) -> Option<RawPeer> {
    if t == Transport::Ws {
        let h = std::thread::spawn(move || {
            let s = TcpStream::connect(addr).ok()?;
            s.set_read_timeout(Some(Duration::from_secs(2))).ok();
            tungstenite::client::client(format!("ws://{}/x", addr), s).ok().map(|x| x.0)
        });
        for _ in 0..20 {
            w.pump(10);
            if h.is_finished() {
                break
            }
        }
        h.join().ok().flatten().map(|s| RawPeer::Ws(Box::new(s)))
    }
    else {
        let s = TcpStream::connect(addr).ok()?;
        s.set_nodelay(true).ok();
        Some(RawPeer::Tcp(s))
    }
}

fn peer_write(p: &mut RawPeer, t: Transport, n: usize) {
    match p {
        RawPeer::Tcp(s) => {
            let payload = vec![9u8; n];
            let bytes = if t == Transport::FramedTcp { [varint(n as u64), payload].concat() } else { payload };
            let _ = s.write_all(&bytes);
        }
        RawPeer::Ws(s) => {
            let _ = s.send(tungstenite::Message::Binary(vec![9u8; n].into()));
        }
    }
}

/// raw bytes written behind tungstenite's back on an established WebSocket connection
fn hostile_ws_frame(p: &mut RawPeer, kind: u64) {
    if let RawPeer::Ws(s) = p {
        let mut frame: Vec<u8> = match kind {
            // binary frame announcing 2^63-1 bytes (64-bit length form), masked
            0 => [vec![0x82, 0xFF], (i64::MAX as u64).to_be_bytes().to_vec(), vec![1, 2, 3, 4]].concat(),
            // announcing 40 MiB: above the declared maximum, below anything absurd
            1 => [vec![0x82, 0xFF], (40u64 << 20).to_be_bytes().to_vec(), vec![1, 2, 3, 4]].concat(),
            // reserved bits and an unknown opcode
            2 => vec![0xF3, 0x81, 1, 2, 3, 4, 9],
            // a client frame that is not masked
            3 => vec![0x82, 0x03, 1, 2, 3],
            // a continuation frame without a message in progress
            _ => vec![0x80, 0x81, 1, 2, 3, 4, 9],
        };
        frame.extend_from_slice(&[0u8; 16]);
        let _ = s.get_mut().write_all(&frame);
        let _ = s.get_mut().flush();
    }
}

fn peer_local(p: &RawPeer) -> Option<SocketAddr> {
    match p {
        RawPeer::Tcp(s) => s.local_addr().ok(),
        RawPeer::Ws(s) => s.get_ref().local_addr().ok(),
    }
}

fn peer_end(p: RawPeer, reset: bool) {
    match p {
        RawPeer::Tcp(s) => {
            if reset {
                reset_close(s)
            }
            else {
                drop(s)
            }
        }
        RawPeer::Ws(s) => {
            let (stream,) = (s.get_ref().try_clone(),);
            drop(s);
            if let (Ok(st), true) = (stream, reset) {
                reset_close(st);
            }
        }
    }
}

/// one randomized scenario for a connection oriented transport
fn scenario_conn(w: &mut World, t: Transport, rng: &mut Rng) {
    let (lid, addr) = w.listen(t);
    w.armed.clear();
    match rng.below(10) {
        8 | 9 => w.armed.push(Armed::ProbeOnDisconnected),
        0 => w.armed.push(Armed::RemoveSelfOnMessage),
        1 => w.armed.push(Armed::RemoveListenerOnAccepted),
        2 => w.armed.push(Armed::SendOnConnected),
        3 => w.armed.push(Armed::RemoveSelfOnConnected),
        _ => {}
    }
    let mut eps: Vec<Endpoint> = vec![];
    let mut peers: Vec<RawPeer> = vec![];
    let mut raw_listeners: Vec<TcpListener> = vec![];
    let steps = rng.range(4, 12);
    for _ in 0..steps {
        match rng.below(14) {
            0 | 1 => {
                let ep = w.connect(t, addr);
                eps.push(ep);
                if rng.chance(1, 2) {
                    w.send(ep, 5); // before the handshake completes: ResourceNotAvailable
                }
            }
            2 => {
                // refused connect
                let ep = w.connect(t, dead_addr());
                eps.push(ep);
            }
            3 => {
                // connect to a raw listener that may accept, stay silent, or close at once
                let l = TcpListener::bind("127.0.0.1:0").unwrap();
                let ep = w.connect(t, l.local_addr().unwrap());
                eps.push(ep);
                match rng.below(3) {
                    0 => raw_listeners.push(l),
                    1 => {
                        if let Ok((s, _)) = l.accept() {
                            if t == Transport::Ws {
                                let mut s = s;
                                let _ = s.write_all(b"HTTP/1.1 400 Bad Request\r\n\r\n");
                            }
                            else {
                                peers.push(RawPeer::Tcp(s));
                            }
                        }
                    }
                    _ => {
                        if let Ok((s, _)) = l.accept() {
                            if rng.chance(1, 2) {
                                reset_close(s)
                            }
                            else {
                                drop(s)
                            }
                        }
                    }
                }
            }
            4 | 5 => {
                // inbound raw peer: proper, garbage, or gone at once
                match rng.below(4) {
                    0 | 1 => {
                        if let Some(p) = raw_connect(w, t, addr) {
                            peers.push(p);
                        }
                    }
                    2 if rng.chance(1, 2) => {
                        // silent first (the handshake is suspended waiting for data), then garbage,
                        // half of a valid upgrade request, or nothing at all; then gone
                        if let Ok(mut s) = TcpStream::connect(addr) {
                            w.pump(20);
                            match rng.below(3) {
                                0 => {
                                    let k = rng.range(1, 40) as usize;
                                    let _ = s.write_all(&rng.bytes(k));
                                }
                                1 => {
                                    let _ = s.write_all(b"GET /x HTTP/1.1\r\nHost: a\r\nUpgrade: websocket\r\nConnection: Upg");
                                }
                                _ => {}
                            }
                            w.pump(20);
                            if rng.chance(1, 2) {
                                reset_close(s)
                            }
                            else {
                                drop(s)
                            }
                            w.pump(20);
                        }
                    }
                    2 => {
                        if let Ok(mut s) = TcpStream::connect(addr) {
                            let k = rng.range(1, 40) as usize;
                            let _ = s.write_all(&rng.bytes(k));
                            if t == Transport::Ws || rng.chance(1, 2) {
                                w.pump(15);
                            }
                            if rng.chance(1, 2) {
                                reset_close(s)
                            }
                            else {
                                drop(s)
                            }
                        }
                    }
                    _ => {
                        if let Ok(s) = TcpStream::connect(addr) {
                            drop(s);
                        }
                    }
                }
            }
            6 => {
                if !peers.is_empty() {
                    let i = rng.below(peers.len() as u64) as usize;
                    if t == Transport::Ws && rng.chance(1, 3) {
                        // a hostile frame after a correct handshake: the node must end this endpoint
                        // only (one Disconnected), never panic
                        hostile_ws_frame(&mut peers[i], rng.below(5));
                        w.pump(40);
                    }
                    else {
                        for _ in 0..rng.range(1, 3) {
                            peer_write(&mut peers[i], t, rng.range(0, 300) as usize);
                        }
                    }
                }
            }
            7 => {
                if !peers.is_empty() {
                    let i = rng.below(peers.len() as u64) as usize;
                    let p = peers.remove(i);
                    if let Some(a) = peer_local(&p) {
                        w.closed_peers.push(a);
                    }
                    if rng.chance(1, 2) {
                        // data right before the end must still be delivered before Disconnected
                        let mut p = p;
                        peer_write(&mut p, t, 10);
                        peer_end(p, false);
                    }
                    else {
                        peer_end(p, rng.chance(1, 2));
                    }
                }
            }
            8 => {
                if !eps.is_empty() {
                    let ep = *rng.pick(&eps);
                    w.send(ep, rng.range(0, 2000) as usize);
                }
            }
            9 => {
                if !w.accepted.is_empty() {
                    let ep = rng.pick(&w.accepted).0;
                    w.send(ep, rng.range(0, 2000) as usize);
                }
            }
            10 => {
                if !eps.is_empty() && rng.chance(1, 2) {
                    let ep = *rng.pick(&eps);
                    w.remove(ep.resource_id());
                }
                else if !w.accepted.is_empty() {
                    let ep = rng.pick(&w.accepted).0;
                    w.remove(ep.resource_id());
                }
            }
            11 => {
                if !eps.is_empty() {
                    let ep = *rng.pick(&eps);
                    w.is_ready(ep.resource_id());
                }
            }
            _ => w.pump(rng.range(5, 40)),
        }
        if rng.chance(1, 2) {
            w.pump(12);
        }
    }
    wind_down(w, lid, &eps, peers, raw_listeners, rng);
}

fn wind_down(w: &mut World, lid: ResourceId, eps: &[Endpoint], mut peers: Vec<RawPeer>, raw_listeners: Vec<TcpListener>, rng: &mut Rng) {
    w.pump(60);
    // wind down: peers go away, everything is removed, then probes after the end
    for p in peers.drain(..) {
        if let Some(a) = peer_local(&p) {
            w.closed_peers.push(a);
        }
        peer_end(p, rng.chance(1, 3));
    }
    w.pump(150);
    w.armed.clear();
    let accepted: Vec<Endpoint> = w.accepted.iter().filter(|a| a.1 == lid).map(|a| a.0).collect();
    // every accepted connection whose peer has gone must have ended by now (Disconnected or removed)
    for ep in &accepted {
        if w.closed_peers.contains(&ep.addr()) && w.ctl.is_ready(ep.resource_id()).is_some() {
            w.leaks.push(format!("peer {} closed its side but {} is still registered: no Disconnected", ep.addr(), ep.resource_id()));
        }
    }
    // every connect() that returned an endpoint is answered by a Connected event (unless removed first)
    // (a Ws connect to a foreign acceptor that never speaks WebSocket stays pending for as long as that
    // acceptor keeps the TCP connection: it is owed nothing yet)
    let silent: Vec<SocketAddr> = raw_listeners.iter().filter_map(|l| l.local_addr().ok()).collect();
    for ep in eps.iter() {
        let id = ep.resource_id();
        if id.adapter_id() == Transport::Ws.id() && silent.contains(&ep.addr()) {
            continue
        }
        let answered = w.hist.iter().any(|i| match i {
            Item::EvConnected(x, _) => *x == id,
            Item::Remove(x, res) => *x == id && *res,
            _ => false,
        });
        if !answered {
            w.leaks.push(format!("connect() returned {} ({}) but no Connected event was ever reported for it (is_ready: {:?})", id, ep.addr(), w.ctl.is_ready(id)));
        }
    }
    // a connection that has ended without the user removing it must have been reported: Disconnected
    // (or Connected(false) for a connect that never completed)
    for ep in eps.iter().chain(accepted.iter()) {
        let id = ep.resource_id();
        let gone = w.ctl.is_ready(id).is_none();
        let told = w.hist.iter().any(|i| match i {
            Item::EvDisconnected(x) => *x == id,
            Item::EvConnected(x, ok) => *x == id && !*ok,
            Item::Remove(x, res) => *x == id && *res,
            _ => false,
        });
        if gone && !told {
            w.leaks.push(format!("{} is not registered any more but neither Disconnected nor a successful remove() was ever recorded for it", id));
        }
    }
    for ep in eps.iter().chain(accepted.iter()) {
        w.remove(ep.resource_id());
    }
    w.remove(lid);
    drop(raw_listeners);
    w.pump(120);
    for ep in eps.iter().chain(accepted.iter()) {
        w.send(*ep, 3);
        w.is_ready(ep.resource_id());
        w.remove(ep.resource_id());
    }
}


/// fixed endings (always run first): the peer's last data and its FIN/RST reach the node together,
/// at each point of a short exchange; the data must be delivered and exactly one Disconnected follow
fn scenario_endings(w: &mut World, t: Transport, k: u64, rng: &mut Rng) {
    let (lid, addr) = w.listen(t);
    w.armed.clear();
    if k % 2 == 0 {
        w.armed.push(Armed::ProbeOnDisconnected);
    }
    let mut eps: Vec<Endpoint> = vec![];
    let mut peers: Vec<RawPeer> = vec![];
    let mut raw_listeners: Vec<TcpListener> = vec![];
    let mut end_now = |w: &mut World, mut p: RawPeer, msgs: usize, reset: bool| {
        if let Some(a) = peer_local(&p) {
            w.closed_peers.push(a);
        }
        for i in 0..msgs {
            peer_write(&mut p, t, 10 + i);
        }
        peer_end(p, reset);
    };
    match k {
        7 if t == Transport::Ws => {
            // peers that connect to the WebSocket listener and leave before completing the upgrade request
            // (nothing sent, or a part of it): no event, and the accepted sockets are closed
            for i in 0..6 {
                if let Ok(mut s) = TcpStream::connect(addr) {
                    if i % 2 == 1 {
                        let _ = s.write_all(b"GET /x HTTP/1.1\r\nHost: localhost\r\n");
                    }
                    w.pump(20);
                    drop(s);
                }
            }
            w.pump(150);
        }
        13 if t != Transport::Ws => {
            // a child process is alive (fork + exec while the connections are open) when the node removes
            // an outbound and an accepted connection: the sockets must not have been inherited, the peers
            // must see the close at once
            let l = TcpListener::bind("127.0.0.1:0").unwrap();
            let ep = w.connect(t, l.local_addr().unwrap());
            eps.push(ep);
            let out_peer = l.accept().ok().map(|x| x.0);
            let in_peer = TcpStream::connect(addr).ok();
            w.pump(60);
            let child = std::process::Command::new("sleep").arg("5").stdin(std::process::Stdio::null()).spawn();
            if let Ok(mut child) = child {
                let in_ep = w.accepted.iter().find(|a| in_peer.as_ref().and_then(|p| p.local_addr().ok()) == Some(a.0.addr())).map(|a| a.0);
                w.remove(ep.resource_id());
                if let Some(e) = in_ep {
                    w.remove(e.resource_id());
                }
                for (name, peer) in [("the outbound connection", out_peer), ("the accepted connection", in_peer)] {
                    if let Some(mut p) = peer {
                        p.set_read_timeout(Some(Duration::from_millis(1000))).ok();
                        let mut b = [0u8; 64];
                        let closed = loop {
                            match p.read(&mut b) {
                                Ok(0) => break true,
                                Ok(_) => continue,
                                Err(e) if e.kind() == std::io::ErrorKind::WouldBlock || e.kind() == std::io::ErrorKind::TimedOut => break false,
                                Err(_) => break true,
                            }
                        };
                        if !closed {
                            w.leaks.push(format!("remove() of {} returned but its peer saw no close within 1 s while a child process was alive: the socket was inherited", name));
                        }
                    }
                }
                let _ = child.kill();
                let _ = child.wait();
            }
            raw_listeners.push(l);
        }
        12 => {
            // data and the end of the stream are queued together; the callback removes the endpoint at its
            // first Message: remove() answers true and no Disconnected may follow for it
            w.armed.push(Armed::RemoveSelfOnMessage);
            if t == Transport::Ws {
                if let Some(p) = raw_connect(w, t, addr) {
                    end_now(w, p, 2, false);
                }
            }
            else if let Ok(s) = TcpStream::connect(addr) {
                end_now(w, RawPeer::Tcp(s), 2, false);
            }
            std::thread::sleep(Duration::from_millis(50));
        }
        11 if t == Transport::Ws => {
            // the peer's Close frame arrives while a local thread is busy sending on the same endpoint (the
            // WebSocket adapter shares one lock between its two directions): the close must still be
            // processed and reported, the peer must see the connection end
            if let Some(RawPeer::Ws(mut s)) = raw_connect(w, t, addr) {
                w.pump(30);
                let peer_addr = s.get_ref().local_addr().ok();
                let ep = w.accepted.iter().find(|a| Some(a.0.addr()) == peer_addr).map(|a| a.0);
                if let (Some(ep), Some(pa)) = (ep, peer_addr) {
                    w.closed_peers.push(pa);
                    // the controller is shareable (&self methods, Sync) but owned by the World, which is also
                    // borrowed mutably by pump(): the sender thread gets a raw pointer and is joined before
                    // this function returns (the World outlives it)
                    let ctl_ptr = &w.ctl as *const NetworkController as usize;
                    let stop = std::sync::Arc::new(std::sync::atomic::AtomicBool::new(false));
                    let stop2 = stop.clone();
                    let sender = std::thread::spawn(move || {
                        let ctl: &NetworkController = unsafe { &*(ctl_ptr as *const NetworkController) };
                        let data = vec![7u8; 64 * 1024];
                        while !stop2.load(std::sync::atomic::Ordering::SeqCst) {
                            ctl.send(ep, &data);
                        }
                    });
                    let (tx, rx) = std::sync::mpsc::channel::<bool>();
                    let peer = std::thread::spawn(move || {
                        s.get_ref().set_read_timeout(Some(Duration::from_millis(20))).ok();
                        let t0 = std::time::Instant::now();
                        let mut closed = false;
                        let mut saw_end = false;
                        while t0.elapsed() < Duration::from_millis(1500) {
                            if !closed && t0.elapsed() > Duration::from_millis(50) {
                                let _ = s.close(None);
                                let _ = s.flush();
                                closed = true;
                            }
                            match s.read() {
                                Ok(_) => {}
                                Err(tungstenite::Error::Io(e)) if e.kind() == std::io::ErrorKind::WouldBlock || e.kind() == std::io::ErrorKind::TimedOut => {}
                                Err(_) => {
                                    saw_end = closed;
                                    if closed {
                                        break
                                    }
                                }
                            }
                        }
                        let _ = tx.send(saw_end);
                    });
                    let mut peer_saw_end = None;
                    for _ in 0..36 {
                        w.pump(50);
                        if let Ok(x) = rx.try_recv() {
                            peer_saw_end = Some(x);
                            break
                        }
                    }
                    stop.store(true, std::sync::atomic::Ordering::SeqCst);
                    let _ = sender.join();
                    let _ = peer.join();
                    w.pump(100);
                    if w.ctl.is_ready(ep.resource_id()).is_some() || peer_saw_end != Some(true) {
                        w.leaks.push(format!(
                            "the peer sent a Close frame while a local thread was sending on {}: still registered: {:?}; the peer saw the connection end: {:?}",
                            ep.resource_id(),
                            w.ctl.is_ready(ep.resource_id()),
                            peer_saw_end
                        ));
                    }
                }
            }
        }
        10 if t == Transport::Ws => {
            // the node is the WebSocket *client*; an RFC 6455 style server sends a message and a Close frame
            // and then keeps its TCP connection open, waiting for the client to answer and go: the message
            // must be delivered and the endpoint must end (Disconnected) without any further traffic
            let l = TcpListener::bind("127.0.0.1:0").unwrap();
            let srv_addr = l.local_addr().unwrap();
            let (tx, rx) = std::sync::mpsc::channel::<bool>();
            let (sent_tx, sent_rx) = std::sync::mpsc::channel::<()>();
            let server = std::thread::spawn(move || {
                let Ok((s, _)) = l.accept() else { return };
                s.set_read_timeout(Some(Duration::from_millis(1500))).ok();
                let Ok(mut ws) = tungstenite::accept(s) else {
                    let _ = tx.send(false);
                    return
                };
                let _ = ws.send(tungstenite::Message::Binary(vec![9u8; 11].into()));
                let _ = ws.close(None);
                let _ = ws.flush();
                let _ = sent_tx.send(());
                // the server now waits for the client to go away, keeping its own socket open and untouched
                std::thread::sleep(Duration::from_millis(1200));
                ws.get_ref().set_read_timeout(Some(Duration::from_millis(300))).ok();
                let mut saw_end = false;
                loop {
                    match ws.read() {
                        Ok(_) => continue,
                        Err(tungstenite::Error::Io(e)) if e.kind() == std::io::ErrorKind::WouldBlock || e.kind() == std::io::ErrorKind::TimedOut => break,
                        Err(_) => {
                            // the close handshake is complete for tungstenite; was the TCP connection ended by the client?
                            let mut b = [0u8; 1];
                            saw_end = !matches!(ws.get_mut().read(&mut b), Err(ref e) if e.kind() == std::io::ErrorKind::WouldBlock || e.kind() == std::io::ErrorKind::TimedOut);
                            break
                        }
                    }
                }
                let _ = tx.send(saw_end);
            });
            let ep = w.connect(t, srv_addr);
            eps.push(ep);
            let id = ep.resource_id();
            // judged 600 ms after the server has sent its Close frame, while it still holds its connection
            // open: nothing else will arrive
            let mut close_sent = false;
            for _ in 0..60 {
                w.pump(50);
                if sent_rx.try_recv().is_ok() {
                    close_sent = true;
                    break
                }
            }
            w.pump(600);
            if close_sent && w.ctl.is_ready(id).is_some() {
                w.leaks.push(format!("the server sent a Close frame (and keeps its connection open) but {} is still registered 600 ms later: no Disconnected", id));
            }
            let mut peer_saw_end = None;
            for _ in 0..25 {
                w.pump(100);
                if let Ok(x) = rx.try_recv() {
                    peer_saw_end = Some(x);
                    break
                }
            }
            let _ = server.join();
            if peer_saw_end == Some(false) {
                w.leaks.push("the server sent a Close frame and waited 1.2 s: the client never ended the connection".to_string());
            }
            let msgs = w.hist.iter().filter(|i| matches!(i, Item::EvMessage(x, _) if *x == id)).count();
            if msgs != 1 {
                w.leaks.push(format!("{} of the 1 message sent before the server's Close frame was delivered", msgs));
            }
            if w.ctl.is_ready(id).is_some() {
                w.leaks.push(format!("the server sent a Close frame (and keeps its connection open) but {} is still registered: no Disconnected (the server saw the connection end: {:?})", id, peer_saw_end));
            }
        }
        9 => {
            // destinations the OS rejects at once (TCP towards multicast / broadcast addresses: ENETUNREACH or
            // EINVAL from connect(2) itself): connect() either reports the error, or it returns an endpoint
            // and then owes a Connected event for it like for any other
            for configured in [false, true] {
                w.configured = configured;
                for dest in ["224.0.0.1:4567", "239.255.0.1:80", "255.255.255.255:4567"] {
                    if let Ok(ep) = w.try_connect(t, dest.parse().unwrap()) {
                        eps.push(ep);
                    }
                }
            }
            w.pump(200);
        }
        8 => {
            // the peer ends an established connection and, before that is processed, the node keeps sending
            // to it: the writes fail (EPIPE / ECONNRESET -> ResourceNotFound) while the resource is still
            // registered; the close processed afterwards must still be reported, once
            if let Some(p) = raw_connect(w, t, addr) {
                w.pump(30);
                let peer_addr = peer_local(&p);
                let ep = w.accepted.iter().find(|a| Some(a.0.addr()) == peer_addr).map(|a| a.0);
                if let Some(ep) = ep {
                    w.send(ep, 5);
                    std::thread::sleep(Duration::from_millis(20));
                    end_now(w, p, 1, rng.chance(1, 2));
                    std::thread::sleep(Duration::from_millis(30));
                    for i in 0..4 {
                        w.send(ep, 6 + i);
                        std::thread::sleep(Duration::from_millis(5));
                    }
                    w.is_ready(ep.resource_id());
                }
            }
        }
        7 if t != Transport::Ws => {
            // pending sockets that carry an error other than "refused": inbound connections reset by the
            // peer while still in the accept queue (they must leave no trace and no descriptor), and an
            // outbound connect whose acceptor goes away without accepting (it must answer Connected(false))
            for _ in 0..6 {
                if let Ok(s) = TcpStream::connect(addr) {
                    reset_close(s);
                }
            }
            let l = TcpListener::bind("127.0.0.1:0").unwrap();
            let ep = w.connect(t, l.local_addr().unwrap());
            eps.push(ep);
            std::thread::sleep(Duration::from_millis(20));
            drop(l);
            w.pump(150);
            if !w.hist.iter().any(|i| matches!(i, Item::EvConnected(id, _) if *id == ep.resource_id())) {
                w.leaks.push(format!("connect() returned {} but no Connected event was ever reported for it", ep.resource_id()));
            }
        }
        6 if t != Transport::Ws => {
            // a flood: 300 connections are already queued when the listener is polled for the first time;
            // each must be accepted (once) and, after the peers have gone, disconnected (once)
            let mut flood: Vec<TcpStream> = vec![];
            for _ in 0..300 {
                if let Ok(s) = TcpStream::connect(addr) {
                    flood.push(s);
                }
            }
            w.pump(200);
            let accepted_now = w.accepted.len();
            if accepted_now != flood.len() {
                w.leaks.push(format!("{} connections were queued at the listener, {} were accepted", flood.len(), accepted_now));
            }
            for s in flood.drain(..) {
                if let Ok(a) = s.local_addr() {
                    w.closed_peers.push(a);
                }
                drop(s);
            }
            w.pump(200);
        }
        4 if t == Transport::Ws => {
            // an RFC 6455 style end: data, a Ping, more data and the Close frame in one write; the peer
            // then keeps its TCP connection open waiting for the other side: the data must be delivered
            // and the endpoint must end (Disconnected) without any further traffic
            if let Some(RawPeer::Ws(mut s)) = raw_connect(w, t, addr) {
                w.pump(30);
                let _ = s.write(tungstenite::Message::Binary(vec![9u8; 11].into()));
                let _ = s.write(tungstenite::Message::Ping(b"hi".to_vec().into()));
                let _ = s.write(tungstenite::Message::Binary(vec![9u8; 12].into()));
                let _ = s.close(None);
                let _ = s.flush();
                let peer_addr = s.get_ref().local_addr().ok();
                if let Some(a) = peer_addr {
                    w.closed_peers.push(a);
                }
                peers.push(RawPeer::Ws(s));
                w.pump(100);
                // judged now, while the peer's TCP connection is still open: nothing else will ever arrive
                if let Some((ep, _)) = w.accepted.iter().find(|a| Some(a.0.addr()) == peer_addr).copied() {
                    let msgs = w.hist.iter().filter(|i| matches!(i, Item::EvMessage(id, _) if *id == ep.resource_id())).count();
                    if msgs != 2 {
                        w.leaks.push(format!("{} of the 2 messages sent before the Close frame were delivered", msgs));
                    }
                    if w.ctl.is_ready(ep.resource_id()).is_some() {
                        w.leaks.push(format!("the peer sent a Close frame but {} is still registered: no Disconnected", ep.resource_id()));
                    }
                }
            }
        }
        0 | 1 | 4 => {
            if let Some(p) = raw_connect(w, t, addr) {
                w.pump(30);
                end_now(w, p, if k == 4 { 3 } else { 1 }, k == 1);
            }
        }
        2 if t != Transport::Ws => {
            // data and FIN are already there when the listener is polled for the first time
            if let Ok(s) = TcpStream::connect(addr) {
                end_now(w, RawPeer::Tcp(s), 2, false);
            }
        }
        3 if t == Transport::Ws => {
            // the node connects with Ws to a plain HTTP server that answers 404 and closes: Connected(false) and
            // nothing else (the handshake fails after the upgrade request was sent)
            let l = TcpListener::bind("127.0.0.1:0").unwrap();
            let srv = l.local_addr().unwrap();
            let server = std::thread::spawn(move || {
                if let Ok((mut s, _)) = l.accept() {
                    s.set_read_timeout(Some(Duration::from_millis(500))).ok();
                    let mut buf = [0u8; 2048];
                    let _ = s.read(&mut buf);
                    let _ = s.write_all(b"HTTP/1.1 404 Not Found\r\nContent-Length: 0\r\n\r\n");
                }
            });
            let ep = w.connect(t, srv);
            eps.push(ep);
            for _ in 0..10 {
                w.pump(50);
                if server.is_finished() {
                    break
                }
            }
            let _ = server.join();
            w.pump(100);
        }
        3 if t != Transport::Ws => {
            // the node connects out; the raw acceptor answers with data and closes at once
            let l = TcpListener::bind("127.0.0.1:0").unwrap();
            let ep = w.connect(t, l.local_addr().unwrap());
            eps.push(ep);
            if let Ok((s, _)) = l.accept() {
                let mut p = RawPeer::Tcp(s);
                peer_write(&mut p, t, 7);
                peer_end(p, false);
            }
            raw_listeners.push(l);
        }
        _ => {
            // established first, some traffic, then a final burst and the end
            if let Some(mut p) = raw_connect(w, t, addr) {
                w.pump(30);
                peer_write(&mut p, t, 5);
                w.pump(30);
                if t == Transport::Ws {
                    // the end is a hostile frame (huge announced length) instead of a close
                    hostile_ws_frame(&mut p, 0);
                    w.pump(60);
                    if let Some(a) = peer_local(&p) {
                        w.closed_peers.push(a);
                    }
                    peers.push(p);
                }
                else {
                    end_now(w, p, 2, false);
                }
            }
        }
    }
    w.pump(150);
    if k == 3 {
        // the outbound endpoint must have seen its Disconnected by now
        for ep in &eps {
            if w.ctl.is_ready(ep.resource_id()).is_some() {
                w.leaks.push(format!("the acceptor closed after its data but {} is still registered: no Disconnected", ep.resource_id()));
            }
        }
    }
    wind_down(w, lid, &eps, peers.drain(..).collect(), raw_listeners, rng);
}

/// a connected Udp resource whose peer goes away (a send then bounces with ICMP port-unreachable and
/// leaves ECONNREFUSED pending on the socket) and comes back on the same port: the resource must stay
/// usable, deliver the new datagrams and never report Disconnected
fn udp_absent_peer(w: &mut World, eps: &mut Vec<Endpoint>) {
    let peer = UdpSocket::bind("127.0.0.1:0").unwrap();
    let paddr = peer.local_addr().unwrap();
    let (ep, local) = match w.ctl.connect(Transport::Udp, paddr) {
        Ok(x) => x,
        Err(_) => return,
    };
    w.hist.push(Item::Connect(ep.resource_id()));
    eps.push(ep);
    w.pump(20);
    drop(peer);
    w.send(ep, 5); // bounces
    w.pump(30);
    if let Ok(peer) = UdpSocket::bind(paddr) {
        let _ = peer.send_to(b"first", local);
        let _ = peer.send_to(b"second", local);
        w.pump(40);
        w.is_ready(ep.resource_id());
        let _ = peer.send_to(b"third", local);
        w.pump(30);
    }
    w.is_ready(ep.resource_id());
}

fn scenario_udp(w: &mut World, rng: &mut Rng) {
    let (lid, addr) = w.listen(Transport::Udp);
    let mut eps = vec![];
    let raw = UdpSocket::bind("127.0.0.1:0").unwrap();
    // a connected resource whose (foreign) peer answers with a zero-length datagram and then a normal one:
    // both are messages; a datagram socket has no end of stream
    if rng.chance(1, 2) {
        let peer = UdpSocket::bind("127.0.0.1:0").unwrap();
        peer.set_read_timeout(Some(Duration::from_millis(300))).ok();
        let ep = w.connect(Transport::Udp, peer.local_addr().unwrap());
        eps.push(ep);
        w.pump(15);
        w.send(ep, 3);
        let mut buf = [0u8; 16];
        if let Ok((_, from)) = peer.recv_from(&mut buf) {
            let _ = peer.send_to(&[], from);
            let _ = peer.send_to(&[5u8; 4], from);
            w.pump(30);
            let n = w.hist.iter().filter(|i| matches!(i, Item::EvMessage(x, _) if *x == ep.resource_id())).count();
            if n != 2 {
                w.leaks.push(format!("a zero-length datagram and a 4-byte one were sent to the connected Udp resource {}: {} Message events", ep.resource_id(), n));
            }
        }
    }
    for _ in 0..rng.range(3, 9) {
        match rng.below(6) {
            0 => eps.push(w.connect(Transport::Udp, addr)),
            1 => {
                if !eps.is_empty() {
                    let ep = *rng.pick(&eps);
                    w.send(ep, *rng.pick(&[0usize, 1, 1472, 9000, 65507, 65508, 70000]));
                }
            }
            2 => {
                let _ = raw.send_to(&vec![3u8; rng.range(0, 2000) as usize], addr);
            }
            3 => {
                // reply through an endpoint built with from_listener
                let ep = Endpoint::from_listener(lid, raw.local_addr().unwrap());
                let st = w.ctl.send(ep, &[1, 2, 3]);
                w.hist.push(Item::Send(lid, st));
            }
            4 => {
                if !eps.is_empty() {
                    let ep = eps.remove(rng.below(eps.len() as u64) as usize);
                    w.remove(ep.resource_id());
                    w.send(ep, 4);
                }
            }
            5 if rng.chance(1, 2) => udp_absent_peer(w, &mut eps),
            _ => w.pump(15),
        }
    }
    if eps.is_empty() || rng.chance(1, 3) {
        udp_absent_peer(w, &mut eps);
    }
    w.pump(50);
    for ep in eps.iter() {
        w.remove(ep.resource_id());
    }
    w.remove(lid);
    w.pump(30);
    let ep = Endpoint::from_listener(lid, raw.local_addr().unwrap());
    let st = w.ctl.send(ep, &[1]);
    w.hist.push(Item::Send(lid, st));
}

/// the property statements on one adapter's recorded history
fn oracle(items: &[Item], t: Transport) -> Result<(), String> {
    #[derive(Default)]
    struct E {
        from_connect: bool,
        evs: Vec<String>,
        removed_true: usize,
        ended_at: Option<usize>,
        ready_known: bool,
    }
    let mut m: HashMap<usize, E> = HashMap::new();
    for (idx, it) in items.iter().enumerate() {
        match it {
            Item::Connect(id) => {
                m.entry(id.base_value()).or_default().from_connect = true;
            }
            Item::EvConnected(id, ok) => {
                let e = m.entry(id.base_value()).or_default();
                e.evs.push(if *ok { "C".into() } else { "F".into() });
                if *ok {
                    e.ready_known = true;
                }
                else {
                    e.ended_at = Some(idx);
                }
            }
            Item::EvAccepted(id, _) => {
                let e = m.entry(id.base_value()).or_default();
                e.evs.push("A".into());
                e.ready_known = true;
            }
            Item::EvMessage(id, _) if id.is_remote() => m.entry(id.base_value()).or_default().evs.push("M".into()),
            Item::EvDisconnected(id) => {
                let e = m.entry(id.base_value()).or_default();
                e.evs.push("D".into());
                e.ended_at = Some(idx);
            }
            Item::Remove(id, true) if id.is_remote() => {
                let e = m.entry(id.base_value()).or_default();
                e.removed_true += 1;
                e.ended_at.get_or_insert(idx);
            }
            Item::Remove(id, false) | Item::Send(id, _) | Item::IsReady(id, _) if id.is_remote() => {
                // probes after the end
                let e = m.entry(id.base_value()).or_default();
                if let Some(end) = e.ended_at {
                    if idx > end {
                        let ok = match it {
                            Item::Remove(_, false) => true,
                            Item::Send(_, s) => *s == SendStatus::ResourceNotFound,
                            Item::IsReady(_, r) => r.is_none(),
                            _ => true,
                        };
                        if !ok {
                            return Err(format!("after the end of {}: {}", id, it.token()))
                        }
                    }
                }
                else if let Item::Send(_, s) = it {
                    // status table while registered
                    if !e.ready_known && *s != SendStatus::ResourceNotAvailable && t.is_connection_oriented() {
                        return Err(format!("send before establishment answered {:?}", s))
                    }
                }
            }
            _ => {}
        }
    }
    for (id, e) in &m {
        let word = e.evs.join("");
        let ok = if e.from_connect {
            word.is_empty() || word == "F" || (word.starts_with('C') && word[1..].trim_start_matches('M').trim_end_matches('D').is_empty() && word.matches('D').count() <= 1 && !word[1..].contains('C'))
        }
        else {
            word.is_empty() || (word.starts_with('A') && word[1..].trim_start_matches('M').trim_end_matches('D').is_empty() && word.matches('D').count() <= 1)
        };
        let ok = ok && !(word.contains('D') && !word.ends_with('D'));
        if !ok {
            return Err(format!("lifecycle of remote {} is '{}' (from_connect={})", id, word, e.from_connect))
        }
        if word.matches('D').count() + e.removed_true > 1 {
            return Err(format!("remote {} ended more than once: events '{}', remove()=true {} times", id, word, e.removed_true))
        }
        if !t.is_connection_oriented() && (word.contains('A') || word.contains('D') || word.contains('F')) {
            return Err(format!("udp remote {} got '{}'", id, word))
        }
    }
    Ok(())
}

fn run_scenarios(out: &mut impl std::io::Write, seed: u64, n: u64, only: Option<u64>) {
    // warm-up (lazy statics, allocator) before the descriptor baseline is taken
    {
        let mut w = World::new();
        let mut r = Rng::new(1);
        scenario_conn(&mut w, Transport::Tcp, &mut r);
    }
    const ENDINGS: u64 = 42; // 14 fixed endings x 3 stream transports, before the random scenarios
    for i in 0..n + ENDINGS {
        if only.map_or(false, |k| k != i) {
            continue
        }
        // every scenario has its own generator state, so that `net one <seed> <i>` replays scenario i alone
        let mut rng = Rng::new(seed ^ 0x9e7 ^ (i + 1).wrapping_mul(0x9E3779B97F4A7C15));
        let base = fds();
        let panics_before = panics();
        let fixed = i < ENDINGS;
        let t = if fixed {
            [Transport::Tcp, Transport::FramedTcp, Transport::Ws][(i % 3) as usize]
        }
        else {
            [Transport::Tcp, Transport::FramedTcp, Transport::Ws, Transport::Udp][((i - ENDINGS) % 4) as usize]
        };
        let mut w = World::new();
        w.configured = if fixed { (i / 3) % 2 == 1 } else { rng.chance(1, 3) };
        w.bad_keepalive = if fixed { i / 3 == 3 } else { rng.chance(1, 2) };
        let configured = w.configured;
        let fds_with_node = fds();
        let res = std::panic::catch_unwind(std::panic::AssertUnwindSafe(|| {
            if fixed {
                scenario_endings(&mut w, t, i / 3, &mut rng)
            }
            else if t == Transport::Udp {
                scenario_udp(&mut w, &mut rng)
            }
            else {
                scenario_conn(&mut w, t, &mut rng)
            }
        }));
        let fds_end = fds();
        let hist = std::mem::take(&mut w.hist);
        let leaks = std::mem::take(&mut w.leaks);
        // a panic inside the network code can leave poisoned locks behind: dropping the node may panic again
        let drop_res = std::panic::catch_unwind(std::panic::AssertUnwindSafe(move || drop(w)));
        let res = if drop_res.is_err() { Err(Box::new("panic while dropping the node") as Box<dyn std::any::Any + Send>) } else { res };
        let fds_after = fds();
        let items: Vec<Item> = hist.iter().filter(|it| it.adapter() == t.id()).cloned().collect();
        let case = format!("net hist {}", items.iter().map(|i| i.token()).collect::<Vec<_>>().join(" "));
        let mut verdict = oracle(&items, t);
        if res.is_err() || panics() > panics_before {
            verdict = Err("a panic escaped the network code".into());
        }
        if verdict.is_ok() && !leaks.is_empty() {
            verdict = Err(leaks[0].clone());
        }
        if verdict.is_ok() && fds_end != fds_with_node {
            verdict = Err(format!("open descriptors: {} after all resources ended, {} with the idle node", fds_end, fds_with_node));
        }
        if verdict.is_ok() && fds_after != base {
            verdict = Err(format!("descriptors after dropping the node: {} vs {}", fds_after, base));
        }
        let mut tags = vec![format!("{}", t)];
        if fixed {
            tags.push("ending".into());
        }
        if configured {
            tags.push("configured".into());
        }
        if items.iter().any(|i| matches!(i, Item::EvConnected(_, false))) {
            tags.push("refused".into());
        }
        if items.iter().any(|i| matches!(i, Item::EvDisconnected(_))) {
            tags.push("disconnected".into());
        }
        if items.iter().any(|i| matches!(i, Item::Remove(id, true) if id.is_remote())) {
            tags.push("removed".into());
        }
        if items.iter().any(|i| matches!(i, Item::Send(_, SendStatus::ResourceNotAvailable))) {
            tags.push("notavailable".into());
        }
        if items.iter().any(|i| matches!(i, Item::Send(_, SendStatus::MaxPacketSizeExceeded))) {
            tags.push("toobig".into());
        }
        emit(out, &case, "ok", &match verdict { Ok(()) => "ok".to_string(), Err(e) => format!("FAIL {}", e) }, &tags.join(","));
    }
}


/// C04: many threads call remove() on the same endpoints at once, while peers close them too
fn run_remove_race(out: &mut impl std::io::Write, t: Transport, n: usize, threads: usize) {
    use message_io::node::{self, NodeEvent};
    use std::sync::{Arc, Barrier, Mutex};
    let (handler, listener) = node::split::<()>();
    let disc: Arc<Mutex<Vec<ResourceId>>> = Arc::new(Mutex::new(vec![]));
    let acc: Arc<Mutex<Vec<Endpoint>>> = Arc::new(Mutex::new(vec![]));
    let (d2, a2) = (disc.clone(), acc.clone());
    let mut task = listener.for_each_async(move |e| {
        if let NodeEvent::Network(ev) = e {
            match ev {
                NetEvent::Disconnected(ep) => {
                    // a slow handler: a remove() racing this event must already lose
                    std::thread::sleep(Duration::from_micros(300));
                    d2.lock().unwrap().push(ep.resource_id())
                }
                NetEvent::Accepted(ep, _) => a2.lock().unwrap().push(ep),
                _ => {}
            }
        }
    });
    let (_lid, addr) = handler.network().listen(t, "127.0.0.1:0").unwrap();
    let mut eps = vec![];
    for _ in 0..n {
        if let Ok((ep, _)) = handler.network().connect_sync(t, addr) {
            eps.push(ep);
        }
    }
    std::thread::sleep(Duration::from_millis(100));
    let accepted: Vec<Endpoint> = acc.lock().unwrap().clone();
    // the accepted side of every second connection is removed by all threads at once, while the
    // connecting side of the same connection is removed too (so the peer's close races the removes)
    let barrier = Arc::new(Barrier::new(threads));
    let targets: Vec<ResourceId> = accepted.iter().map(|e| e.resource_id()).chain(eps.iter().map(|e| e.resource_id())).collect();
    let mut hs = vec![];
    for _ in 0..threads {
        let (h, b, targets) = (handler.clone(), barrier.clone(), targets.clone());
        hs.push(std::thread::spawn(move || {
            b.wait();
            targets.iter().map(|id| h.network().remove(*id)).collect::<Vec<bool>>()
        }));
    }
    let results: Vec<Vec<bool>> = hs.into_iter().map(|h| h.join().unwrap()).collect();
    std::thread::sleep(Duration::from_millis(150));
    let disc = disc.lock().unwrap().clone();
    let mut worst = 0;
    let mut bad = vec![];
    for (i, id) in targets.iter().enumerate() {
        let trues = results.iter().filter(|r| r[i]).count();
        let discs = disc.iter().filter(|d| *d == id).count();
        worst = worst.max(trues + discs);
        if trues + discs != 1 {
            bad.push(format!("{}: remove()=true x{}, Disconnected x{}", id, trues, discs));
        }
    }
    handler.stop();
    task.wait();
    let case = format!("net race {} {} {}", t, targets.len(), threads);
    emit(out, &case, &format!("max-ends-per-endpoint={}", worst), &if bad.is_empty() { "ok".to_string() } else { format!("FAIL {}", bad[0]) }, &format!("race,{},removed,disconnected", t));
}

fn main() {
    quiet_panics();
    let out = std::io::stdout();
    let mut out = std::io::BufWriter::new(out.lock());
    match arg(1).as_str() {
        "gen" => run_scenarios(&mut out, arg_u64(2, 1), arg_u64(3, 40), None),
        // one scenario of `gen <seed> <n>` alone, in its own process (used to locate a crash)
        "one" => run_scenarios(&mut out, arg_u64(2, 1), arg_u64(3, 40), Some(arg_u64(4, 0))),
        "gen-emfile" => {
            for t in [Transport::Tcp, Transport::FramedTcp, Transport::Ws] {
                let (c, i, o, tg) = run_emfile(t);
                emit(&mut out, &c, &i, &o, &tg);
            }
        }
        "gen-race" => {
            let n = arg_u64(2, 24) as usize;
            for t in [Transport::Tcp, Transport::FramedTcp, Transport::Ws] {
                run_remove_race(&mut out, t, n, 8);
            }
        }
        "run" => {
            // recorded histories depend on peer timing: they are re-judged as recorded
            for line in stdin_lines() {
                if let Some(name) = line.strip_prefix("net emfile ") {
                    let t = match name.trim() {
                        "Tcp" => Transport::Tcp,
                        "FramedTcp" => Transport::FramedTcp,
                        _ => Transport::Ws,
                    };
                    let (c, i, o, tg) = run_emfile(t);
                    emit(&mut out, &c, &i, &o, &tg);
                    continue
                }
                emit(&mut out, &line, "ok", "ok", "recorded");
            }
        }
        _ => eprintln!("usage: net gen <seed> <n> | run"),
    }
    let _ = (|s: &mut TcpStream| s.read(&mut [0u8; 1]));
}
