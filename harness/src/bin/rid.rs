//! C14 tie for M6: `ResourceId` bit layout, poll tokens, the id generator, transport/driver tables.
//!
//! Case lines: `rid acc <raw>` | `rid mk <adapter> <L|R> <base>` | `rid tok <raw>` |
//!             `rid gen <adapter> <L|R> <last> <n>`
use mio_harness::*;
use message_io::network::{self, ResourceId, ResourceType, Transport};
use message_io::network::verif_hooks::{
    ResourceIdGenerator, verif_token_of, verif_id_of_token, verif_waker_token,
};
use strum::IntoEnumIterator;
use std::panic::catch_unwind;

fn t_str(t: ResourceType) -> &'static str {
    match t {
        ResourceType::Local => "L",
        ResourceType::Remote => "R",
    }
}
fn parse_t(s: &str) -> Option<ResourceType> {
    match s {
        "L" => Some(ResourceType::Local),
        "R" => Some(ResourceType::Remote),
        _ => None,
    }
}

fn run(ws: &[&str]) -> (String, String, String) {
    let bad = || ("bad-case".to_string(), "ok".to_string(), String::new());
    match ws {
        ["conc", th, rounds] => {
            return match (th.parse::<usize>(), rounds.parse::<usize>()) {
                (Ok(t), Ok(r)) => run_conc(t, r),
                _ => bad(),
            }
        }
        ["acc", raw] => {
            let Ok(raw) = raw.parse::<u64>() else { return bad() };
            let id = ResourceId::from(raw as usize);
            let disp = Transport::iter()
                .find(|t| t.id() == id.adapter_id())
                .map(|t| t.to_string())
                .unwrap_or("unmounted".into());
            let imp = format!(
                "a={} t={} b={} disp={}",
                id.adapter_id(),
                t_str(id.resource_type()),
                id.base_value(),
                disp
            );
            // direct oracle: the three accessors partition the 64 bits
            let a = id.adapter_id() as u64;
            let t = if id.is_local() { 1u64 } else { 0 };
            let b = id.base_value() as u64;
            let mut ok = a < 128 && b < (1 << 56) && (a | (t << 7) | (b << 8)) == raw;
            ok &= id.is_local() != id.is_remote() && id.raw() as u64 == raw;
            ok &= format!("{}", id) == format!("[{}.{}.{}]", a, t_str(id.resource_type()), b);
            (imp, if ok { "ok" } else { "FAIL" }.into(), "acc".into())
        }
        ["mk", a, t, b] => {
            let (Ok(a), Some(t), Ok(b)) = (a.parse::<u8>(), parse_t(t), b.parse::<u64>()) else {
                return bad()
            };
            let r = catch_unwind(|| ResourceId::verif_new(a, t, b as usize));
            match r {
                Ok(id) => {
                    let ok = id.adapter_id() == a && id.resource_type() == t && id.base_value() as u64 == b;
                    (id.raw().to_string(), if ok { "ok" } else { "FAIL" }.into(), "mk".into())
                }
                Err(_) => {
                    let ok = a > ResourceId::MAX_ADAPTER_ID || b as usize > ResourceId::MAX_BASE_VALUE;
                    ("panic".into(), if ok { "ok" } else { "FAIL" }.into(), "mk,guard".into())
                }
            }
        }
        ["tok", raw] => {
            let Ok(raw) = raw.parse::<u64>() else { return bad() };
            let tok = verif_token_of(ResourceId::from(raw as usize));
            let back = verif_id_of_token(tok).raw();
            let waker = verif_waker_token();
            let imp = format!("tok={} back={} waker={}", tok, back, waker);
            let ok = raw >= (1 << 63) || (back as u64 == raw && tok != waker);
            (imp, if ok { "ok" } else { "FAIL" }.into(), if raw < (1 << 63) { "tok" } else { "tok,wrap" }.into())
        }
        ["gen", a, t, last, n] => {
            let (Ok(a), Some(t), Ok(last), Ok(n)) =
                (a.parse::<u8>(), parse_t(t), last.parse::<u64>(), n.parse::<usize>())
            else {
                return bad()
            };
            if n > 64 {
                return bad()
            }
            let g = ResourceIdGenerator::verif_with_last(a, t, last as usize);
            let mut outs = vec![];
            let mut ids = vec![];
            for _ in 0..n {
                match catch_unwind(std::panic::AssertUnwindSafe(|| g.generate())) {
                    Ok(id) => {
                        outs.push(id.raw().to_string());
                        ids.push(id);
                    }
                    Err(_) => outs.push("panic".into()),
                }
            }
            let mut ok = true;
            let in_domain = a <= ResourceId::MAX_ADAPTER_ID
                && (last as u128 + n as u128) <= ResourceId::MAX_BASE_VALUE as u128 + 1;
            if in_domain {
                ok &= ids.len() == n;
                let mut set = std::collections::HashSet::new();
                let mut prev: Option<usize> = None;
                for id in &ids {
                    ok &= set.insert(id.raw()) && id.adapter_id() == a && id.resource_type() == t;
                    // never reused: base values are handed out in strictly increasing order,
                    // starting no lower than the counter
                    ok &= match prev {
                        None => id.base_value() as u64 >= last,
                        Some(p) => id.base_value() > p,
                    };
                    prev = Some(id.base_value());
                }
            }
            (outs.join(" "), if ok { "ok" } else { "FAIL" }.into(), if in_domain { "gen" } else { "gen,edge" }.into())
        }
        _ => bad(),
    }
}

fn structured_raws(rng: &mut Rng, n: u64) -> Vec<u64> {
    let mut v = vec![0u64, 1, 127, 128, 129, 255, 256, 257, u64::MAX, u64::MAX - 1, 1 << 63, (1 << 63) - 1, (1 << 63) + 1];
    for i in 0..64 {
        v.push(1 << i);
        v.push(!(1u64 << i));
        v.push((1u64 << i).wrapping_sub(1));
    }
    for _ in 0..n {
        let bits = rng.range(1, 64);
        let mut x = rng.next() >> (64 - bits);
        if rng.chance(1, 3) {
            x = (x << 8) | rng.below(256);
        }
        v.push(x);
    }
    v
}

/// transport table + real dispatch through a live network instance (oracle only)
fn table_row(out: &mut impl std::io::Write) {
    let mut ok = true;
    let ts: Vec<Transport> = Transport::iter().collect();
    for (i, t) in ts.iter().enumerate() {
        ok &= (t.id() as usize) < ResourceId::MAX_ADAPTERS && t.id() <= ResourceId::MAX_ADAPTER_ID;
        ok &= catch_unwind(|| Transport::from(t.id()) == *t).unwrap_or(false);
        for u in &ts[i + 1..] {
            ok &= u.id() != t.id();
        }
    }
    let (controller, _processor) = network::split();
    let mut detail = vec![];
    for t in &ts {
        let (lid, addr) = controller.listen(*t, "127.0.0.1:0").unwrap();
        let (ep, _) = controller.connect(*t, addr).unwrap();
        let rid = ep.resource_id();
        ok &= lid.adapter_id() == t.id() && lid.is_local() && lid.base_value() == 0;
        ok &= rid.adapter_id() == t.id() && rid.is_remote() && rid.base_value() == 0;
        let (ep2, _) = controller.connect(*t, addr).unwrap();
        ok &= ep2.resource_id().base_value() == 1 && ep2.resource_id() != rid;
        detail.push(format!("{}:{}/{}", t, lid, rid));
        controller.remove(lid);
        controller.remove(rid);
        controller.remove(ep2.resource_id());
    }
    emit(out, "#table", &detail.join(" "), if ok { "ok" } else { "FAIL" }, "table");
}

/// `rid conc <threads> <rounds>`: registrations racing each other on one node — `threads` user threads
/// call connect() (Udp: cheap, same Remote registry; Tcp to the node's own listener, so that the accepts
/// on the network thread register into the same Tcp registry at the same time) and remove(); every id
/// ever handed out by connect() or reported by Accepted must be distinct, and remove() of a fresh id
/// of a fresh Udp id must return true (a duplicate id makes one of two removes fail)
fn run_conc(threads: usize, rounds: usize) -> (String, String, String) {
    use message_io::network::NetEvent;
    use message_io::node::{self, NodeEvent};
    use std::sync::{Arc, Barrier, Mutex};
    if threads == 0 || threads > 64 || rounds > 1_000_000 {
        return ("bad-case".into(), "ok".into(), String::new())
    }
    let (handler, listener) = node::split::<()>();
    let udp_peer = std::net::UdpSocket::bind("127.0.0.1:0").unwrap();
    let udp_addr = udp_peer.local_addr().unwrap();
    let (_lid, tcp_addr) = handler.network().listen(Transport::Tcp, "127.0.0.1:0").unwrap();
    let accepted: Arc<Mutex<Vec<ResourceId>>> = Arc::new(Mutex::new(vec![]));
    let acc2 = accepted.clone();
    let h2 = handler.clone();
    let task = listener.for_each_async(move |e| {
        if let NodeEvent::Network(NetEvent::Accepted(ep, _)) = e {
            acc2.lock().unwrap().push(ep.resource_id());
            h2.network().remove(ep.resource_id());
        }
    });
    let barrier = Arc::new(Barrier::new(threads));
    let mut hs = vec![];
    for t in 0..threads {
        let (h, b) = (handler.clone(), barrier.clone());
        hs.push(std::thread::spawn(move || {
            let mut ids = vec![];
            let mut failed_removes = 0usize;
            b.wait();
            for r in 0..rounds {
                // one thread in four (and every 16th round of the others) goes through Tcp
                let tcp = t % 4 == 3 || r % 16 == 15;
                let res = if tcp { h.network().connect(Transport::Tcp, tcp_addr) } else { h.network().connect(Transport::Udp, udp_addr) };
                if let Ok((ep, _)) = res {
                    ids.push(ep.resource_id());
                    if tcp {
                        // leave the connection alive for a moment so that the accept happens
                        if r % 4 == 0 {
                            std::thread::yield_now();
                        }
                    }
                    // a Tcp connect may already have failed and been deregistered by the processor
                    // (accept queue overflow under this load): only Udp removes must succeed
                    if !h.network().remove(ep.resource_id()) && !tcp {
                        failed_removes += 1;
                    }
                }
            }
            (ids, failed_removes)
        }));
    }
    let mut all: Vec<ResourceId> = vec![];
    let mut failed = 0;
    for h in hs {
        let (ids, f) = h.join().unwrap();
        all.extend(ids);
        failed += f;
    }
    std::thread::sleep(std::time::Duration::from_millis(100));
    handler.stop();
    drop(task);
    let connects = all.len();
    all.extend(accepted.lock().unwrap().iter().copied());
    let total = all.len();
    let mut seen = std::collections::HashSet::new();
    let dup = all.iter().filter(|id| !seen.insert(**id)).count();
    let ok = dup == 0 && failed == 0;
    (
        format!("dup={} failed_removes={}", dup, failed),
        if ok { "ok".into() } else { format!("FAIL {} of {} ids handed out more than once; {} remove() of a fresh id returned false", dup, total, failed) },
        format!("conc,ids{}k,accepted{}", connects / 1000, if total > connects { "+" } else { "0" }),
    )
}

fn main() {
    quiet_panics();
    let out = std::io::stdout();
    let mut out = std::io::BufWriter::new(out.lock());
    match arg(1).as_str() {
        "gen" => {
            let mut rng = Rng::new(arg_u64(2, 1));
            let n = arg_u64(3, 1000);
            table_row(&mut out);
            for (th, rounds) in [(8usize, if n >= 100000 { 100000 } else { 20000 }), (3, 1500)] {
                let (sa, sb) = (th.to_string(), rounds.to_string());
                let (imp, o, t) = run(&["conc", &sa, &sb]);
                emit(&mut out, &format!("rid conc {} {}", th, rounds), &imp, &o, &t);
            }
            for raw in structured_raws(&mut rng, n) {
                for kind in ["acc", "tok"] {
                    let c = format!("rid {} {}", kind, raw);
                    let s = raw.to_string();
                    let (imp, o, t) = run(&[kind, &s]);
                    emit(&mut out, &c, &imp, &o, &t);
                }
            }
            let bases = [0u64, 1, 255, 256, (1 << 55) - 1, 1 << 55, (1 << 56) - 1, 1 << 56, u64::MAX];
            for _ in 0..n / 2 {
                let a = if rng.chance(1, 8) { rng.range(120, 135) } else { rng.below(128) };
                let t = if rng.chance(1, 2) { "L" } else { "R" };
                let b = if rng.chance(1, 3) { *rng.pick(&bases) } else { rng.next() >> rng.range(8, 63) };
                let (sa, sb) = (a.to_string(), b.to_string());
                let (imp, o, tg) = run(&["mk", &sa, t, &sb]);
                emit(&mut out, &format!("rid mk {} {} {}", a, t, b), &imp, &o, &tg);
            }
            for _ in 0..n / 8 + 4 {
                let a = rng.below(128);
                let t = if rng.chance(1, 2) { "L" } else { "R" };
                let last = match rng.below(7) {
                    0 => 0,
                    4 => (1u64 << *rng.pick(&[8u64, 16, 32, 48])) - rng.range(1, 6),
                    5 => (1u64 << rng.range(8, 55)) - rng.range(1, 6),
                    6 => (1u64 << *rng.pick(&[8u64, 16, 32])) + rng.below(3),
                    1 => (1u64 << 56) - rng.range(1, 6),
                    2 => rng.below(1000),
                    _ => rng.next() >> 9,
                };
                let n = rng.range(1, 12);
                let (sa, sl, sn) = (a.to_string(), last.to_string(), n.to_string());
                let (imp, o, tg) = run(&["gen", &sa, t, &sl, &sn]);
                emit(&mut out, &format!("rid gen {} {} {} {}", a, t, last, n), &imp, &o, &tg);
            }
        }
        "run" => {
            for line in stdin_lines() {
                let ws: Vec<&str> = line.split(' ').collect();
                if ws.first() == Some(&"rid") {
                    let (imp, o, t) = run(&ws[1..]);
                    emit(&mut out, &line, &imp, &o, &t);
                }
                else {
                    emit(&mut out, &line, "bad-case", "ok", "");
                }
            }
        }
        _ => eprintln!("usage: rid gen <seed> <n> | run"),
    }
}
