//! Dump, as the compiler sees them, every constant and table the Lean models depend on.
//! `./check` turns this into lean/MioModel/Generated.lean on every run.
use message_io::network::{ResourceId, Transport};
use message_io::adapters::{tcp, udp, ws};
use message_io::util::encoding;
use strum::IntoEnumIterator;

fn main() {
    println!("maxEncodedSize {}", encoding::MAX_ENCODED_SIZE);
    println!("tcpInputBufferSize {}", tcp::INPUT_BUFFER_SIZE);
    println!("udpMaxLocalPayloadLen {}", udp::MAX_LOCAL_PAYLOAD_LEN);
    println!("udpMaxInternetPayloadLen {}", udp::MAX_INTERNET_PAYLOAD_LEN);
    println!("wsMaxPayloadLen {}", ws::MAX_PAYLOAD_LEN);
    println!("maxBaseValue {}", ResourceId::MAX_BASE_VALUE);
    println!("maxAdapterId {}", ResourceId::MAX_ADAPTER_ID);
    println!("maxAdapters {}", ResourceId::MAX_ADAPTERS);
    for t in Transport::iter() {
        let id = t.id();
        let from = std::panic::catch_unwind(|| format!("{}", Transport::from(id)))
            .unwrap_or_else(|_| "PANIC".into());
        println!(
            "transport {} {} {} {} {} {}",
            t,
            id,
            t.max_message_size(),
            t.is_connection_oriented(),
            t.is_packet_based(),
            from
        );
    }
}
