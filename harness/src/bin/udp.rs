//! C12 tie for M8: scripted UDP worlds over `network::split()` (listeners, connected sockets) and raw
//! `std::net::UdpSocket` peers on loopback, pumped on the calling thread.
//!
//! case line: `udp e2e <ops…>` with
//!   `L` new library listener · `R` new raw peer · `C<j>` new library socket connected to socket j
//!   `s<i>:<n>:<seed>`      connected library socket i sends n bytes (to its peer)
//!   `f<i>><j>:<n>:<seed>`  listener i sends to socket j through `Endpoint::from_listener(id_i, addr_j)`
//!   `r<i>><j>:<n>:<seed>`  listener i replies through the endpoint last reported in an event from j
//!   `x<i>><j>:<n>:<seed>`  raw peer i does `send_to(addr_j)`
//!   `w`                    pump the processor until quiet; raw peers read everything they have
//!   `v6` (first op only)   every socket of this world lives on IPv6 loopback ([::1]); default IPv4
//! sockets are numbered in creation order; payload byte k is `(seed + 7k + k/256) mod 256`.
//! output: `st=[…] <recv><<src>:[payloads…] …` grouped by (receiver, source), order kept inside a group.
//! The direct oracle recomputes, from the script alone, which datagrams each receiver must get from
//! each source, and compares bytes, counts, order and the endpoint of every event.
use message_io::network::{self, Endpoint, NetEvent, NetworkController, NetworkProcessor, ResourceId, SendStatus, Transport, TransportConnect};
use message_io::adapters::udp::UdpConnectConfig;
use mio_harness::*;
use std::collections::BTreeMap;
use std::io::Write;
use std::net::{SocketAddr, UdpSocket};
use std::time::Duration;

fn payload(n: usize, seed: u64) -> Vec<u8> {
    (0..n).map(|k| ((seed as usize + 7 * k + k / 256) % 256) as u8).collect()
}

enum Sock {
    L { id: ResourceId, addr: SocketAddr },
    C { ep: Endpoint, addr: SocketAddr, peer: usize },
    R { sock: Option<UdpSocket>, addr: SocketAddr }, // None: the peer went away (k), its address is kept for `o`
}
impl Sock {
    fn addr(&self) -> SocketAddr {
        match self {
            Sock::L { addr, .. } | Sock::C { addr, .. } | Sock::R { addr, .. } => *addr,
        }
    }
    fn accepts(&self, src: usize) -> bool {
        match self {
            Sock::C { peer, .. } => *peer == src,
            _ => true,
        }
    }
}

fn st_str(s: SendStatus) -> &'static str {
    match s {
        SendStatus::Sent => "S",
        SendStatus::MaxPacketSizeExceeded => "M",
        SendStatus::ResourceNotFound => "NF",
        SendStatus::ResourceNotAvailable => "NA",
    }
}

struct World {
    ctl: NetworkController,
    proc_: NetworkProcessor,
    socks: Vec<Sock>,
    statuses: Vec<&'static str>,
    got: BTreeMap<(usize, usize), Vec<Vec<u8>>>,
    want: BTreeMap<(usize, usize), Vec<Vec<u8>>>,
    // the pump (`w`) by which each datagram was delivered / must have been delivered
    got_at: BTreeMap<(usize, usize), Vec<usize>>,
    want_by: BTreeMap<(usize, usize), Vec<usize>>,
    pumps_done: usize,
    last_ep: BTreeMap<(usize, usize), Endpoint>,
    fails: Vec<String>,
    tags: std::collections::BTreeSet<&'static str>,
    v6: bool,
    pending_err: std::collections::HashSet<usize>,
}

fn parse3(s: &str) -> Option<(usize, Option<usize>, usize, u64)> {
    let mut it = s.split(':');
    let who = it.next()?;
    let n: usize = it.next()?.parse().ok()?;
    let seed: u64 = it.next()?.parse().ok()?;
    if it.next().is_some() {
        return None
    }
    match who.split_once('>') {
        Some((a, b)) => Some((a.parse().ok()?, Some(b.parse().ok()?), n, seed)),
        None => Some((who.parse().ok()?, None, n, seed)),
    }
}

impl World {
    fn new() -> World {
        let (ctl, proc_) = network::split();
        World {
            ctl,
            proc_,
            socks: vec![],
            statuses: vec![],
            got: BTreeMap::new(),
            want: BTreeMap::new(),
            got_at: BTreeMap::new(),
            want_by: BTreeMap::new(),
            pumps_done: 0,
            last_ep: BTreeMap::new(),
            fails: vec![],
            tags: Default::default(),
            v6: false,
            pending_err: Default::default(),
        }
    }
    fn any_addr(&self) -> &'static str {
        if self.v6 { "[::1]:0" } else { "127.0.0.1:0" }
    }
    fn index_of_addr(&self, a: SocketAddr) -> Option<usize> {
        self.socks.iter().position(|s| s.addr() == a)
    }
    fn index_of_id(&self, id: ResourceId) -> Option<usize> {
        self.socks.iter().position(|s| match s {
            Sock::L { id: i, .. } => *i == id,
            Sock::C { ep, .. } => ep.resource_id() == id,
            _ => false,
        })
    }
    fn note_send(&mut self, src: usize, dst: usize, mut data: Vec<u8>, sent: bool, lib: bool) {
        if data.is_empty() {
            self.tags.insert("zero");
        }
        if data.len() == network::Transport::Udp.max_message_size() {
            self.tags.insert("max");
        }
        let max = network::Transport::Udp.max_message_size();
        if data.len() > max {
            self.tags.insert("over");
            if sent && lib {
                self.fails.push(format!("{} bytes reported as sent", data.len()));
            }
            if sent && !lib && dst < self.socks.len() && !matches!(self.socks[dst], Sock::R { .. }) {
                // a foreign IPv6 datagram above the declared maximum (outside the property's sizes):
                // the library's receive buffer holds the declared maximum
                self.tags.insert("foreign-oversize");
                data.truncate(max);
            }
        }
        else if !sent {
            // legitimate only for a connected socket with a bounce pending (ECONNREFUSED reported once)
            if !(lib && self.pending_err.remove(&src)) {
                self.fails.push(format!("{} bytes from {} to {} not sent", data.len(), src, dst));
            }
        }
        else if lib && self.pending_err.remove(&src) {
            // reported as Sent although the kernel refused it: it will be missing at the receiver
            self.tags.insert("sent-while-error-pending");
        }
        let dst_alive = dst < self.socks.len() && !matches!(self.socks[dst], Sock::R { sock: None, .. });
        if sent && !dst_alive && lib && matches!(self.socks[src], Sock::C { .. }) {
            self.pending_err.insert(src);
        }
        if sent && dst_alive {
            if self.socks[dst].accepts(src) {
                self.want.entry((dst, src)).or_default().push(data);
                self.want_by.entry((dst, src)).or_default().push(self.pumps_done + 1);
            }
            else {
                self.tags.insert("filtered");
            }
        }
    }
    /// false = the op cannot be executed in this world (bad case)
    fn exec(&mut self, op: &str) -> bool {
        let (kind, rest) = op.split_at(1);
        match kind {
            "v" if rest == "6" && self.socks.is_empty() => {
                self.v6 = true;
                self.tags.insert("ipv6");
            }
            "L" if rest.is_empty() => match self.ctl.listen(Transport::Udp, self.any_addr()) {
                Ok((id, addr)) => self.socks.push(Sock::L { id, addr }),
                Err(_) => return false,
            },
            // a listener configured with receive_broadcasts: on Linux a different receive path
            // (recvmsg + packet info + ingress address filter, socket bound to the device)
            "B" if rest.is_empty() => {
                use message_io::adapters::udp::UdpListenConfig;
                use message_io::network::TransportListen;
                let cfg = UdpListenConfig::default().with_receive_broadcasts();
                let addr: SocketAddr = self.any_addr().parse().unwrap();
                match self.ctl.listen_with(TransportListen::Udp(cfg), addr) {
                    Ok((id, bound)) => {
                        // bound to the unspecified address: peers reach it through the loopback address
                        let reach = SocketAddr::new(addr.ip(), bound.port());
                        self.socks.push(Sock::L { id, addr: reach });
                        self.tags.insert("broadcast-listener");
                    }
                    Err(_) => return false,
                }
            }
            // a raw peer on another loopback address (127.0.0.2): its datagrams arrive on 127.0.0.1 but come
            // from elsewhere, so "the address the datagram arrived on" and "the sender" differ
            "Q" if rest.is_empty() && !self.v6 => {
                let sock = match UdpSocket::bind("127.0.0.2:0") {
                    Ok(s) => s,
                    Err(_) => return false,
                };
                sock.set_nonblocking(true).unwrap();
                let addr = sock.local_addr().unwrap();
                self.tags.insert("other-source-ip");
                self.socks.push(Sock::R { sock: Some(sock), addr });
            }
            "R" if rest.is_empty() => {
                let sock = match UdpSocket::bind(self.any_addr()) {
                    Ok(s) => s,
                    Err(_) => return false,
                };
                sock.set_nonblocking(true).unwrap();
                let addr = sock.local_addr().unwrap();
                self.socks.push(Sock::R { sock: Some(sock), addr });
            }
            "C" | "c" => {
                let j: usize = match rest.parse() {
                    Ok(j) if j < self.socks.len() => j,
                    _ => return false,
                };
                // the default source address is 0.0.0.0:0: an IPv6 peer needs an IPv6 source
                let res = if self.v6 {
                    let cfg = UdpConnectConfig::default().with_source_address("[::1]:0".parse().unwrap());
                    self.ctl.connect_with(TransportConnect::Udp(cfg), self.socks[j].addr())
                }
                else {
                    self.ctl.connect(Transport::Udp, self.socks[j].addr())
                };
                match res {
                    Ok((ep, addr)) => {
                        self.socks.push(Sock::C { ep, addr, peer: j });
                        // usable once its Connected event has been processed (C03/C13); `c`: do not
                        // poll yet, so that datagrams can arrive before the first event of the resource
                        let mut tries = if kind == "c" { 100 } else { 0 };
                        if kind == "c" {
                            self.tags.insert("before-first-poll");
                        }
                        while self.ctl.is_ready(ep.resource_id()) != Some(true) && tries < 100 {
                            self.pump_once();
                            tries += 1;
                        }
                    }
                    Err(_) => return false,
                }
            }
            "s" => {
                let (i, j, n, seed) = match parse3(rest) {
                    Some(x) => x,
                    None => return false,
                };
                if j.is_some() || i >= self.socks.len() {
                    return false
                }
                let (ep, peer) = match &self.socks[i] {
                    Sock::C { ep, peer, .. } => (*ep, *peer),
                    _ => return false,
                };
                let data = payload(n, seed);
                let st = self.ctl.send(ep, &data);
                self.statuses.push(st_str(st));
                self.note_send(i, peer, data, st == SendStatus::Sent, true);
            }
            "f" | "r" => {
                let (i, j, n, seed) = match parse3(rest) {
                    Some((i, Some(j), n, seed)) => (i, j, n, seed),
                    _ => return false,
                };
                if i >= self.socks.len() || j >= self.socks.len() {
                    return false
                }
                let id = match &self.socks[i] {
                    Sock::L { id, .. } => *id,
                    _ => return false,
                };
                let built = Endpoint::from_listener(id, self.socks[j].addr());
                let ep = if kind == "f" {
                    self.tags.insert("from_listener");
                    built
                }
                else {
                    self.tags.insert("reply");
                    match self.last_ep.get(&(i, j)) {
                        Some(ep) => {
                            if *ep != built {
                                self.fails.push(format!("reported endpoint {:?} differs from from_listener {:?}", ep, built));
                            }
                            *ep
                        }
                        // a datagram from j was sent to this listener and a pump followed, yet no event carried
                        // j's address: the reply goes to the address from_listener builds, and the case fails
                        None if self.want_by.get(&(i, j)).map_or(false, |v| v.iter().any(|p| *p <= self.pumps_done)) => {
                            self.fails.push(format!("no event from sender {} was reported to listener {} to reply to", j, i));
                            built
                        }
                        None => return false,
                    }
                };
                if matches!(self.socks[j], Sock::C { .. }) {
                    self.tags.insert("to-connected");
                }
                let data = payload(n, seed);
                let st = self.ctl.send(ep, &data);
                self.statuses.push(st_str(st));
                self.note_send(i, j, data, st == SendStatus::Sent, true);
            }
            "x" => {
                let (i, j, n, seed) = match parse3(rest) {
                    Some((i, Some(j), n, seed)) => (i, j, n, seed),
                    _ => return false,
                };
                if i >= self.socks.len() || j >= self.socks.len() {
                    return false
                }
                let dst = self.socks[j].addr();
                let data = payload(n, seed);
                let res = match &self.socks[i] {
                    Sock::R { sock: Some(sock), .. } => sock.send_to(&data, dst),
                    _ => return false,
                };
                let sent = match res {
                    Ok(k) => {
                        if k != data.len() {
                            self.fails.push(format!("raw send_to wrote {} of {}", k, data.len()));
                        }
                        true
                    }
                    Err(e) if e.raw_os_error() == Some(libc::EMSGSIZE) => false,
                    Err(e) => {
                        self.fails.push(format!("raw send_to: {}", e));
                        false
                    }
                };
                self.statuses.push(if sent { "S" } else { "M" });
                if matches!(self.socks[j], Sock::C { .. }) {
                    self.tags.insert("to-connected");
                }
                self.note_send(i, j, data, sent, false);
            }
            // a stray datagram: from raw socket i to the *port* of socket j at another local address
            // (127.0.0.2), where nothing is bound.  A receive_broadcasts listener (bound to the wildcard address)
            // does get it from the kernel and must skip it; nobody may ever report it.
            "y" if !self.v6 => {
                let (i, j, n, seed) = match parse3(rest) {
                    Some((i, Some(j), n, seed)) => (i, j, n, seed),
                    _ => return false,
                };
                if i >= self.socks.len() || j >= self.socks.len() || n > 1000 {
                    return false
                }
                let dst: SocketAddr = format!("127.0.0.2:{}", self.socks[j].addr().port()).parse().unwrap();
                let data = payload(n, seed);
                match &self.socks[i] {
                    Sock::R { sock: Some(sock), .. } => {
                        let _ = sock.send_to(&data, dst);
                    }
                    _ => return false,
                }
                self.statuses.push("S");
                self.tags.insert("stray");
            }
            "w" if rest.is_empty() => self.pump(),
            "k" | "o" => {
                let j: usize = match rest.parse() {
                    Ok(j) if j < self.socks.len() => j,
                    _ => return false,
                };
                if kind == "k" {
                    // the peer reads what it has, then goes away
                    self.pump_inner();
                    match &mut self.socks[j] {
                        Sock::R { sock, .. } if sock.is_some() => *sock = None,
                        _ => return false,
                    }
                    self.tags.insert("absent-peer");
                }
                else {
                    match &mut self.socks[j] {
                        Sock::R { sock, addr } if sock.is_none() => match UdpSocket::bind(*addr) {
                            Ok(s) => {
                                s.set_nonblocking(true).unwrap();
                                *sock = Some(s);
                            }
                            Err(_) => return false,
                        },
                        _ => return false,
                    }
                }
            }
            _ => return false,
        }
        true
    }
    fn pump(&mut self) {
        self.pump_inner();
        self.pumps_done += 1;
    }
    fn pump_inner(&mut self) {
        let mut quiet = 0;
        let mut rounds = 0;
        while quiet < 2 && rounds < 200 {
            rounds += 1;
            if self.pump_once() {
                quiet = 0;
            }
            else {
                quiet += 1;
            }
        }
    }
    fn pump_once(&mut self) -> bool {
        {
            let mut evs: Vec<(Endpoint, Vec<u8>)> = vec![];
            self.proc_.process_poll_events_until_timeout(Duration::from_millis(3), |ev| {
                if let NetEvent::Message(ep, data) = ev {
                    evs.push((ep, data.to_vec()));
                }
            });
            let mut any = !evs.is_empty();
            for (ep, data) in evs {
                // endpoints of different senders are different endpoints (also for one listener, whose peers
                // all share its resource id): equality and hashing must tell them apart
                {
                    use std::hash::{Hash, Hasher};
                    let h = |e: &Endpoint| {
                        let mut s = std::collections::hash_map::DefaultHasher::new();
                        e.hash(&mut s);
                        s.finish()
                    };
                    for old in self.last_ep.values() {
                        if old.addr() != ep.addr() && *old == ep {
                            self.fails.push(format!("endpoints {:?} and {:?} compare equal", old, ep));
                        }
                        if old.addr() == ep.addr() && old.resource_id() == ep.resource_id() && (*old != ep || h(old) != h(&ep)) {
                            self.fails.push(format!("equal endpoints {:?} compare or hash differently", ep));
                        }
                    }
                }
                let recv = self.index_of_id(ep.resource_id());
                let src = self.index_of_addr(ep.addr());
                match (recv, src) {
                    (Some(r), Some(s)) => {
                        self.got.entry((r, s)).or_default().push(data);
                        self.got_at.entry((r, s)).or_default().push(self.pumps_done + 1);
                        self.last_ep.insert((r, s), ep);
                    }
                    _ => self.fails.push(format!("event with unknown endpoint {:?}", ep)),
                }
            }
            let mut buf = vec![0u8; 70000];
            for i in 0..self.socks.len() {
                if let Sock::R { sock: Some(sock), .. } = &self.socks[i] {
                    loop {
                        match sock.recv_from(&mut buf) {
                            Ok((n, from)) => {
                                any = true;
                                match self.socks.iter().position(|s| s.addr() == from) {
                                    Some(s) => {
                                        self.got.entry((i, s)).or_default().push(buf[..n].to_vec());
                                        self.got_at.entry((i, s)).or_default().push(self.pumps_done + 1);
                                    }
                                    None => self.fails.push(format!("raw peer {} got a datagram from unknown {}", i, from)),
                                }
                            }
                            Err(_) => break,
                        }
                    }
                }
            }
            any
        }
    }
    fn finish(mut self) -> (String, String, String) {
        self.pump();
        for (k, w) in &self.want {
            let g = self.got.get(k).cloned().unwrap_or_default();
            if &g != w {
                let what = if g.len() < w.len() {
                    "missing"
                }
                else if g.len() > w.len() {
                    "extra"
                }
                else {
                    "different bytes/order"
                };
                self.fails.push(format!("receiver {} from {}: {} (got {} want {})", k.0, k.1, what, show_outs(&g), show_outs(w)));
            }
        }
        for (k, by) in &self.want_by {
            let at = self.got_at.get(k).cloned().unwrap_or_default();
            if let Some(i) = (0..by.len().min(at.len())).find(|&i| at[i] > by[i]) {
                self.fails.push(format!("receiver {} from {}: datagram #{} was sent before pump {} but delivered only by pump {} (stranded until later traffic)", k.0, k.1, i, by[i], at[i]));
            }
        }
        for (k, g) in &self.got {
            if !self.want.contains_key(k) {
                self.fails.push(format!("receiver {} got {} from {} which never sent to it", k.0, show_outs(g), k.1));
            }
        }
        let mut per_recv: BTreeMap<usize, usize> = BTreeMap::new();
        for (k, _) in &self.want {
            *per_recv.entry(k.0).or_default() += 1;
        }
        if per_recv.values().any(|n| *n >= 2) {
            self.tags.insert("multi-sender");
        }
        let groups: Vec<String> = self
            .got
            .iter()
            .map(|(k, v)| {
                let at = self.got_at.get(k).cloned().unwrap_or_default();
                let items: Vec<String> = v.iter().enumerate().map(|(i, p)| format!("{}@{}", show_payload(p), at.get(i).copied().unwrap_or(0))).collect();
                format!("{}<{}:[{}]", k.0, k.1, items.join(","))
            })
            .collect();
        let imp = format!("st=[{}] {}", self.statuses.join(","), groups.join(" "));
        let oracle = if self.fails.is_empty() { "ok".to_string() } else { format!("FAIL {}", self.fails.join("; ")) };
        (imp, oracle, self.tags.into_iter().collect::<Vec<_>>().join(","))
    }
}

fn run_case(ops: &[&str]) -> (String, String, String) {
    let mut w = World::new();
    for op in ops {
        if op.is_empty() || !w.exec(op) {
            return ("bad-case".into(), "ok".into(), "".into())
        }
    }
    w.finish()
}

/// `Endpoint::from_listener` guard: which ids it accepts
fn run_fl(kind: &str) -> (String, String, String) {
    let (ctl, _proc) = network::split();
    let addr: SocketAddr = "127.0.0.1:9".parse().unwrap();
    let (id, expect_ok) = match kind {
        "Udp-local" => (ctl.listen(Transport::Udp, "127.0.0.1:0").unwrap().0, true),
        "Udp-remote" => (ctl.connect(Transport::Udp, "127.0.0.1:9").unwrap().0.resource_id(), false),
        "Tcp-local" => (ctl.listen(Transport::Tcp, "127.0.0.1:0").unwrap().0, false),
        "FramedTcp-local" => (ctl.listen(Transport::FramedTcp, "127.0.0.1:0").unwrap().0, false),
        "Ws-local" => (ctl.listen(Transport::Ws, "127.0.0.1:0").unwrap().0, false),
        _ => return ("bad-case".into(), "ok".into(), "".into()),
    };
    let r = std::panic::catch_unwind(|| Endpoint::from_listener(id, addr));
    let imp = match &r {
        Ok(ep) if ep.resource_id() == id && ep.addr() == addr => "some",
        Ok(_) => "some-other",
        Err(_) => "none",
    };
    let oracle = if (imp == "some") == expect_ok { "ok".to_string() } else { format!("FAIL from_listener on {} answered {}", kind, imp) };
    (imp.into(), oracle, "guard".into())
}

/// can this process create a listener with receive_broadcasts (needs SO_BINDTODEVICE)?
fn broadcast_listener_available() -> bool {
    use message_io::adapters::udp::UdpListenConfig;
    use message_io::network::TransportListen;
    let (ctl, _p) = network::split();
    ctl.listen_with(TransportListen::Udp(UdpListenConfig::default().with_receive_broadcasts()), "127.0.0.1:0".parse::<SocketAddr>().unwrap()).is_ok()
}

fn pick_size(rng: &mut Rng, v6: bool) -> usize {
    let max = network::Transport::Udp.max_message_size();
    if v6 && rng.chance(1, 4) {
        // the window in which the IPv6 kernel limit (65527) and the declared maximum (65507) differ
        return *rng.pick(&[max + 1, max + 2, max + 10, max + 19, max + 20, max + 21, max + 22])
    }
    match rng.below(100) {
        0..=14 => *rng.pick(&[0usize, 0, 1, 2]),
        15..=44 => rng.range(1, 64) as usize,
        45..=59 => rng.range(1465, 1480) as usize,
        60..=69 => *rng.pick(&[8191usize, 8192, 8193, 9188, 9216, 16384, 32768]),
        70..=84 => *rng.pick(&[max, max, max - 1, max - 2, 65000, 60000]),
        85..=92 => *rng.pick(&[max + 1, max + 2, 65535, 65536, 70000]),
        _ => rng.range(65, 70000) as usize,
    }
}

/// one random world: the generator simulates deliveries so that replies are only asked for senders
/// that have been heard, and paces the sends so that no receive buffer can overflow
fn gen_case(rng: &mut Rng, v6: bool, bcast: bool) -> String {
    #[derive(Clone, Copy, PartialEq)]
    enum K {
        L,
        R,
        C(usize),
    }
    let max = network::Transport::Udp.max_message_size();
    let mut ops: Vec<String> = vec![];
    let mut kinds: Vec<K> = vec![];
    let nl = rng.range(1, 2);
    for _ in 0..nl {
        kinds.push(K::L);
        ops.push(if bcast && rng.chance(1, 3) { "B".into() } else { "L".into() });
    }
    for _ in 0..rng.range(1, 3) {
        kinds.push(K::R);
        ops.push("R".into());
    }
    for _ in 0..rng.range(1, 3) {
        let j = rng.below(kinds.len() as u64) as usize;
        if matches!(kinds[j], K::C(_)) {
            continue
        }
        kinds.push(K::C(j));
        ops.push(format!("C{}", j));
    }
    let n = kinds.len();
    let mut heard: std::collections::BTreeSet<(usize, usize)> = Default::default();
    for _round in 0..rng.range(2, 6) {
        let mut bytes = vec![0usize; n];
        let mut count = vec![0usize; n];
        let mut pending: Vec<(usize, usize)> = vec![];
        for _ in 0..rng.range(1, 8) {
            let i = rng.below(n as u64) as usize;
            let size = pick_size(rng, v6);
            let seed = rng.below(256);
            let (dst, tok) = match kinds[i] {
                K::C(p) => (p, format!("s{}:{}:{}", i, size, seed)),
                K::R => {
                    let j = rng.below(n as u64) as usize;
                    (j, format!("x{}>{}:{}:{}", i, j, size, seed))
                }
                K::L => {
                    let j = rng.below(n as u64) as usize;
                    if heard.contains(&(i, j)) && rng.chance(2, 3) {
                        (j, format!("r{}>{}:{}:{}", i, j, size, seed))
                    }
                    else {
                        (j, format!("f{}>{}:{}:{}", i, j, size, seed))
                    }
                }
            };
            if dst == i {
                continue
            }
            // pacing: at most ~64 KiB and 12 datagrams queued at one receiver between two pumps
            let kmax = if v6 { max + 20 } else { max };
            let goes = if matches!(kinds[i], K::R) { size <= kmax } else { size <= max };
            if goes && (bytes[dst] + size + 1024 > 67000 + 20 || count[dst] >= 12) {
                continue
            }
            if goes {
                bytes[dst] += size + 1024;
                count[dst] += 1;
                let accepted = match kinds[dst] {
                    K::C(p) => p == i,
                    _ => true,
                };
                if accepted {
                    pending.push((dst, i));
                }
            }
            ops.push(tok);
        }
        ops.push("w".into());
        for p in pending {
            heard.insert(p);
        }
    }
    format!("udp e2e {}{}", if v6 { "v6 " } else { "" }, ops.join(" "))
}

/// systematic size sweep: every size in [from, to] with the given stride through the four paths
/// (connected -> listener, raw -> listener, listener -> raw, listener -> connected), one pump per size
/// group so that nothing can overflow
fn gen_sweep(out: &mut impl Write, from: usize, to: usize, stride: usize, per_line: usize, threads: usize, v6: bool) {
    let mut sizes: Vec<usize> = (from..=to).step_by(stride.max(1)).collect();
    let max = network::Transport::Udp.max_message_size();
    for s in [0usize, 1, max - 1, max, max + 1] {
        if s >= from && s <= to + 1 && !sizes.contains(&s) {
            sizes.push(s);
        }
    }
    let lines: Vec<Vec<String>> = sizes
        .chunks(per_line)
        .map(|chunk| {
            let mut ops: Vec<String> = vec!["L".into(), "R".into(), "C0".into()];
            if v6 {
                ops.insert(0, "v6".into());
            }
            let mut budget = 0usize;
            for (k, n) in chunk.iter().enumerate() {
                let seed = (n * 31 + k) % 256;
                if budget + n + 1024 > 60000 {
                    ops.push("w".into());
                    budget = 0;
                }
                budget += n + 1024;
                ops.push(format!("s2:{}:{}", n, seed));
                ops.push(format!("x1>0:{}:{}", n, (seed + 1) % 256));
                ops.push(format!("f0>1:{}:{}", n, (seed + 2) % 256));
                ops.push(format!("f0>2:{}:{}", n, (seed + 3) % 256));
            }
            ops.push("w".into());
            ops
        })
        .collect();
    // independent worlds: run them on several threads (each has its own sockets and poller)
    let threads = threads.max(1).min(lines.len().max(1));
    let per = (lines.len() + threads - 1) / threads;
    let results: Vec<Vec<(String, String, String, String)>> = std::thread::scope(|sc| {
        let hs: Vec<_> = lines
            .chunks(per.max(1))
            .map(|part| {
                sc.spawn(move || {
                    part.iter()
                        .map(|ops| {
                            let toks: Vec<&str> = ops.iter().map(|s| s.as_str()).collect();
                            let (imp, oracle, tags) = run_case(&toks);
                            (format!("udp e2e {}", ops.join(" ")), imp, oracle, format!("{},sweep", tags))
                        })
                        .collect::<Vec<_>>()
                })
            })
            .collect();
        hs.into_iter().map(|h| h.join().unwrap()).collect()
    });
    for part in results {
        for (case, imp, oracle, tags) in part {
            emit(out, &case, &imp, &oracle, &tags);
        }
    }
}

const CORPUS: &[&str] = &[
    // zero-length datagrams in every direction
    "udp e2e L R C0 s2:0:0 x1>0:0:0 w f0>1:0:0 f0>2:0:0 r0>1:0:0 r0>2:0:0 w",
    // the exact maximum in every direction, then one byte more
    "udp e2e L R C0 s2:65507:1 w x1>0:65507:2 w f0>1:65507:3 f0>2:65507:4 w s2:65508:5 f0>1:65508:6 x1>0:65508:7 w",
    // three senders, one listener, interleaved; replies to each through the reported endpoints
    "udp e2e L R R C0 x1>0:3:1 x2>0:3:2 s3:3:3 x1>0:4:4 x2>0:4:5 s3:4:6 w r0>1:5:7 r0>2:5:8 r0>3:5:9 w",
    // a connected socket only hears its peer
    "udp e2e L L R C0 f1>3:9:1 x2>3:9:2 f0>3:9:3 w",
    // two listeners talking to each other through from_listener endpoints
    "udp e2e L L f0>1:10:1 f1>0:11:2 w r0>1:12:3 r1>0:13:4 w",
    // a library socket connected to a raw peer, both directions
    "udp e2e R C0 s1:20:1 s1:1472:2 s1:1473:3 w x0>1:30:4 x0>1:0:5 w",
    // a sender on another loopback address, to a plain listener and to a connected socket's peer
    "udp e2e L Q R x1>0:5:1 x2>0:6:2 w r0>1:7:3 r0>2:8:4 f0>1:9:5 w",
    // datagrams that reach a connected socket before its first poll event has been processed
    "udp e2e R c0 x0>1:10:1 x0>1:0:2 x0>1:65507:3 w s1:4:4 w",
    "udp e2e L c0 f0>1:7:1 f0>1:8:2 w s1:3:3 f0>1:9:4 w",
    // a connected socket whose raw peer goes away: the first send bounces (Sent), the next one reports the
    // pending error (ResourceNotFound, nothing transmitted) although the peer is back, the third arrives
    "udp e2e R C0 s1:5:1 w k0 s1:6:2 w o0 s1:7:3 s1:8:4 s1:0:5 w x0>1:9:6 w",
    "udp e2e L R C1 x1>2:3:1 s2:4:2 w k1 s2:5:3 w s2:6:4 w o1 s2:7:5 w s2:8:6 x1>2:2:7 w",
    // IPv6: the kernel takes 65527 bytes, the library's declared maximum stays 65507 on both send paths
    "udp e2e v6 L R C0 s2:65507:1 w s2:65508:2 s2:65527:3 s2:65528:4 f0>1:65508:5 f0>1:65527:6 f0>2:65508:7 w f0>1:65507:8 w x1>0:65507:9 w",
    // IPv6: a foreign datagram above the declared maximum reaches the library cut to its buffer
    "udp e2e v6 L R x1>0:65520:7 w x1>0:65527:8 w x1>0:65528:9 w x1>0:12:1 w",
    // IPv6: replies and several senders
    "udp e2e v6 L R R C0 x1>0:3:1 x2>0:3:2 s3:3:3 w r0>1:5:7 r0>2:0:8 r0>3:5:9 f0>3:65507:2 w",
];

/// multicast: a listener opened on a group address receives what is sent to the group, and — since it is
/// bound to the port on every local address — what a peer then sends to the unicast address it saw the
/// listener's reply come from (discover on the group, then talk directly).  Sizes 0 … 65507, paced.
fn run_mcast() -> (String, String, String, String) {
    let (ctl, mut proc_) = network::split();
    let port = UdpSocket::bind("0.0.0.0:0").and_then(|s| s.local_addr()).map(|a| a.port()).unwrap_or(0);
    let group: SocketAddr = format!("239.255.0.7:{}", port).parse().unwrap();
    let setup_failed = |why: &str| ("#mcast-setup-failed".to_string(), format!("setup-failed: {}", why), "ok".to_string(), "mcast,setup-failed".to_string());
    let Ok((mid, _)) = ctl.listen(Transport::Udp, group) else { return setup_failed("listen on the group") };
    let Ok((pid, _)) = ctl.listen(Transport::Udp, "0.0.0.0:0") else { return setup_failed("listen") };
    let mut pump = |proc_: &mut NetworkProcessor, ms: u64| -> Vec<(Endpoint, Vec<u8>)> {
        let mut evs = vec![];
        proc_.process_poll_events_until_timeout(Duration::from_millis(ms), |ev| {
            if let NetEvent::Message(ep, data) = ev {
                evs.push((ep, data.to_vec()));
            }
        });
        evs
    };
    // the peer (a plain listener) discovers the group listener
    ctl.send(Endpoint::from_listener(pid, group), b"probe");
    let evs = pump(&mut proc_, 150);
    let Some((ep_m, _)) = evs.iter().find(|(ep, d)| ep.resource_id() == mid && d == b"probe").cloned() else {
        return setup_failed("no multicast route: the probe sent to the group did not arrive")
    };
    // the group listener replies through the endpoint it was given
    ctl.send(ep_m, b"reply");
    let evs = pump(&mut proc_, 150);
    let reply = evs.iter().find(|(ep, d)| ep.resource_id() == pid && d == b"reply").cloned();
    let mut got = 0;
    let sizes = [0usize, 1, 2, 100, 1472, 1473, 9000, 65507];
    let mut detail = String::new();
    if let Some((ep_p, _)) = reply {
        for (k, n) in sizes.iter().enumerate() {
            let data = payload(*n, 50 + k as u64);
            let st = ctl.send(ep_p, &data);
            let evs = pump(&mut proc_, 30);
            let ok = st == SendStatus::Sent && evs.iter().any(|(ep, d)| ep.resource_id() == mid && ep.addr() == ep_m.addr() && *d == data);
            if ok {
                got += 1;
            }
            else if detail.is_empty() {
                detail = format!("{} bytes sent ({:?}) to {} (where the reply came from) were not delivered to the group listener", n, st, ep_p.addr());
            }
        }
    }
    else {
        detail = "the reply of the group listener did not reach the peer".into();
    }
    let imp = format!("probe=1 reply={} unicast={}/{}", reply.is_some() as u8, got, sizes.len());
    let ok = reply.is_some() && got == sizes.len();
    ("udp mcast".into(), imp, if ok { "ok".into() } else { format!("FAIL {}", detail) }, "mcast,reply,from_listener,max,zero".into())
}

/// IPv6 link-local: a receive_broadcasts listener and a plain listener, both on the machine's link-local
/// address (which is only complete with its scope id = interface index).  The sender is reported with its
/// full address and a reply through the reported endpoint reaches it.  Emitted as a `#` case where the
/// machine has no link-local address.
fn run_linklocal() -> (String, String, String, String) {
    use message_io::adapters::udp::UdpListenConfig;
    use message_io::network::TransportListen;
    let setup_failed = |why: &str| ("#linklocal-setup-failed".to_string(), format!("setup-failed: {}", why), "ok".to_string(), "linklocal,setup-failed".to_string());
    let table = std::fs::read_to_string("/proc/net/if_inet6").unwrap_or_default();
    let found = table.lines().find_map(|line| {
        let f: Vec<&str> = line.split_whitespace().collect();
        if f.len() < 6 || f[3] != "20" {
            return None
        }
        Some((std::net::Ipv6Addr::from(u128::from_str_radix(f[0], 16).ok()?), u32::from_str_radix(f[1], 16).ok()?))
    });
    let Some((ip, index)) = found else { return setup_failed("no link-local address") };
    let any = SocketAddr::V6(std::net::SocketAddrV6::new(ip, 0, 0, index));
    let (ctl, mut proc_) = network::split();
    let cfg = UdpListenConfig::default().with_receive_broadcasts();
    let Ok((bid, baddr)) = ctl.listen_with(TransportListen::Udp(cfg), any) else { return setup_failed("listen (receive_broadcasts)") };
    let Ok((aid, aaddr)) = ctl.listen(Transport::Udp, any) else { return setup_failed("listen") };
    let mut pump = |proc_: &mut NetworkProcessor, ms: u64| -> Vec<(Endpoint, Vec<u8>)> {
        let mut evs = vec![];
        proc_.process_poll_events_until_timeout(Duration::from_millis(ms), |ev| {
            if let NetEvent::Message(ep, data) = ev {
                evs.push((ep, data.to_vec()));
            }
        });
        evs
    };
    // (the receive_broadcasts listener reports the wildcard address it is bound to: the target is the
    // link-local address with its port)
    let target = SocketAddr::V6(std::net::SocketAddrV6::new(ip, baddr.port(), 0, index));
    let st = ctl.send(Endpoint::from_listener(aid, target), b"ping");
    let evs = pump(&mut proc_, 150);
    let Some((ep, _)) = evs.iter().find(|(ep, d)| ep.resource_id() == bid && d == b"ping").cloned() else {
        return if st == SendStatus::Sent { ("udp linklocal".into(), "ping=0 pong=0".into(), "FAIL the datagram sent to the receive_broadcasts listener on the link-local address was not delivered".into(), "linklocal".into()) } else { setup_failed("send on the link-local address") }
    };
    let addr_ok = ep.addr() == aaddr;
    let st2 = ctl.send(ep, b"pong");
    let evs = pump(&mut proc_, 150);
    let pong = evs.iter().any(|(e, d)| e.resource_id() == aid && d == b"pong");
    let ok = addr_ok && pong && st2 == SendStatus::Sent;
    (
        "udp linklocal".into(),
        format!("ping=1 pong={}", (pong && addr_ok) as u8),
        if ok { "ok".into() } else { format!("FAIL the sender {} was reported as {}; the reply through the reported endpoint: {:?}, delivered: {}", aaddr, ep.addr(), st2, pong) },
        "linklocal,ipv6,reply".into(),
    )
}

fn main() {
    quiet_panics();
    let mode = arg(1);
    let stdout = std::io::stdout();
    let mut out = std::io::BufWriter::new(stdout.lock());
    match mode.as_str() {
        "gen" => {
            let seed = arg_u64(2, 1);
            let n = arg_u64(3, 40);
            {
                let (c, i, o, t) = run_mcast();
                emit(&mut out, &c, &i, &o, &t);
            }
            {
                let (c, i, o, t) = run_linklocal();
                emit(&mut out, &c, &i, &o, &t);
            }
            for c in CORPUS {
                let toks: Vec<&str> = c.split(' ').skip(2).collect();
                let (imp, oracle, tags) = run_case(&toks);
                emit(&mut out, c, &imp, &oracle, &format!("{},corpus", tags));
            }
            for k in ["Udp-local", "Udp-remote", "Tcp-local", "FramedTcp-local", "Ws-local"] {
                let (imp, oracle, tags) = run_fl(k);
                emit(&mut out, &format!("udp fl {}", k), &imp, &oracle, &tags);
            }
            let mut rng = Rng::new(seed);
            let bcast = broadcast_listener_available();
            if bcast {
                // the receive_broadcasts listener (its own receive path): every size class, replies, IPv6
                for c in [
                    "udp e2e B Q R x1>0:5:1 x2>0:6:2 w r0>1:7:3 r0>2:8:4 f0>1:9:5 w",
                    "udp e2e B R R x1>0:10:1 x2>0:300:2 y1>0:20:3 x2>0:0:4 x1>0:2000:5 x2>0:7:6 w y2>0:5:7 w x1>0:9:8 w",
                    "udp e2e L R R x1>0:10:1 y1>0:20:3 x2>0:0:4 x1>0:2000:5 w",
                    "udp e2e B R C0 x1>0:5:1 s2:7:2 x1>0:0:3 w f0>1:3:3 f0>2:0:4 r0>1:65507:5 w x1>0:65507:6 w s2:65507:7 w s2:65508:8 w",
                    "udp e2e B R R x1>0:3:1 x2>0:3:2 x1>0:1473:3 x2>0:9000:4 w r0>1:5:7 r0>2:5:8 w",
                    "udp e2e v6 B R C0 x1>0:5:1 s2:65507:2 w x1>0:65520:3 w f0>1:65507:4 w",
                ] {
                    let toks: Vec<&str> = c.split(' ').skip(2).collect();
                    let (imp, oracle, tags) = run_case(&toks);
                    emit(&mut out, c, &imp, &oracle, &format!("{},corpus", tags));
                }
            }
            for _ in 0..n {
                let v6 = rng.chance(1, 3);
                let case = gen_case(&mut rng, v6, bcast);
                let toks: Vec<&str> = case.split(' ').skip(2).collect();
                let (imp, oracle, tags) = run_case(&toks);
                emit(&mut out, &case, &imp, &oracle, &tags);
            }
        }
        "gen-sweep" => {
            let from = arg_u64(2, 0) as usize;
            let to = arg_u64(3, 65508) as usize;
            let stride = arg_u64(4, 97) as usize;
            gen_sweep(&mut out, from, to, stride, 8, arg_u64(5, 8) as usize, arg(6) == "v6");
        }
        "run" => {
            for line in stdin_lines() {
                let toks: Vec<&str> = line.trim().split(' ').collect();
                let (imp, oracle, tags) = match toks.as_slice() {
                    ["udp", "e2e", rest @ ..] => run_case(rest),
                    ["udp", "linklocal"] => {
                        let (_, i, o, t) = run_linklocal();
                        (i, o, t)
                    }
                    ["udp", "mcast"] => {
                        let (_, i, o, t) = run_mcast();
                        (i, o, t)
                    }
                    ["udp", "fl", k] => run_fl(k),
                    _ => ("bad-case".into(), "ok".into(), "".into()),
                };
                emit(&mut out, line.trim(), &imp, &oracle, &tags);
            }
        }
        _ => {
            eprintln!("usage: udp gen <seed> <n> | gen-sweep <from> <to> <stride> | run");
            std::process::exit(2);
        }
    }
    out.flush().unwrap();
}
