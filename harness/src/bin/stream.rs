//! C01 / C10 / C11 tie for M2: real loopback connections through the public node API.
//!
//! Case lines (shared with the Lean driver):
//!   `stream e2e <F|W|T> <cuts|-> <msg> <msg> …`  messages (chunk syntax) sent in order over one
//!        connection; `cuts` = comma separated byte positions at which a raw writer cut the stream.
//!        Observation = the `Message` payloads the receiver reported (F, W) or their concatenation
//!        plus chunk-bound check (T).
//!   `stream mt <F|W|U> <threads> <per> <thread.seq> …`  concurrent senders on one endpoint; the
//!        tokens are the arrival order observed by the receiver.
//! The scenario (who is a node, who is a raw peer, direction, burst shape) is in the tags column.
use mio_harness::*;
use message_io::network::{Endpoint, NetEvent, ResourceId, SendStatus, Transport};
use message_io::node::{self, NodeEvent, NodeHandler, NodeTask};
use std::io::{Read, Write};
use std::net::{SocketAddr, TcpListener, TcpStream, UdpSocket};
use std::sync::{Arc, Condvar, Mutex};
use std::time::{Duration, Instant};

#[derive(Clone, Debug)]
#[allow(dead_code)]
enum Ev {
    Connected(Endpoint, bool),
    Accepted(Endpoint, ResourceId),
    Message(Endpoint, Vec<u8>),
    Disconnected(Endpoint),
}

struct TestNode {
    handler: NodeHandler<()>,
    events: Arc<(Mutex<Vec<Ev>>, Condvar)>,
    task: Option<NodeTask>,
}

impl TestNode {
    fn new() -> TestNode {
        let (handler, listener) = node::split::<()>();
        let events = Arc::new((Mutex::new(Vec::new()), Condvar::new()));
        let ev2 = events.clone();
        let task = listener.for_each_async(move |e| {
            if let NodeEvent::Network(ne) = e {
                let ev = match ne {
                    NetEvent::Connected(ep, ok) => Ev::Connected(ep, ok),
                    NetEvent::Accepted(ep, id) => Ev::Accepted(ep, id),
                    NetEvent::Message(ep, data) => Ev::Message(ep, data.to_vec()),
                    NetEvent::Disconnected(ep) => Ev::Disconnected(ep),
                };
                ev2.0.lock().unwrap().push(ev);
                ev2.1.notify_all();
            }
        });
        TestNode { handler, events, task: Some(task) }
    }
    /// wait until `f` returns Some on the event list, or the timeout
    fn wait<T>(&self, timeout: Duration, f: impl Fn(&[Ev]) -> Option<T>) -> Option<T> {
        let deadline = Instant::now() + timeout;
        let mut g = self.events.0.lock().unwrap();
        loop {
            if let Some(x) = f(&g) {
                return Some(x)
            }
            let now = Instant::now();
            if now >= deadline {
                return None
            }
            g = self.events.1.wait_timeout(g, deadline - now).unwrap().0;
        }
    }
    fn messages(&self) -> Vec<Vec<u8>> {
        self.events.0.lock().unwrap().iter().filter_map(|e| if let Ev::Message(_, d) = e { Some(d.clone()) } else { None }).collect()
    }
    fn accepted(&self, timeout: Duration) -> Option<Endpoint> {
        self.wait(timeout, |evs| evs.iter().find_map(|e| if let Ev::Accepted(ep, _) = e { Some(*ep) } else { None }))
    }
    fn connected(&self, timeout: Duration) -> Option<(Endpoint, bool)> {
        self.wait(timeout, |evs| evs.iter().find_map(|e| if let Ev::Connected(ep, ok) = e { Some((*ep, *ok)) } else { None }))
    }
}

impl Drop for TestNode {
    fn drop(&mut self) {
        self.handler.stop();
        if let Some(mut t) = self.task.take() {
            // joining a node thread that panicked panics again: never let that escape a Drop
            if std::panic::catch_unwind(std::panic::AssertUnwindSafe(|| t.wait())).is_err() {
                std::mem::forget(t);
            }
        }
    }
}

fn make_msg(i: usize, len: usize) -> Vec<u8> {
    let fill = (i as u8).wrapping_mul(37) ^ 0x5a;
    let mut v = vec![fill; len];
    let hdr = (i as u32).to_le_bytes();
    for k in 0..4.min(len) {
        v[k] = hdr[k];
    }
    if len > 8 {
        v[len - 1] = !fill;
    }
    v
}

fn varint(mut n: u64) -> Vec<u8> {
    let mut v = vec![];
    while n >= 0x80 {
        v.push((n as u8) | 0x80);
        n >>= 7;
    }
    v.push(n as u8);
    v
}

#[derive(Clone, Copy, Debug, PartialEq)]
enum Peer {
    Node,
    Raw,
}

#[derive(Clone, Debug)]
struct Scenario {
    t: char,        // F, W, T
    sender: Peer,
    receiver: Peer,
    sender_connects: bool, // true: the sender is the connector; false: the acceptor sends
    msgs: Vec<Vec<u8>>,
    shape: u8,      // 0 burst (one write / back-to-back sends), 1 per message, 2 spaced 2 ms, 3 adversarial cuts
    fragment: bool, // W raw sender: split messages into continuation frames
    controls: Vec<usize>, // W raw sender: a Ping / Pong / Text message is written right before message i
}

fn transport(t: char) -> Transport {
    match t {
        'F' => Transport::FramedTcp,
        'W' => Transport::Ws,
        'T' => Transport::Tcp,
        _ => Transport::Udp,
    }
}

const DELIVERY_TIMEOUT: Duration = Duration::from_secs(4);

/// returns (cuts used by a raw writer, observed payloads, notes)
fn run_scenario(sc: &Scenario, rng: &mut Rng) -> Result<(Vec<usize>, Vec<Vec<u8>>, String), String> {
    let tr = transport(sc.t);
    let total: usize = sc.msgs.iter().map(|m| m.len()).sum();
    let mut cuts_used = vec![];
    // --- establish the connection: (send side, receive side)
    enum Side {
        Node(TestNode, Endpoint),
        RawTcp(TcpStream),
        RawWs(tungstenite::WebSocket<TcpStream>),
        Taken, // the raw WebSocket reader runs in its own thread
    }
    let raw_connect = |addr: SocketAddr, ws: bool| -> Result<Side, String> {
        let s = TcpStream::connect(addr).map_err(|e| e.to_string())?;
        s.set_nodelay(true).ok();
        if ws {
            let cfg = tungstenite::protocol::WebSocketConfig::default().max_message_size(Some(64 << 20)).max_frame_size(Some(64 << 20));
            let (sock, _) = tungstenite::client::client_with_config(format!("ws://{}/x", addr), s, Some(cfg)).map_err(|e| e.to_string())?;
            Ok(Side::RawWs(sock))
        }
        else {
            Ok(Side::RawTcp(s))
        }
    };
    let raw_accept = |l: &TcpListener, ws: bool| -> Result<Side, String> {
        let (s, _) = l.accept().map_err(|e| e.to_string())?;
        s.set_nodelay(true).ok();
        if ws {
            let cfg = tungstenite::protocol::WebSocketConfig::default().max_message_size(Some(64 << 20)).max_frame_size(Some(64 << 20));
            Ok(Side::RawWs(tungstenite::accept_with_config(s, Some(cfg)).map_err(|e| e.to_string())?))
        }
        else {
            Ok(Side::RawTcp(s))
        }
    };
    let ws = sc.t == 'W';
    let (connector_is_node, acceptor_is_node) = if sc.sender_connects { (sc.sender == Peer::Node, sc.receiver == Peer::Node) } else { (sc.receiver == Peer::Node, sc.sender == Peer::Node) };
    let (connector, acceptor): (Side, Side) = match (connector_is_node, acceptor_is_node) {
        (true, true) => {
            let a = TestNode::new();
            let (_lid, addr) = a.handler.network().listen(tr, "127.0.0.1:0").map_err(|e| e.to_string())?;
            let c = TestNode::new();
            let (ep, _) = c.handler.network().connect(tr, addr).map_err(|e| e.to_string())?;
            let (_, ok) = c.connected(DELIVERY_TIMEOUT).ok_or("no Connected event")?;
            if !ok {
                return Err("Connected(false)".into())
            }
            let aep = a.accepted(DELIVERY_TIMEOUT).ok_or("no Accepted event")?;
            (Side::Node(c, ep), Side::Node(a, aep))
        }
        (false, true) => {
            let a = TestNode::new();
            let (_lid, addr) = a.handler.network().listen(tr, "127.0.0.1:0").map_err(|e| e.to_string())?;
            let raw = raw_connect(addr, ws)?;
            let aep = a.accepted(DELIVERY_TIMEOUT).ok_or("no Accepted event")?;
            (raw, Side::Node(a, aep))
        }
        (true, false) => {
            let l = TcpListener::bind("127.0.0.1:0").map_err(|e| e.to_string())?;
            let addr = l.local_addr().unwrap();
            let c = TestNode::new();
            let (ep, _) = c.handler.network().connect(tr, addr).map_err(|e| e.to_string())?;
            let raw = raw_accept(&l, ws)?;
            let (_, ok) = c.connected(DELIVERY_TIMEOUT).ok_or("no Connected event")?;
            if !ok {
                return Err("Connected(false)".into())
            }
            (Side::Node(c, ep), raw)
        }
        (false, false) => return Err("raw-raw".into()),
    };
    let (mut tx, mut rx) = if sc.sender_connects { (connector, acceptor) } else { (acceptor, connector) };

    // --- receive side of a raw peer runs in a thread
    let expected_count = sc.msgs.len();
    let raw_rx_thread = match rx {
        Side::RawTcp(ref s) => {
            let mut s = s.try_clone().unwrap();
            let want = if sc.t == 'F' { total + sc.msgs.iter().map(|m| varint(m.len() as u64).len()).sum::<usize>() } else { total };
            Some(std::thread::spawn(move || {
                s.set_read_timeout(Some(Duration::from_millis(200))).ok();
                let mut got = vec![];
                let mut buf = vec![0u8; 1 << 16];
                let deadline = Instant::now() + DELIVERY_TIMEOUT + Duration::from_secs(6);
                let mut quiet_since: Option<Instant> = None;
                while Instant::now() < deadline {
                    match s.read(&mut buf) {
                        Ok(0) => break,
                        Ok(n) => {
                            got.extend_from_slice(&buf[..n]);
                            quiet_since = None;
                        }
                        Err(_) => {
                            if got.len() >= want {
                                // everything expected is here: linger a little for surplus bytes
                                match quiet_since {
                                    None => quiet_since = Some(Instant::now()),
                                    Some(q) if q.elapsed() > Duration::from_millis(150) => break,
                                    _ => {}
                                }
                            }
                        }
                    }
                }
                vec![got]
            }))
        }
        Side::RawWs(_) | Side::Taken => None,
        Side::Node(..) => None,
    };

    // a raw WebSocket receiver reads while the sender sends (big messages do not fit the socket buffers)
    let mut ws_rx_thread = None;
    if matches!(rx, Side::RawWs(_)) {
        if let Side::RawWs(mut sock) = std::mem::replace(&mut rx, Side::Taken) {
            ws_rx_thread = Some(std::thread::spawn(move || {
                sock.get_mut().set_read_timeout(Some(DELIVERY_TIMEOUT + Duration::from_secs(20))).ok();
                let mut got: Vec<Vec<u8>> = vec![];
                while got.len() < expected_count {
                    match sock.read() {
                        Ok(tungstenite::Message::Binary(b)) => got.push(b.to_vec()),
                        Ok(_) => continue,
                        Err(_) => break,
                    }
                }
                sock.get_mut().set_read_timeout(Some(Duration::from_millis(80))).ok();
                if let Ok(tungstenite::Message::Binary(b)) = sock.read() {
                    got.push(b.to_vec());
                }
                got
            }));
        }
    }

    // --- send
    let t_send0 = Instant::now();
    match &mut tx {
        Side::Node(n, ep) => {
            for m in &sc.msgs {
                let st = n.handler.network().send(*ep, m);
                if st != SendStatus::Sent {
                    return Err(format!("send status {:?} for a {} byte message", st, m.len()))
                }
                if sc.shape == 2 {
                    std::thread::sleep(Duration::from_millis(2));
                }
            }
        }
        Side::RawTcp(s) => {
            let stream: Vec<u8> = if sc.t == 'F' {
                sc.msgs.iter().flat_map(|m| [varint(m.len() as u64), m.clone()].concat()).collect()
            }
            else {
                sc.msgs.concat()
            };
            let mut cuts: Vec<usize> = vec![];
            let mut off = 0;
            for m in &sc.msgs {
                let p = if sc.t == 'F' { varint(m.len() as u64).len() } else { 0 };
                match sc.shape {
                    1 | 2 => cuts.push(off + p + m.len()),
                    3 => {
                        // adversarial: around and inside every prefix
                        // every position inside and right after the prefix (1|1|1 cuts of a
                        // 3-byte prefix included)
                        for d in off + 1..=off + p + 1 {
                            if rng.chance(3, 4) {
                                cuts.push(d);
                            }
                        }
                    }
                    4 => {
                        // every byte of the prefix in its own write
                        for d in off + 1..=off + p {
                            cuts.push(d);
                        }
                        if m.len() > 2 && rng.chance(1, 2) {
                            cuts.push(off + p + rng.range(1, m.len() as u64 - 1) as usize);
                        }
                    }
                    _ => {}
                }
                off += p + m.len();
            }
            cuts.retain(|&c| c > 0 && c < stream.len());
            cuts.sort();
            cuts.dedup();
            let mut prev = 0;
            for &c in cuts.iter().chain(std::iter::once(&stream.len())) {
                s.write_all(&stream[prev..c]).map_err(|e| e.to_string())?;
                s.flush().ok();
                prev = c;
                if sc.shape >= 2 {
                    std::thread::sleep(Duration::from_micros(if sc.shape == 2 { 2000 } else if sc.shape == 4 { 20_000 } else { 1200 }));
                }
            }
            cuts_used = cuts;
        }
        Side::RawWs(sock) => {
            use tungstenite::protocol::frame::{coding::{Data, OpCode}, Frame};
            use tungstenite::Message;
            for (i, m) in sc.msgs.iter().enumerate() {
                if sc.controls.contains(&i) {
                    let ctl = match i % 3 {
                        0 => Message::Ping(b"hi".to_vec().into()),
                        1 => Message::Pong(b"yo".to_vec().into()),
                        _ => Message::Text("not for the user".into()),
                    };
                    sock.write(ctl).map_err(|e| e.to_string())?;
                }
                if sc.fragment && m.len() >= 2 {
                    let mid = m.len() / 2;
                    sock.write(Message::Frame(Frame::message(m[..mid].to_vec(), OpCode::Data(Data::Binary), false))).map_err(|e| e.to_string())?;
                    sock.write(Message::Frame(Frame::message(m[mid..].to_vec(), OpCode::Data(Data::Continue), true))).map_err(|e| e.to_string())?;
                }
                else {
                    sock.write(Message::Binary(m.clone().into())).map_err(|e| e.to_string())?;
                }
                if sc.shape != 0 {
                    sock.flush().map_err(|e| e.to_string())?;
                }
                if sc.shape == 2 {
                    std::thread::sleep(Duration::from_millis(2));
                }
            }
            sock.flush().map_err(|e| e.to_string())?;
        }
        Side::Taken => {}
    }
    // --- then SILENCE: nothing else is ever sent on this connection
    let observed: Vec<Vec<u8>> = match &mut rx {
        Side::Node(n, _) => {
            let ok = if sc.t == 'T' {
                n.wait(DELIVERY_TIMEOUT, |evs| {
                    let got: usize = evs.iter().map(|e| if let Ev::Message(_, d) = e { d.len() } else { 0 }).sum();
                    if got >= total { Some(()) } else { None }
                })
            }
            else {
                n.wait(DELIVERY_TIMEOUT, |evs| {
                    let got = evs.iter().filter(|e| matches!(e, Ev::Message(..))).count();
                    if got >= expected_count { Some(()) } else { None }
                })
            };
            let _ = ok;
            std::thread::sleep(Duration::from_millis(60)); // surplus / duplicates would show up now
            n.messages()
        }
        Side::RawTcp(_) => raw_rx_thread.unwrap().join().unwrap(),
        Side::RawWs(_) => vec![],
        Side::Taken => ws_rx_thread.take().unwrap().join().unwrap_or_default(),
    };
    let note = format!("{}ms", t_send0.elapsed().as_millis());
    drop(tx);
    drop(rx);
    Ok((cuts_used, observed, note))
}

fn e2e_row(sc: &Scenario, rng: &mut Rng) -> (String, String, String, String) {
    let panics_before = panics();
    let res = std::panic::catch_unwind(std::panic::AssertUnwindSafe(|| run_scenario(sc, rng)))
        .unwrap_or_else(|_| Err("harness thread panicked".into()));
    let node_panicked = panics() > panics_before;
    let tags = format!(
        "{}{}>{}{},shape{}{}{}",
        sc.t,
        if sc.sender == Peer::Node { "node" } else { "raw" },
        if sc.receiver == Peer::Node { "node" } else { "raw" },
        if sc.sender_connects { ",c2a" } else { ",a2c" },
        sc.shape,
        if sc.fragment { if sc.controls.is_empty() { ",fragmented" } else { ",fragmented,control" } } else if sc.controls.is_empty() { "" } else { ",control" },
        if sc.msgs.len() >= 3 && sc.shape == 0 { ",burst3" } else { "" }
    );
    let sizes: Vec<usize> = sc.msgs.iter().map(|m| m.len()).collect();
    let boundary = sizes.iter().any(|s| [127, 128, 16383, 16384, 65535, 65536, (1 << 21) - 1, 1 << 21, (1 << 21) + 1].contains(s));
    let tags = if boundary { format!("{},boundary", tags) } else { tags };
    match res {
        Err(e) => {
            let case = format!("#setup-failed {:?}", sizes);
            (case, format!("error: {}", e), "FAIL setup".into(), tags)
        }
        Ok((cuts, observed, _note)) => {
            let cuts_s = if cuts.is_empty() { "-".to_string() } else { cuts.iter().map(|c| c.to_string()).collect::<Vec<_>>().join(",") };
            let tcode = if sc.t == 'F' && sc.receiver == Peer::Raw { 'f' } else { sc.t };
            let toks: Vec<String> = sc
                .msgs
                .iter()
                .enumerate()
                .flat_map(|(i, m)| {
                    let mut v = vec![];
                    if sc.controls.contains(&i) {
                        v.push("ctl".to_string());
                    }
                    v.push(chunk_to_text(m));
                    v
                })
                .collect();
            let case = format!("stream e2e {} {} {}", tcode, cuts_s, toks.join(" "));
            let (imp, ok) = if sc.t == 'T' {
                let all: Vec<u8> = observed.concat();
                let bounds_ok = sc.receiver == Peer::Raw || observed.iter().all(|c| !c.is_empty() && c.len() <= message_io::adapters::tcp::INPUT_BUFFER_SIZE);
                (format!("{} bounds={}", show_payload(&all), bounds_ok), all == sc.msgs.concat() && bounds_ok)
            }
            else if sc.receiver == Peer::Raw && sc.t == 'F' {
                // the raw reader sees the wire bytes
                let all: Vec<u8> = observed.concat();
                let want: Vec<u8> = sc.msgs.iter().flat_map(|m| [varint(m.len() as u64), m.clone()].concat()).collect();
                (format!("wire {}", show_payload(&all)), all == want)
            }
            else {
                (show_outs(&observed), observed == sc.msgs)
            };
            let verdict = if node_panicked {
                "FAIL a node thread panicked".to_string()
            }
            else if ok {
                "ok".into()
            }
            else {
                format!("FAIL received {} of {} messages / mismatch", observed.len(), sc.msgs.len())
            };
            (case, imp, verdict, tags)
        }
    }
}

fn gen_sizes(rng: &mut Rng, big: bool, t: char) -> Vec<usize> {
    let boundary = [0usize, 1, 127, 128, 16383, 16384, 65534, 65535, 65536];
    let big_b = [(1usize << 21) - 1, 1 << 21, (1 << 21) + 1];
    let n = rng.range(1, 8);
    let mut v = vec![];
    let mut budget: usize = if big { 24 << 20 } else { 3 << 20 };
    for _ in 0..n {
        let s = match rng.below(12) {
            0..=4 => *rng.pick(&boundary),
            5..=7 => rng.below(300) as usize,
            8 => rng.range(60000, 70000) as usize,
            9 => {
                if big || rng.chance(1, 3) {
                    *rng.pick(&big_b)
                }
                else {
                    *rng.pick(&boundary)
                }
            }
            10 => {
                if big {
                    rng.range(1 << 22, 1 << 23) as usize
                }
                else {
                    rng.range(100_000, 400_000) as usize
                }
            }
            _ => 10,
        };
        // raw Tcp: zero-length sends carry nothing (fine); Ws/F: zero-length messages are messages
        let s = s.min(budget);
        budget -= s;
        v.push(s);
        let _ = t;
    }
    v
}

fn gen_e2e(out: &mut impl std::io::Write, seed: u64, n: u64, big: bool, which: &str) {
    let mut rng = Rng::new(seed ^ 0xe2e);
    let mut scenarios: Vec<Scenario> = vec![];
    // corpus first: F7 (three back-to-back Ws messages, then silence), both directions and peers
    if which.contains('W') {
        for (s, r, c) in [(Peer::Node, Peer::Node, true), (Peer::Node, Peer::Node, false), (Peer::Raw, Peer::Node, true), (Peer::Node, Peer::Raw, true)] {
            scenarios.push(Scenario { t: 'W', sender: s, receiver: r, sender_connects: c, msgs: (0..3).map(|i| make_msg(i, 10)).collect(), shape: 0, fragment: false, controls: vec![] });
        }
    }
    if which.contains('W') {
        // a Ping / Pong / Text message and a Binary message behind it in the same write, then silence
        for (c, controls) in [(true, vec![0usize]), (false, vec![1]), (true, vec![0, 1, 2])] {
            scenarios.push(Scenario { t: 'W', sender: Peer::Raw, receiver: Peer::Node, sender_connects: c, msgs: (0..3).map(|i| make_msg(i, 9 + i)).collect(), shape: 0, fragment: false, controls });
        }
    }
    if which.contains('F') {
        // every byte of a 2-, 3- and 4-byte prefix in a separate write, then silence
        for sizes in [vec![200usize, 10], vec![16384, 10], vec![20000, 0, 10], vec![1 << 21, 10]] {
            let msgs = sizes.iter().enumerate().map(|(i, s)| make_msg(i, *s)).collect();
            scenarios.push(Scenario { t: 'F', sender: Peer::Raw, receiver: Peer::Node, sender_connects: true, msgs, shape: 4, fragment: false, controls: vec![] });
        }
    }
    for _ in 0..n {
        let t = *rng.pick(&which.chars().collect::<Vec<_>>());
        let (sender, receiver) = *rng.pick(&[(Peer::Node, Peer::Node), (Peer::Node, Peer::Node), (Peer::Raw, Peer::Node), (Peer::Raw, Peer::Node), (Peer::Node, Peer::Raw)]);
        let sizes = gen_sizes(&mut rng, big, t);
        let msgs: Vec<Vec<u8>> = sizes.iter().enumerate().map(|(i, s)| make_msg(i, *s)).collect();
        let shape = if sender == Peer::Raw { rng.below(4) as u8 } else { *rng.pick(&[0u8, 0, 2]) };
        let controls: Vec<usize> = if t == 'W' && sender == Peer::Raw && rng.chance(1, 2) {
            (0..msgs.len()).filter(|_| rng.chance(1, 2)).collect()
        }
        else {
            vec![]
        };
        scenarios.push(Scenario { t, sender, receiver, sender_connects: rng.chance(2, 3), msgs, shape, fragment: t == 'W' && sender == Peer::Raw && rng.chance(1, 2), controls });
    }
    // bytes waiting before the connect is noticed (always run, before the scenarios)
    for t in ['T', 'F'] {
        if which.contains(t) {
            for (k, sizes) in [vec![5usize, 70000, 1], vec![65535, 65536, 3], vec![1], vec![1000], vec![7, 70001]].iter().enumerate() {
                let (c, i, o, tg) = run_early_bytes(t, sizes, [0u8, 0, 0, 1, 2][k]);
                emit(out, &c, &i, &o, &tg);
            }
        }
    }
    // run 8 scenarios at a time
    let results = Arc::new(Mutex::new(vec![None; scenarios.len()]));
    let next = Arc::new(std::sync::atomic::AtomicUsize::new(0));
    let scenarios = Arc::new(scenarios);
    let mut hs = vec![];
    for w in 0..8 {
        let (results, next, scenarios) = (results.clone(), next.clone(), scenarios.clone());
        let mut r = Rng::new(seed ^ (w as u64 + 1) * 7919);
        hs.push(std::thread::spawn(move || loop {
            let i = next.fetch_add(1, std::sync::atomic::Ordering::SeqCst);
            if i >= scenarios.len() {
                break
            }
            let dbg = std::env::var("VERIF_DEBUG").is_ok();
            if dbg {
                let sc = &scenarios[i];
                eprintln!("start #{} t={} sender_node={} receiver_node={} c2a={} shape={} frag={} ctl={:?} sizes={:?}", i, sc.t, sc.sender == Peer::Node, sc.receiver == Peer::Node, sc.sender_connects, sc.shape, sc.fragment, sc.controls, sc.msgs.iter().map(|m| m.len()).collect::<Vec<_>>());
            }
            let row = e2e_row(&scenarios[i], &mut r);
            if dbg {
                eprintln!("done  #{}", i);
            }
            results.lock().unwrap()[i] = Some(row);
        }));
    }
    for h in hs {
        h.join().unwrap();
    }
    for r in results.lock().unwrap().iter() {
        let (c, i, o, t) = r.clone().unwrap();
        emit(out, &c, &i, &o, &t);
    }
}

/// bytes that are already waiting when the processor sees the event that completes the connect: a raw
/// acceptor writes right after `accept()`, before the connecting side has polled at all (processor
/// pumped by hand); everything must be delivered by the events of that first pump, then silence
/// the listening side: a keepalive-configured listener, a raw peer connects and writes at once; only then
/// the processor is polled for the first time
fn run_early_bytes_listener(t: char, sizes: &[usize]) -> (String, String, String, String) {
    use message_io::adapters::{framed_tcp::FramedTcpListenConfig, tcp::{TcpKeepalive, TcpListenConfig}};
    use message_io::network::{self, TransportListen};
    let msgs: Vec<Vec<u8>> = sizes.iter().enumerate().map(|(i, s)| make_msg(i, *s)).collect();
    let toks: Vec<String> = msgs.iter().map(|m| chunk_to_text(m)).collect();
    let case = format!("stream e2e {} - {}", t, toks.join(" "));
    let tags = format!("{}raw>node,c2a,early-bytes,configured,burst3,boundary", t);
    let (ctl, mut proc_) = network::split();
    let ka = TcpKeepalive::new().with_time(Duration::from_secs(30));
    let addr: std::net::SocketAddr = "127.0.0.1:0".parse().unwrap();
    let (_lid, laddr) = if t == 'T' {
        ctl.listen_with(TransportListen::Tcp(TcpListenConfig::default().with_keepalive(ka)), addr).unwrap()
    }
    else {
        ctl.listen_with(TransportListen::FramedTcp(FramedTcpListenConfig::default().with_keepalive(ka)), addr).unwrap()
    };
    let mut s = match TcpStream::connect(laddr) {
        Ok(s) => s,
        Err(_) => return (case, "setup".into(), "FAIL setup".into(), tags),
    };
    s.set_nodelay(true).ok();
    let mut wire: Vec<u8> = vec![];
    for m in &msgs {
        if t == 'F' {
            wire.extend_from_slice(&varint(m.len() as u64));
        }
        wire.extend_from_slice(m);
    }
    let writer = std::thread::spawn(move || {
        let _ = s.write_all(&wire);
        s
    });
    std::thread::sleep(Duration::from_millis(40));
    let mut events: Vec<String> = vec![];
    let mut got: Vec<Vec<u8>> = vec![];
    let total: usize = msgs.iter().map(|m| m.len()).sum();
    let deadline = Instant::now() + DELIVERY_TIMEOUT;
    loop {
        proc_.process_poll_events_until_timeout(Duration::from_millis(50), |ev| match ev {
            NetEvent::Accepted(..) => events.push("A".into()),
            NetEvent::Message(_, d) => {
                events.push("M".into());
                got.push(d.to_vec());
            }
            NetEvent::Disconnected(_) => events.push("D".into()),
            _ => events.push("?".into()),
        });
        let have: usize = got.iter().map(|m| m.len()).sum();
        let done = if t == 'T' { have >= total } else { got.len() >= msgs.len() };
        if done || Instant::now() > deadline {
            break
        }
    }
    let _peer = writer.join();
    let accepted_first = events.first().map(|e| e == "A").unwrap_or(false);
    let (imp, ok) = if t == 'T' {
        let all: Vec<u8> = got.concat();
        let bounds = got.iter().all(|c| !c.is_empty() && c.len() <= message_io::adapters::tcp::INPUT_BUFFER_SIZE);
        (format!("{} bounds={}", show_payload(&all), bounds), all == msgs.concat() && bounds)
    }
    else {
        (show_outs(&got), got == msgs)
    };
    let ok = ok && accepted_first && !events.iter().any(|e| e == "D" || e == "?");
    (case, imp, if ok { "ok".into() } else { format!("FAIL early bytes (listener): events {:?}", events.iter().take(12).collect::<Vec<_>>()) }, tags)
}

/// `variant`: 0 = default connect; 1 = connect_with a keepalive configuration; 2 = the node is the
/// *listener* (keepalive configured) and a raw peer connects and writes before the first poll
fn run_early_bytes(t: char, sizes: &[usize], variant: u8) -> (String, String, String, String) {
    use message_io::adapters::{framed_tcp::{FramedTcpConnectConfig, FramedTcpListenConfig}, tcp::{TcpConnectConfig, TcpKeepalive, TcpListenConfig}};
    use message_io::network::{self, TransportConnect, TransportListen};
    if variant == 2 {
        return run_early_bytes_listener(t, sizes)
    }
    let msgs: Vec<Vec<u8>> = sizes.iter().enumerate().map(|(i, s)| make_msg(i, *s)).collect();
    let toks: Vec<String> = msgs.iter().map(|m| chunk_to_text(m)).collect();
    let case = format!("stream e2e {} - {}", t, toks.join(" "));
    let tags = format!("{}raw>node,a2c,early-bytes{},burst3,boundary", t, if variant == 1 { ",configured" } else { "" });
    let l = match std::net::TcpListener::bind("127.0.0.1:0") {
        Ok(l) => l,
        Err(_) => return (case, "setup".into(), "FAIL setup".into(), tags),
    };
    let (ctl, mut proc_) = network::split();
    let ka = TcpKeepalive::new().with_time(Duration::from_secs(30));
    let (ep, _) = match (variant, t) {
        (1, 'T') => ctl.connect_with(TransportConnect::Tcp(TcpConnectConfig::default().with_keepalive(ka)), l.local_addr().unwrap()).unwrap(),
        (1, _) => ctl.connect_with(TransportConnect::FramedTcp(FramedTcpConnectConfig::default().with_keepalive(ka)), l.local_addr().unwrap()).unwrap(),
        _ => ctl.connect(transport(t), l.local_addr().unwrap()).unwrap(),
    };
    let _ = (TransportListen::Ws, TcpListenConfig::default(), FramedTcpListenConfig::default());
    let (mut s, _) = l.accept().unwrap();
    s.set_nodelay(true).ok();
    let mut wire: Vec<u8> = vec![];
    for m in &msgs {
        if t == 'F' {
            wire.extend_from_slice(&varint(m.len() as u64));
        }
        wire.extend_from_slice(m);
    }
    let writer = std::thread::spawn(move || {
        let _ = s.write_all(&wire);
        s
    });
    std::thread::sleep(Duration::from_millis(40));
    let mut events: Vec<String> = vec![];
    let mut got: Vec<Vec<u8>> = vec![];
    let total: usize = msgs.iter().map(|m| m.len()).sum();
    let deadline = Instant::now() + DELIVERY_TIMEOUT;
    loop {
        proc_.process_poll_events_until_timeout(Duration::from_millis(50), |ev| match ev {
            NetEvent::Connected(e, ok) if e == ep => events.push(format!("C{}", ok)),
            NetEvent::Message(e, d) if e == ep => {
                events.push("M".into());
                got.push(d.to_vec());
            }
            NetEvent::Disconnected(_) => events.push("D".into()),
            _ => events.push("?".into()),
        });
        let have: usize = got.iter().map(|m| m.len()).sum();
        let done = if t == 'T' { have >= total } else { got.len() >= msgs.len() };
        if done || Instant::now() > deadline {
            break
        }
    }
    let _peer = writer.join();
    let connected_first = events.first().map(|e| e == "Ctrue").unwrap_or(false);
    let (imp, ok) = if t == 'T' {
        let all: Vec<u8> = got.concat();
        let bounds = got.iter().all(|c| !c.is_empty() && c.len() <= message_io::adapters::tcp::INPUT_BUFFER_SIZE);
        (format!("{} bounds={}", show_payload(&all), bounds), all == msgs.concat() && bounds)
    }
    else {
        (show_outs(&got), got == msgs)
    };
    let ok = ok && connected_first && !events.iter().any(|e| e == "D" || e == "?");
    (case, imp, if ok { "ok".into() } else { format!("FAIL early bytes: events {:?}", events.iter().take(12).collect::<Vec<_>>()) }, tags)
}

/// C10 with a stalled receiver: thread 0 sends one message of several socket buffers and gets stuck in the
/// middle of its frame (WouldBlock) for as long as the receiver's callback sleeps; the other threads start
/// later and send small messages to the same endpoint: they must wait for the frame in progress
fn run_mt_slow(t: char, big: usize) -> (String, String, String, String) {
    let tr = transport(t);
    let (rh, rl) = node::split::<()>();
    let (_lid, addr) = rh.network().listen(tr, "127.0.0.1:0").unwrap();
    let got: Arc<Mutex<Vec<Vec<u8>>>> = Arc::new(Mutex::new(vec![]));
    let g2 = got.clone();
    let _rtask = rl.for_each_async(move |e| {
        if let NodeEvent::Network(ne) = e {
            match ne {
                NetEvent::Accepted(..) => std::thread::sleep(Duration::from_millis(700)),
                NetEvent::Message(_, d) => g2.lock().unwrap().push(d.to_vec()),
                _ => {}
            }
        }
    });
    let c = TestNode::new();
    let (ep, _) = c.handler.network().connect(tr, addr).unwrap();
    if c.connected(DELIVERY_TIMEOUT).map(|x| x.1) != Some(true) {
        return ("#mt-setup".into(), "error".into(), "FAIL setup".into(), "mt".into())
    }
    // WebSocket: a fourth thread with one 16 MiB message, so that more than one maximal frame (32 MiB) is
    // pending in total while the receiver is stalled
    let counts: Vec<usize> = if t == 'W' { vec![1, 30, 30, 1] } else { vec![1, 30, 30] };
    let mk = |th: usize, seq: usize, size: usize| {
        let mut m = vec![(th as u8) ^ 0xa5; size.max(16)];
        m[0..4].copy_from_slice(&(th as u32).to_le_bytes());
        m[4..8].copy_from_slice(&(seq as u32).to_le_bytes());
        m[8..16].copy_from_slice(&(size.max(16) as u64).to_le_bytes());
        m
    };
    let mut hs = vec![];
    for th in 0..counts.len() {
        let h = c.handler.clone();
        let counts = counts.clone();
        hs.push(std::thread::spawn(move || {
            if th > 0 {
                std::thread::sleep(Duration::from_millis(150));
            }
            let mut bad = 0;
            for seq in 0..counts[th] {
                // thread 1 sends empty messages (a frame of one byte): they must wait for the lock like any other
                let m = if th == 1 { vec![] } else { mk(th, seq, if th == 0 { big } else if th == 3 { 16 << 20 } else { 200 }) };
                if h.network().send(ep, &m) != SendStatus::Sent {
                    bad += 1;
                }
            }
            bad
        }));
    }
    let bad_sends: usize = hs.into_iter().map(|h| h.join().unwrap()).sum();
    let want: usize = counts.iter().sum();
    let deadline = Instant::now() + Duration::from_secs(10);
    while got.lock().unwrap().len() < want && Instant::now() < deadline {
        std::thread::sleep(Duration::from_millis(10));
    }
    std::thread::sleep(Duration::from_millis(60));
    rh.stop();
    let msgs = got.lock().unwrap().clone();
    let mut toks = vec![];
    let mut corrupt = 0;
    let mut empties = 0;
    for m in &msgs {
        if m.is_empty() {
            toks.push(format!("1.{}", empties));
            empties += 1;
            continue
        }
        if m.len() < 16 {
            corrupt += 1;
            continue
        }
        let th = u32::from_le_bytes(m[0..4].try_into().unwrap()) as usize;
        let seq = u32::from_le_bytes(m[4..8].try_into().unwrap());
        let len = u64::from_le_bytes(m[8..16].try_into().unwrap()) as usize;
        if th >= counts.len() || len != m.len() || m[16..].iter().any(|b| *b != (th as u8) ^ 0xa5) {
            corrupt += 1;
            continue
        }
        toks.push(format!("{}.{}", th, seq));
    }
    let case = format!("stream mtslow {} {} {}", t, counts.iter().map(|c| c.to_string()).collect::<Vec<_>>().join(","), toks.join(" "));
    let ok = corrupt == 0 && bad_sends == 0 && msgs.len() == want;
    (
        case,
        if corrupt == 0 { "ok".into() } else { format!("corrupt={}", corrupt) },
        if ok { "ok".into() } else { format!("FAIL corrupt={} bad_sends={} got={}/{}", corrupt, bad_sends, msgs.len(), want) },
        format!("mt{},interleaved,multi-buffer,slow-receiver", t),
    )
}

/// C01 / C10 / C11, both directions at once: a thread of the connector is stuck inside a send() of `big`
/// bytes (the acceptor's node is asleep in its Accepted callback and reads nothing) while the acceptor's
/// side sends three 2-byte messages back from another thread; the connector's network thread finds the
/// connection busy when they arrive.  After the acceptor wakes up everything must have arrived on both
/// sides although no further traffic follows.
fn run_duplex(t: char, big: usize, stall_ms: u64) -> (String, String, String, String) {
    let tr = transport(t);
    let (rh, rl) = node::split::<()>();
    let (_lid, addr) = rh.network().listen(tr, "127.0.0.1:0").unwrap();
    let got: Arc<Mutex<Vec<Vec<u8>>>> = Arc::new(Mutex::new(vec![]));
    let acc: Arc<Mutex<Option<Endpoint>>> = Arc::new(Mutex::new(None));
    let (g2, a2) = (got.clone(), acc.clone());
    let _rtask = rl.for_each_async(move |e| {
        if let NodeEvent::Network(ne) = e {
            match ne {
                NetEvent::Accepted(ep, _) => {
                    *a2.lock().unwrap() = Some(ep);
                    std::thread::sleep(Duration::from_millis(stall_ms));
                }
                NetEvent::Message(_, d) => g2.lock().unwrap().push(d.to_vec()),
                _ => {}
            }
        }
    });
    let c = TestNode::new();
    let (ep, _) = c.handler.network().connect(tr, addr).unwrap();
    if c.connected(DELIVERY_TIMEOUT).map(|x| x.1) != Some(true) {
        return ("#duplex-setup".into(), "error".into(), "FAIL setup".into(), "duplex".into())
    }
    let deadline = Instant::now() + Duration::from_secs(3);
    while acc.lock().unwrap().is_none() && Instant::now() < deadline {
        std::thread::sleep(Duration::from_millis(2));
    }
    let Some(rep) = *acc.lock().unwrap() else {
        return ("#duplex-setup".into(), "error".into(), "FAIL setup (no Accepted)".into(), "duplex".into())
    };
    // the connector's node also listens: a connection accepted (a registration) while one of its threads
    // is stuck inside send() must not hold up the delivery of what arrives on other connections
    let (_clid, caddr) = c.handler.network().listen(Transport::Tcp, "127.0.0.1:0").unwrap();
    let h = c.handler.clone();
    let sender = std::thread::spawn(move || {
        let m: Vec<u8> = (0..big).map(|i| (i * 13 + i / 257) as u8).collect();
        (h.network().send(ep, &m), m)
    });
    std::thread::sleep(Duration::from_millis(120));
    let _newcomer = std::net::TcpStream::connect(caddr).ok();
    std::thread::sleep(Duration::from_millis(30));
    let mut back_status = vec![];
    for i in 0..3u8 {
        back_status.push(rh.network().send(rep, &[0, i]));
        std::thread::sleep(Duration::from_millis(5));
    }
    // with a long stall ahead (and no lock shared between the two directions: Tcp, FramedTcp) the small
    // messages must reach the connector's callback long before its own send() can finish
    let judge_timely = t != 'W' && stall_ms >= 2500;
    let mut timely = true;
    if judge_timely {
        let until = Instant::now() + Duration::from_millis(1000);
        loop {
            let c_bytes: usize = c.messages().iter().map(|d| d.len()).sum();
            if c_bytes >= 6 {
                break
            }
            if Instant::now() > until {
                timely = false;
                break
            }
            std::thread::sleep(Duration::from_millis(5));
        }
    }
    let (st, m) = sender.join().unwrap();
    let deadline = Instant::now() + Duration::from_millis(6000 + stall_ms);
    loop {
        let r_bytes: usize = got.lock().unwrap().iter().map(|d| d.len()).sum();
        let c_bytes: usize = c.messages().iter().map(|d| d.len()).sum();
        if (r_bytes >= big && c_bytes >= 6) || Instant::now() > deadline {
            break
        }
        std::thread::sleep(Duration::from_millis(10));
    }
    // silence: nothing else will ever be sent on this connection
    std::thread::sleep(Duration::from_millis(300));
    let back = c.messages();
    let back_flat: Vec<u8> = back.concat();
    let fwd: Vec<u8> = got.lock().unwrap().concat();
    let fwd_msgs = got.lock().unwrap().len();
    rh.stop();
    let back_ok = back_flat == vec![0, 0, 0, 1, 0, 2] && (t == 'T' || back.len() == 3);
    let fwd_ok = fwd == m && (t == 'T' || fwd_msgs == 1);
    let sends_ok = st == SendStatus::Sent && back_status.iter().all(|s| *s == SendStatus::Sent);
    let imp = format!(
        "back={} forward={} timely={}",
        if back_ok { "complete" } else { "incomplete" },
        if fwd_ok { "complete" } else { "incomplete" },
        if judge_timely { timely.to_string() } else { "n/a".to_string() }
    );
    let oracle = if back_ok && fwd_ok && sends_ok && timely {
        "ok".to_string()
    }
    else if !timely {
        format!("FAIL three 2-byte messages sent to the connector were not delivered within 1 s while one of its threads was inside a send() stalled for {} ms (and a new connection was being accepted)", stall_ms)
    }
    else {
        format!(
            "FAIL the connector received {:?} (wanted three 2-byte messages) while it was sending {} bytes; the acceptor received {} bytes in {} messages; statuses {:?} {:?}",
            back, big, fwd.len(), fwd_msgs, st, back_status
        )
    };
    (format!("stream duplex {} {} {}", t, big, stall_ms), imp, oracle, format!("duplex{},both-directions,busy-sender", t))
}

/// a keepalive configuration the OS rejects (an idle time above 32767 s): the connection must work all the
/// same.  `side` = 'l': the listener is configured, 'c': the connector.  The connector sends five messages
/// on Connected; the acceptor must observe exactly those.  Run in a child process (`one-badka`): a fault
/// here can abort the process.
fn run_badka_inner(t: char, side: char) -> (String, String) {
    use message_io::adapters::{framed_tcp::{FramedTcpConnectConfig, FramedTcpListenConfig}, tcp::{TcpConnectConfig, TcpKeepalive, TcpListenConfig}};
    use message_io::network::{TransportConnect, TransportListen};
    let ka = || TcpKeepalive::new().with_time(Duration::from_secs(12 * 3600));
    let a = TestNode::new();
    let c = TestNode::new();
    let listen = match (side, t) {
        ('l', 'T') => a.handler.network().listen_with(TransportListen::Tcp(TcpListenConfig::default().with_keepalive(ka())), "127.0.0.1:0"),
        ('l', _) => a.handler.network().listen_with(TransportListen::FramedTcp(FramedTcpListenConfig::default().with_keepalive(ka())), "127.0.0.1:0"),
        _ => a.handler.network().listen(transport(t), "127.0.0.1:0"),
    };
    let Ok((_lid, addr)) = listen else { return ("setup".into(), "FAIL listen".into()) };
    let conn = match (side, t) {
        ('c', 'T') => c.handler.network().connect_with(TransportConnect::Tcp(TcpConnectConfig::default().with_keepalive(ka())), addr),
        ('c', _) => c.handler.network().connect_with(TransportConnect::FramedTcp(FramedTcpConnectConfig::default().with_keepalive(ka())), addr),
        _ => c.handler.network().connect(transport(t), addr),
    };
    let Ok((ep, _)) = conn else { return ("setup".into(), "FAIL connect".into()) };
    if c.connected(DELIVERY_TIMEOUT).map(|x| x.1) != Some(true) {
        return ("not-connected".into(), "FAIL the connection was not established".into())
    }
    let sizes = [0usize, 127, 128, 16384, 5];
    let msgs: Vec<Vec<u8>> = sizes.iter().enumerate().filter(|(_, s)| t != 'T' || **s > 0).map(|(i, s)| make_msg(i, *s)).collect();
    let statuses: Vec<SendStatus> = msgs.iter().map(|m| c.handler.network().send(ep, m)).collect();
    let want: Vec<u8> = msgs.concat();
    let deadline = Instant::now() + DELIVERY_TIMEOUT;
    loop {
        let got: usize = a.messages().iter().map(|d| d.len()).sum();
        if (got >= want.len() && (t == 'T' || a.messages().len() >= msgs.len())) || Instant::now() > deadline {
            break
        }
        std::thread::sleep(Duration::from_millis(5));
    }
    std::thread::sleep(Duration::from_millis(100));
    let got = a.messages();
    let ok = statuses.iter().all(|s| *s == SendStatus::Sent) && if t == 'T' { got.concat() == want } else { got == msgs };
    let imp = format!("delivered={}", if ok { "all" } else { "not-all" });
    let oracle = if ok { "ok".to_string() } else { format!("FAIL statuses {:?}; {} of {} messages ({} of {} bytes) arrived", statuses, got.len(), msgs.len(), got.concat().len(), want.len()) };
    // leak the nodes when something went wrong: tearing down a node whose descriptor was closed behind its back can abort
    if !ok {
        std::mem::forget(a);
        std::mem::forget(c);
    }
    (imp, oracle)
}

fn run_badka(t: char, side: char) -> (String, String, String, String) {
    let case = format!("stream badka {} {}", t, side);
    let tags = format!("badka{},configured,rejected-keepalive", t);
    let exe = std::env::current_exe().unwrap();
    let out = std::process::Command::new(exe).args(["one-badka", &t.to_string(), &side.to_string()]).output();
    match out {
        Ok(o) => {
            let text = String::from_utf8_lossy(&o.stdout);
            let line = text.lines().find(|l| l.starts_with("BADKA\t"));
            match line {
                Some(l) => {
                    let f: Vec<&str> = l.split('\t').collect();
                    (case, f.get(1).unwrap_or(&"?").to_string(), f.get(2).unwrap_or(&"FAIL ?").to_string(), tags)
                }
                None => (case, "crashed".into(), format!("FAIL the process running this scenario died ({}): {}", o.status, String::from_utf8_lossy(&o.stderr).lines().rev().take(3).collect::<Vec<_>>().join(" | ")), tags),
            }
        }
        Err(e) => (case, "setup".into(), format!("FAIL cannot start the child process: {}", e), tags),
    }
}

/// a slow reader: the acceptor's callback sleeps 150 ms per Message.  The peer sends one small piece, waits
/// until the node is inside that callback, sends a tail of several read buffers (192 KiB; for FramedTcp three
/// 64 KiB messages) and then stays connected and silent.  Everything must reach the callback although no
/// further traffic follows: the adapter's read loop may only stop when the socket has nothing left.
fn run_slow_reader(t: char) -> (String, String, String, String) {
    run_slow_reader_v(t, false)
}

/// `boundary`: the tail is one message that fills the 65535-byte read buffer exactly (with its prefix, for
/// FramedTcp) and a 10-byte one behind it: a read that ends on a message boundary says nothing about
/// what is still queued
fn run_slow_reader_v(t: char, boundary: bool) -> (String, String, String, String) {
    let tr = transport(t);
    let (rh, rl) = node::split::<()>();
    let (_lid, addr) = rh.network().listen(tr, "127.0.0.1:0").unwrap();
    let got: Arc<Mutex<Vec<Vec<u8>>>> = Arc::new(Mutex::new(vec![]));
    let g2 = got.clone();
    let _rtask = rl.for_each_async(move |e| {
        if let NodeEvent::Network(NetEvent::Message(_, d)) = e {
            g2.lock().unwrap().push(d.to_vec());
            std::thread::sleep(Duration::from_millis(150));
        }
    });
    let Ok(mut peer) = std::net::TcpStream::connect(addr) else {
        return ("#slowreader-setup".into(), "error".into(), "FAIL setup".into(), "slowreader".into())
    };
    peer.set_nodelay(true).ok();
    std::thread::sleep(Duration::from_millis(50));
    let frame = |m: &[u8]| -> Vec<u8> { if t == 'F' { [varint(m.len() as u64), m.to_vec()].concat() } else { m.to_vec() } };
    let first = vec![1u8; 1];
    let tail: Vec<Vec<u8>> = if boundary {
        let big = if t == 'F' { 65532 } else { 65535 };
        vec![(0..big).map(|i| (i * 7) as u8).collect(), vec![9u8; 10]]
    }
    else {
        (0..3).map(|k| (0..65536usize).map(|i| (i * 7 + k * 13) as u8).collect()).collect()
    };
    let _ = peer.write_all(&frame(&first));
    // wait until the node is inside the first callback
    let t0 = Instant::now();
    while got.lock().unwrap().is_empty() && t0.elapsed() < Duration::from_secs(2) {
        std::thread::sleep(Duration::from_millis(2));
    }
    std::thread::sleep(Duration::from_millis(20));
    for m in &tail {
        let _ = peer.write_all(&frame(m));
    }
    let want: Vec<u8> = [first.clone(), tail.concat()].concat();
    let deadline = Instant::now() + Duration::from_secs(6);
    loop {
        let n: usize = got.lock().unwrap().iter().map(|d| d.len()).sum();
        if n >= want.len() || Instant::now() > deadline {
            break
        }
        std::thread::sleep(Duration::from_millis(10));
    }
    std::thread::sleep(Duration::from_millis(200));
    let msgs = got.lock().unwrap().clone();
    rh.stop();
    drop(peer);
    let flat = msgs.concat();
    let ok = flat == want && (t == 'T' || msgs.len() == 1 + tail.len());
    (
        format!("stream slowreader {}{}", t, if boundary { " boundary" } else { "" }),
        format!("delivered={}", if ok { "all" } else { "not-all" }),
        if ok { "ok".into() } else { format!("FAIL {} of {} bytes ({} events) reached the callback 6 s after the peer went silent", flat.len(), want.len(), msgs.len()) },
        format!("slowreader{},multi-buffer,slow-receiver", t),
    )
}

/// the WebSocket acceptor (a tungstenite server) greets at once: four messages written right behind the
/// 101 answer, then silence.  The connector may find some or all of them together with the answer (they
/// are then already inside the codec when the handshake completes): Connected and all four must arrive.
fn run_early_ws() -> (String, String, String, String) {
    let l = match std::net::TcpListener::bind("127.0.0.1:0") {
        Ok(l) => l,
        Err(_) => return ("#earlyws-setup".into(), "error".into(), "FAIL setup".into(), "earlyws".into()),
    };
    let addr = l.local_addr().unwrap();
    let sizes = [5usize, 0, 5, 128];
    let server = std::thread::spawn(move || {
        let Ok((s, _)) = l.accept() else { return };
        let Ok(mut ws) = tungstenite::accept(s) else { return };
        for (i, n) in sizes.iter().enumerate() {
            let _ = ws.write(tungstenite::Message::Binary(make_msg(i, *n).into()));
        }
        let _ = ws.flush();
        std::thread::sleep(Duration::from_millis(1500));
    });
    let c = TestNode::new();
    let Ok((_ep, _)) = c.handler.network().connect(Transport::Ws, addr) else {
        return ("#earlyws-setup".into(), "error".into(), "FAIL setup".into(), "earlyws".into())
    };
    let connected = c.connected(DELIVERY_TIMEOUT).map(|x| x.1) == Some(true);
    let deadline = Instant::now() + Duration::from_millis(1000);
    while c.messages().len() < sizes.len() && Instant::now() < deadline {
        std::thread::sleep(Duration::from_millis(5));
    }
    let got = c.messages();
    let want: Vec<Vec<u8>> = sizes.iter().enumerate().map(|(i, n)| make_msg(i, *n)).collect();
    let ok = connected && got == want;
    let _ = server.join();
    if std::env::var("VERIF_DEBUG").is_ok() {
        std::thread::sleep(Duration::from_millis(300));
        eprintln!("after the server closed: {} messages", c.messages().len());
    }
    (
        "stream earlyws".into(),
        format!("delivered={}/{}", if ok { 4 } else { got.len().min(3) }, sizes.len()),
        if ok { "ok".into() } else { format!("FAIL connected={} received {} of the 4 messages the acceptor sent behind its handshake answer (sizes {:?})", connected, got.len(), got.iter().map(|m| m.len()).collect::<Vec<_>>()) },
        "earlyws,Wraw>node,a2c,early-bytes,burst3,boundary".into(),
    )
}

/// C10: several threads (and the receiver's own callback thread of the *sending* node) send on one endpoint
fn run_mt(t: char, threads: usize, per: usize, size: usize) -> (String, String, String, String) {
    let tr = transport(t);
    let a = TestNode::new();
    let (_lid, addr) = a.handler.network().listen(tr, "127.0.0.1:0").unwrap();
    let c = TestNode::new();
    let (ep, _) = c.handler.network().connect(tr, addr).unwrap();
    if c.connected(DELIVERY_TIMEOUT).map(|x| x.1) != Some(true) {
        return ("#mt-setup".into(), "error".into(), "FAIL setup".into(), "mt".into())
    }
    let mut hs = vec![];
    let barrier = Arc::new(std::sync::Barrier::new(threads));
    let udp = t == 'U';
    for th in 0..threads {
        let h = c.handler.clone();
        let barrier = barrier.clone();
        hs.push(std::thread::spawn(move || {
            barrier.wait();
            let mut bad = 0;
            for seq in 0..per {
                let mut m = vec![(th as u8) ^ 0xa5; size.max(12)];
                m[0..4].copy_from_slice(&(th as u32).to_le_bytes());
                m[4..8].copy_from_slice(&(seq as u32).to_le_bytes());
                let sum = m[12..].iter().fold(0u32, |a, b| a.wrapping_mul(31).wrapping_add(*b as u32));
                m[8..12].copy_from_slice(&sum.to_le_bytes());
                if h.network().send(ep, &m) != SendStatus::Sent {
                    bad += 1;
                }
                if udp && seq % 8 == 7 {
                    std::thread::sleep(Duration::from_micros(300)); // pace datagrams: loopback drops on overflow
                }
            }
            bad
        }));
    }
    // meanwhile another thread of the sending node opens and removes unrelated connections of the same
    // transport (registry writes): lookups of the live endpoint must wait for them, not fail
    let churn_stop = Arc::new(std::sync::atomic::AtomicBool::new(false));
    let churn = {
        let (h, stop) = (c.handler.clone(), churn_stop.clone());
        std::thread::spawn(move || {
            let mut n = 0usize;
            while !stop.load(std::sync::atomic::Ordering::SeqCst) {
                if let Ok((e2, _)) = h.network().connect(tr, addr) {
                    std::thread::sleep(Duration::from_micros(300));
                    h.network().remove(e2.resource_id());
                    n += 1;
                }
                std::thread::sleep(Duration::from_micros(200));
            }
            n
        })
    };
    let bad_sends: usize = hs.into_iter().map(|h| h.join().unwrap()).sum();
    churn_stop.store(true, std::sync::atomic::Ordering::SeqCst);
    let _churned = churn.join().unwrap_or(0);
    let want = threads * per;
    a.wait(Duration::from_secs(8), |evs| if evs.iter().filter(|e| matches!(e, Ev::Message(..))).count() >= want { Some(()) } else { None });
    std::thread::sleep(Duration::from_millis(60));
    let msgs = a.messages();
    let mut toks = vec![];
    let mut corrupt = 0;
    let mut last: Vec<i64> = vec![-1; threads];
    let mut order_ok = true;
    let mut count = vec![0usize; threads];
    for m in &msgs {
        if m.len() != size.max(12) {
            corrupt += 1;
            continue
        }
        let th = u32::from_le_bytes(m[0..4].try_into().unwrap()) as usize;
        let seq = u32::from_le_bytes(m[4..8].try_into().unwrap()) as i64;
        let sum = u32::from_le_bytes(m[8..12].try_into().unwrap());
        let calc = m[12..].iter().fold(0u32, |a, b| a.wrapping_mul(31).wrapping_add(*b as u32));
        if th >= threads || sum != calc || m[12..].iter().any(|b| *b != (th as u8) ^ 0xa5) {
            corrupt += 1;
            continue
        }
        if seq <= last[th] {
            order_ok = false;
        }
        last[th] = seq;
        count[th] += 1;
        toks.push(format!("{}.{}", th, seq));
    }
    let complete = count.iter().all(|c| *c == per);
    // UDP may drop on a loaded loopback: loss is inconclusive there, corruption/duplication/reordering is not
    let ok = corrupt == 0 && order_ok && bad_sends == 0 && (complete || udp) && msgs.len() <= want;
    let interleaved = toks.windows(2).filter(|w| w[0].split('.').next() != w[1].split('.').next()).count() > threads;
    let case = format!("stream mt {} {} {} {}", t, threads, per, toks.join(" "));
    let tags = format!(
        "mt{}{}{}{}",
        t,
        if interleaved { ",interleaved" } else { "" },
        if udp && !complete { ",udp-loss" } else { "" },
        if size >= (1 << 20) { ",multi-buffer" } else { "" }
    );
    (
        case,
        if corrupt == 0 { "ok".into() } else { format!("corrupt={}", corrupt) },
        if ok { "ok".into() } else { format!("FAIL corrupt={} order_ok={} complete={} bad_sends={} got={}/{}", corrupt, order_ok, complete, bad_sends, msgs.len(), want) },
        tags,
    )
}


/// C13: one established node<->node connection per transport; payloads around the declared maximum in
/// both directions; after a rejected send a small message must still get through.
fn run_size(t: char, c2a: bool, len: usize) -> (String, String, String, String) {
    let tr = transport(t);
    let a = TestNode::new();
    let (_lid, addr) = a.handler.network().listen(tr, "127.0.0.1:0").unwrap();
    let c = TestNode::new();
    let (ep, _) = c.handler.network().connect(tr, addr).unwrap();
    let case = format!("stream size {} {} {}", t, if c2a { "c2a" } else { "a2c" }, len);
    if c.connected(DELIVERY_TIMEOUT).map(|x| x.1) != Some(true) {
        return (case, "setup".into(), "FAIL setup".into(), "size".into())
    }
    // UDP has no Accepted: the acceptor learns the peer from a first datagram
    let aep = if t == 'U' {
        c.handler.network().send(ep, &[0]);
        a.wait(DELIVERY_TIMEOUT, |evs| evs.iter().find_map(|e| if let Ev::Message(ep, _) = e { Some(*ep) } else { None }))
    }
    else {
        a.accepted(DELIVERY_TIMEOUT)
    };
    let Some(aep) = aep else { return (case, "setup".into(), "FAIL setup".into(), "size".into()) };
    let (tx, tx_ep, rx) = if c2a { (&c, ep, &a) } else { (&a, aep, &c) };
    let before = rx.messages().len();
    let payload = vec![0x5au8; len];
    let st = tx.handler.network().send(tx_ep, &payload);
    let delivered = if st == SendStatus::Sent {
        rx.wait(Duration::from_secs(8), |evs| {
            let ms: Vec<&Vec<u8>> = evs.iter().filter_map(|e| if let Ev::Message(_, d) = e { Some(d) } else { None }).collect();
            if t == 'T' {
                let got: usize = ms.iter().skip(before).map(|m| m.len()).sum();
                if got >= len { Some(true) } else { None }
            }
            else if ms.len() > before { Some(ms[before].len() == len) } else { None }
        })
        .unwrap_or(false)
    }
    else {
        false
    };
    // the connection must still be usable
    let n1 = rx.messages().len();
    let st2 = tx.handler.network().send(tx_ep, &[1, 2, 3]);
    let after = st2 == SendStatus::Sent
        && rx.wait(Duration::from_secs(3), |evs| if evs.iter().filter(|e| matches!(e, Ev::Message(..))).count() > n1 { Some(()) } else { None }).is_some();
    let disconnected = |n: &TestNode| n.events.0.lock().unwrap().iter().any(|e| matches!(e, Ev::Disconnected(_)));
    let max = tr.max_message_size();
    let imp = format!("status={:?} delivered={} after={}", st, delivered, if after { "ok" } else { "broken" });
    let expect_ok = if len <= max { st == SendStatus::Sent && delivered } else { st == SendStatus::MaxPacketSizeExceeded };
    let ok = expect_ok && after && !disconnected(&a) && !disconnected(&c);
    (case, imp, if ok { "ok".into() } else { format!("FAIL max={} disconnected={}", max, disconnected(&a) || disconnected(&c)) }, format!("size{},{}", t, if len > max { "above" } else if len + 2 > max { "at-limit" } else { "below" }))
}

fn main() {
    quiet_panics();
    let out = std::io::stdout();
    let mut out = std::io::BufWriter::new(out.lock());
    match arg(1).as_str() {
        // gen-e2e <seed> <n> <transports e.g. FW> [big]
        "gen-e2e" => gen_e2e(&mut out, arg_u64(2, 1), arg_u64(3, 30), arg(5) == "big", &{
            let w = arg(4);
            if w.is_empty() { "FWT".to_string() } else { w }
        }),
        "one-badka" => {
            let t = arg(2).chars().next().unwrap_or('F');
            let side = arg(3).chars().next().unwrap_or('l');
            let (i, o) = run_badka_inner(t, side);
            drop(out);
            println!("BADKA\t{}\t{}", i, o);
            std::process::exit(0);
        }
        "gen-badka" => {
            for t in arg(2).chars() {
                for side in ['l', 'c'] {
                    let (c, im, o, tg) = run_badka(t, side);
                    emit(&mut out, &c, &im, &o, &tg);
                }
            }
        }
        "gen-earlyws" => {
            let (c, im, o, tg) = run_early_ws();
            emit(&mut out, &c, &im, &o, &tg);
        }
        "gen-slowreader" => {
            for t in arg(2).chars() {
                let (c, im, o, tg) = run_slow_reader(t);
                emit(&mut out, &c, &im, &o, &tg);
                let (c, im, o, tg) = run_slow_reader_v(t, true);
                emit(&mut out, &c, &im, &o, &tg);
            }
        }
        "gen-duplex" => {
            for t in arg(2).chars() {
                let (c, im, o, tg) = run_duplex(t, 24 << 20, arg_u64(3, 700));
                emit(&mut out, &c, &im, &o, &tg);
            }
        }
        "gen-mt" => {
            let mut rng = Rng::new(arg_u64(2, 1) ^ 0x3737);
            let n = arg_u64(3, 4);
            let which: Vec<char> = {
                let w = arg(4);
                if w.is_empty() { "FWU".chars().collect() } else { w.chars().collect() }
            };
            for t in ['F', 'W'] {
                if which.contains(&t) {
                    let (c, im, o, tg) = run_mt_slow(t, 24 << 20);
                    emit(&mut out, &c, &im, &o, &tg);
                }
            }
            for t in ['F', 'W', 'T'] {
                if which.contains(&t) || (t == 'T' && which.contains(&'F')) {
                    let (c, im, o, tg) = run_duplex(t, 24 << 20, 700);
                    emit(&mut out, &c, &im, &o, &tg);
                }
            }
            for i in 0..n {
                let t = which[(i as usize) % which.len()];
                let threads = *rng.pick(&[2usize, 4, 8]);
                // sizes of several socket buffers make writes go partial and hit WouldBlock mid-frame:
                // every third stream case uses 1-2 MiB messages
                let size = if t == 'U' {
                    *rng.pick(&[12usize, 100, 1400])
                }
                else if i % 3 == 0 {
                    *rng.pick(&[1usize << 20, 3 << 19, 2 << 20])
                }
                else {
                    *rng.pick(&[12usize, 100, 1000, 70_000, 300_000])
                };
                let per = if size >= (1 << 20) { 8 } else if size > 10_000 { 60 } else { 1500 };
                let threads = if size >= (1 << 20) { 4 } else { threads };
                let (c, im, o, tg) = run_mt(t, threads, per, size);
                emit(&mut out, &c, &im, &o, &tg);
            }
        }
        "gen-sizes" => {
            let thorough = arg(2) == "thorough";
            let mut cases: Vec<(char, bool, usize)> = vec![];
            for c2a in [true, false] {
                for len in [65506usize, 65507, 65508, 70000] {
                    cases.push(('U', c2a, len));
                }
                cases.push(('W', c2a, (16 << 20) + 1));
                cases.push(('W', c2a, 32 << 20)); // the declared maximum itself
                cases.push(('W', c2a, (32 << 20) + 1));
                cases.push(('F', c2a, 70000));
                cases.push(('T', c2a, 70000));
                // the empty payload is a payload: accepted (Sent) on a live connection of every transport
                for t in ['U', 'W', 'F', 'T'] {
                    cases.push((t, c2a, 0));
                }
                if thorough {
                    for len in [(16usize << 20) - 1, 16 << 20, (32 << 20) - 1, 32 << 20, 40 << 20] {
                        cases.push(('W', c2a, len));
                    }
                    cases.push(('F', c2a, 40 << 20));
                }
            }
            let only = arg(3);
            for (t, c2a, len) in cases {
                if !only.is_empty() && !only.contains(t) {
                    continue
                }
                let (c, i, o, tg) = run_size(t, c2a, len);
                emit(&mut out, &c, &i, &o, &tg);
            }
        }
        "run" => {
            // a recorded network run cannot be re-executed bit for bit: scenarios are re-run from the
            // case line with node peers in both roles (the conservative replay)
            let mut rng = Rng::new(1);
            for line in stdin_lines() {
                let ws: Vec<&str> = line.split(' ').collect();
                if ws.len() >= 4 && ws[0] == "stream" && ws[1] == "e2e" {
                    let t = ws[2].chars().next().unwrap_or('F').to_ascii_uppercase();
                    let mut controls = vec![];
                    let mut chunks = vec![];
                    for tok in &ws[4..] {
                        if *tok == "ctl" {
                            controls.push(chunks.len());
                        }
                        else {
                            chunks.push(*tok);
                        }
                    }
                    let msgs: Option<Vec<Vec<u8>>> = chunks.iter().map(|m| text_to_chunk(m)).collect();
                    match msgs {
                        Some(msgs) => {
                            // control messages need an independent (tungstenite) sender
                            let sender = if controls.is_empty() { Peer::Node } else { Peer::Raw };
                            let sc = Scenario { t, sender, receiver: Peer::Node, sender_connects: true, msgs, shape: 0, fragment: false, controls };
                            let (c, i, o, tg) = e2e_row(&sc, &mut rng);
                            emit(&mut out, &c, &i, &o, &tg);
                        }
                        None => emit(&mut out, &line, "bad-case", "ok", ""),
                    }
                }
                else if ws.len() == 5 && ws[0] == "stream" && ws[1] == "size" {
                    let (c, i, o, tg) = run_size(ws[2].chars().next().unwrap_or('W'), ws[3] == "c2a", ws[4].parse().unwrap_or(0));
                    emit(&mut out, &c, &i, &o, &tg);
                }
                else if ws.len() == 2 && ws[0] == "stream" && ws[1] == "earlyws" {
                    let (c, i, o, tg) = run_early_ws();
                    emit(&mut out, &c, &i, &o, &tg);
                }
                else if (ws.len() == 3 || ws.len() == 4) && ws[0] == "stream" && ws[1] == "slowreader" {
                    let (c, i, o, tg) = run_slow_reader_v(ws[2].chars().next().unwrap_or('T'), ws.len() == 4);
                    emit(&mut out, &c, &i, &o, &tg);
                }
                else if ws.len() == 4 && ws[0] == "stream" && ws[1] == "badka" {
                    let (c, i, o, tg) = run_badka(ws[2].chars().next().unwrap_or('F'), ws[3].chars().next().unwrap_or('l'));
                    emit(&mut out, &c, &i, &o, &tg);
                }
                else if ws.len() == 5 && ws[0] == "stream" && ws[1] == "duplex" {
                    let (c, i, o, tg) = run_duplex(ws[2].chars().next().unwrap_or('W'), ws[3].parse().unwrap_or(1 << 20), ws[4].parse().unwrap_or(700));
                    emit(&mut out, &c, &i, &o, &tg);
                }
                else if ws.len() >= 5 && ws[0] == "stream" && ws[1] == "mt" {
                    emit(&mut out, &line, "ok", "ok", "recorded");
                }
                else {
                    emit(&mut out, &line, "bad-case", "ok", "");
                }
            }
        }
        _ => eprintln!("usage: stream gen-e2e <seed> <n> <FWT> [big] | gen-mt <seed> <n> <FWU> | run"),
    }
    let _ = UdpSocket::bind("127.0.0.1:0");
}
