//! C19 tie: `RemoteAddr` conversions, predicates, accessors, Display on generated strings.
//! Case line: `addr <hex utf8 of input> <S:hex of Display of the parsed SocketAddr | N>`; the
//! second column is Rust's own `str::parse::<SocketAddr>()` (the parser the model is parametric in).
use mio_harness::*;
use message_io::network::{RemoteAddr, ToRemoteAddr};
use std::net::{SocketAddr, SocketAddrV4, SocketAddrV6, Ipv4Addr, Ipv6Addr, IpAddr, ToSocketAddrs};
use std::panic::catch_unwind;

fn observe(r: &RemoteAddr) -> String {
    let sa = catch_unwind(|| to_hex(r.socket_addr().to_string().as_bytes()))
        .unwrap_or_else(|_| "panic".into());
    let st = catch_unwind(|| to_hex(r.string().as_bytes())).unwrap_or_else(|_| "panic".into());
    let tsa = match r.to_socket_addrs() {
        Ok(mut it) => {
            let a = it.next().map(|a| to_hex(a.to_string().as_bytes())).unwrap_or("empty".into());
            if it.next().is_some() {
                "many".into()
            }
            else {
                a
            }
        }
        Err(_) => "err".into(),
    };
    format!(
        "sock={} str={} socket_addr={} string={} to_socket_addrs={} display={}",
        r.is_socket_addr(),
        r.is_string(),
        sa,
        st,
        tsa,
        to_hex(r.to_string().as_bytes())
    )
}

fn run_case(s: &str) -> (String, String, String, String) {
    let parsed: Option<SocketAddr> = s.parse().ok();
    let col = match parsed {
        Some(a) => format!("S:{}", to_hex(a.to_string().as_bytes())),
        None => "N".into(),
    };
    let case = format!("addr {} {}", to_hex(s.as_bytes()), col);
    // the conversion accepts any string: a panic or an error is a failure of this case, not of the harness
    let conv = std::panic::catch_unwind(|| {
        let r1 = s.to_remote_addr().ok()?;
        let r2 = s.to_string().to_remote_addr().ok()?;
        let r3 = (&s.to_string()).to_remote_addr().ok()?;
        let r4 = r1.to_remote_addr().ok()?;
        Some((r1, r2, r3, r4))
    });
    // the four string-ish impls must agree
    let (r1, r2, r3, r4) = match conv {
        Ok(Some(x)) => x,
        Ok(None) => return (case, "error".into(), "FAIL the conversion returned an error".into(), "text".into()),
        Err(_) => return (case, "panic".into(), "FAIL the conversion panicked".into(), if s.is_ascii() { "text".into() } else { "text,nonascii".into() }),
    };
    let imp = observe(&r1);
    // direct oracle: the property statement on the implementation's own output
    let mut ok = r1 == r2 && r1 == r3 && r1 == r4;
    match parsed {
        Some(a) => {
            ok &= r1 == RemoteAddr::Socket(a) && r1.is_socket_addr() && !r1.is_string();
            ok &= catch_unwind(|| *r1.socket_addr() == a).unwrap_or(false);
            ok &= r1.to_string() == a.to_string();
        }
        None => {
            ok &= r1 == RemoteAddr::Str(s.to_string()) && !r1.is_socket_addr() && r1.is_string();
            ok &= catch_unwind(|| r1.string() == s).unwrap_or(false);
            ok &= r1.to_string() == s;
        }
    }
    let tags = format!(
        "{}{}",
        if parsed.is_some() { "parses" } else { "text" },
        if s.is_ascii() { "" } else { ",nonascii" }
    );
    (case, imp, if ok { "ok".into() } else { "FAIL".into() }, tags)
}

/// ports: the boundary values often, otherwise uniform
fn port(rng: &mut Rng) -> u64 {
    if rng.chance(1, 6) { *rng.pick(&[0u64, 0, 1, 80, 65535, 65534]) } else { rng.below(65536) }
}

fn gen_string(rng: &mut Rng) -> String {
    let v4 = |rng: &mut Rng| {
        format!("{}.{}.{}.{}", rng.below(256), rng.below(256), rng.below(256), rng.below(256))
    };
    let v6s = [
        "::1", "::", "fe80::1", "2001:db8::8a2e:370:7334", "::ffff:1.2.3.4", "1:2:3:4:5:6:7:8",
        "fe80::1%eth0", "fe80::1%1",
        // the longest textual forms
        "ffff:ffff:ffff:ffff:ffff:ffff:ffff:ffff", "1111:2222:3333:4444:5555:6666:255.255.255.255",
        "fe80:1111:2222:3333:4444:5555:6666:7777%4294967295", "1111:2222:3333:4444:5555:6666:255.255.255.255%4294967295",
        "0000:0000:0000:0000:0000:0000:0000:0001", "fe80::1%4294967296",
        // uppercase and mixed-case hex digits are the same address
        "FE80::1", "2001:DB8::8A2E:370:7334", "::FFFF:192.168.0.1", "Fe80::aB", "ABCD:EF01:2345:6789:ABCD:EF01:2345:6789",
    ];
    let hosts = ["localhost", "example.com", "my-host.local", "a", "x.y.z", "ñandú.es", "服务器"];
    match rng.below(22) {
        0 | 1 | 2 => format!("{}:{}", v4(rng), port(rng)),
        3 | 4 => format!("[{}]:{}", rng.pick(&v6s), port(rng)),
        5 => v4(rng),                                        // missing port
        6 => format!("{}:{}", v4(rng), 65536 + rng.below(10)), // port out of range
        7 => format!("{}.256.1.1:{}", rng.below(256), port(rng)),
        8 => format!("{}:{}", rng.pick(&v6s), port(rng)), // missing brackets
        9 => format!("{}:{}", rng.pick(&hosts), port(rng)),
        10 => match rng.below(6) {
            // urls that are not in their canonical serialisation: the text is kept as given
            0 => format!("ws://{}:{}", rng.pick(&hosts), port(rng)),
            1 => format!("WS://Host.Example:80/{}", rng.below(10)),
            2 => format!("ws://{}/a/../b", rng.pick(&hosts)),
            3 => format!("Host:{}", port(rng)),
            4 => format!("wss://{}:443/x", rng.pick(&hosts)),
            _ => format!("ws://{}:{}/path", rng.pick(&hosts), port(rng)),
        },
        11 => format!("wss://{}/{}", v4(rng), rng.below(100)),
        12 => String::new(),
        13 => format!(" {}:{}", v4(rng), port(rng)),
        14 => format!("{}:{} ", v4(rng), port(rng)),
        15 => format!("0{}.01.1.1:{}", rng.below(10), port(rng)), // leading zeros
        16 => format!("{}:0{}", v4(rng), rng.below(6000)),
        17 => match rng.below(4) {
            // what an integer parser accepts and the socket-address grammar does not: signs, spaces, underscores
            0 => format!("{}:+{}", v4(rng), port(rng)),
            1 => format!("[{}]:+{}", rng.pick(&v6s), port(rng)),
            2 => format!("{}:-{}", v4(rng), rng.below(2)),
            _ => format!("{}:", v4(rng)),
        },
        18 => format!(":{}", port(rng)),
        19 => format!("[{}]", rng.pick(&v6s)),
        20 => {
            let n = rng.below(12) as usize;
            let alphabet: Vec<char> = "0123456789.:[]%abcdefx/ -é".chars().collect();
            (0..n).map(|_| *rng.pick(&alphabet)).collect()
        }
        _ => format!("{}:{}:{}", v4(rng), port(rng), rng.below(10)),
    }
}

/// conversions from socket-address typed values (lossless): checked directly, no model column
fn typed_conversions(rng: &mut Rng, n: u64) -> (u64, u64, String) {
    let mut bad = 0;
    let mut first = String::new();
    for _ in 0..n {
        let port = port(rng) as u16;
        let v4 = match rng.below(8) {
            0 => Ipv4Addr::new(0, 0, 0, 0),
            1 => Ipv4Addr::new(255, 255, 255, 255),
            2 => Ipv4Addr::new(127, 0, 0, rng.below(256) as u8),
            3 => Ipv4Addr::new(224, 0, 0, rng.below(256) as u8),
            _ => Ipv4Addr::from((rng.next() as u32).to_be_bytes()),
        };
        // the forms of an IPv6 address that other code likes to "normalise": IPv4-mapped, IPv4-compatible,
        // NAT64, 6to4, loopback, unspecified, link-local, multicast — next to arbitrary ones
        let o = v4.octets();
        let w = [((o[0] as u16) << 8) | o[1] as u16, ((o[2] as u16) << 8) | o[3] as u16];
        let v6 = match rng.below(12) {
            0 => Ipv6Addr::new(0, 0, 0, 0, 0, 0xffff, w[0], w[1]),
            1 => Ipv6Addr::new(0, 0, 0, 0, 0, 0, w[0], w[1]),
            2 => Ipv6Addr::new(0x64, 0xff9b, 0, 0, 0, 0, w[0], w[1]),
            3 => Ipv6Addr::new(0x2002, w[0], w[1], 0, 0, 0, 0, 1),
            4 => Ipv6Addr::LOCALHOST,
            5 => Ipv6Addr::UNSPECIFIED,
            6 => Ipv6Addr::new(0xfe80, 0, 0, 0, rng.next() as u16, 0, 0, 1),
            7 => Ipv6Addr::new(0xff02, 0, 0, 0, 0, 0, 0, rng.below(3) as u16),
            _ => Ipv6Addr::from((((rng.next() as u128) << 64) | rng.next() as u128).to_be_bytes()),
        };
        let a4 = SocketAddrV4::new(v4, port);
        let (flow, scope) = if rng.chance(1, 2) { (rng.next() as u32, rng.next() as u32) } else { (0, rng.below(4) as u32) };
        let a6 = SocketAddrV6::new(v6, port, flow, scope);
        let checks: Vec<(RemoteAddr, SocketAddr)> = vec![
            (a4.to_remote_addr().unwrap(), SocketAddr::V4(a4)),
            (a6.to_remote_addr().unwrap(), SocketAddr::V6(a6)),
            (SocketAddr::V4(a4).to_remote_addr().unwrap(), SocketAddr::V4(a4)),
            (SocketAddr::V6(a6).to_remote_addr().unwrap(), SocketAddr::V6(a6)),
            ((v4, port).to_remote_addr().unwrap(), SocketAddr::V4(a4)),
            ((v6, port).to_remote_addr().unwrap(), SocketAddr::V6(SocketAddrV6::new(v6, port, 0, 0))),
            ((IpAddr::V4(v4), port).to_remote_addr().unwrap(), SocketAddr::V4(a4)),
            ((v4.to_string().as_str(), port).to_remote_addr().unwrap(), SocketAddr::V4(a4)),
            ((v4.to_string(), port).to_remote_addr().unwrap(), SocketAddr::V4(a4)),
        ];
        for (k, (r, a)) in checks.into_iter().enumerate() {
            let ok = r == RemoteAddr::Socket(a)
                && r.is_socket_addr()
                && !r.is_string()
                && *r.socket_addr() == a
                && r.to_socket_addrs().unwrap().next() == Some(a)
                && r.to_string() == a.to_string();
            if !ok {
                bad += 1;
                if first.is_empty() {
                    first = format!("conversion#{} of {:?} gave {:?}", k, a, r);
                }
            }
        }
    }
    (n * 9, bad, first)
}

fn main() {
    quiet_panics();
    let out = std::io::stdout();
    let mut out = std::io::BufWriter::new(out.lock());
    match arg(1).as_str() {
        "gen" => {
            let mut rng = Rng::new(arg_u64(2, 1));
            let n = arg_u64(3, 1000);
            for fixed in ["127.0.0.1:80", "ws://x:1/", "[::1]:443", "", "localhost:80"] {
                let (c, i, o, t) = run_case(fixed);
                emit(&mut out, &c, &i, &o, &t);
            }
            for _ in 0..n {
                let s = gen_string(&mut rng);
                let (c, i, o, t) = run_case(&s);
                emit(&mut out, &c, &i, &o, &t);
            }
            let (n, bad, first) = typed_conversions(&mut rng, n / 4 + 1);
            emit(&mut out, "#typed", &format!("{} conversions, {} lossy; first: {}", n, bad, first), if bad == 0 { "ok" } else { "FAIL" }, "typed");
        }
        "run" => {
            for line in stdin_lines() {
                let ws: Vec<&str> = line.split(' ').collect();
                let s = ws.get(1).and_then(|h| from_hex(h)).and_then(|b| String::from_utf8(b).ok());
                match s {
                    Some(s) => {
                        let (c, i, o, t) = run_case(&s);
                        emit(&mut out, &c, &i, &o, &t);
                    }
                    None => emit(&mut out, &line, "bad-case", "ok", ""),
                }
            }
        }
        _ => eprintln!("usage: addr gen <seed> <n> | run"),
    }
}
