//! Shared pieces of the correspondence harness: PRNG, the chunk codec of the line protocol
//! (mirrors `lean/MioModel/Bytes.lean`), canonical payload rendering, small helpers.

use std::io::{BufRead, Write};

/// xorshift64*; every random choice of a run derives from one state (VERIF_SEED).
#[derive(Clone)]
pub struct Rng(pub u64);

impl Rng {
    pub fn new(seed: u64) -> Rng {
        Rng(seed.wrapping_mul(0x9E3779B97F4A7C15) ^ 0xD1B54A32D192ED03 | 1)
    }
    pub fn next(&mut self) -> u64 {
        let mut x = self.0;
        x ^= x >> 12;
        x ^= x << 25;
        x ^= x >> 27;
        self.0 = x;
        x.wrapping_mul(0x2545F4914F6CDD1D)
    }
    pub fn below(&mut self, n: u64) -> u64 {
        if n == 0 {
            0
        }
        else {
            self.next() % n
        }
    }
    pub fn range(&mut self, lo: u64, hi: u64) -> u64 {
        lo + self.below(hi - lo + 1)
    }
    pub fn chance(&mut self, num: u64, den: u64) -> bool {
        self.below(den) < num
    }
    pub fn pick<'a, T>(&mut self, xs: &'a [T]) -> &'a T {
        &xs[self.below(xs.len() as u64) as usize]
    }
    pub fn bytes(&mut self, n: usize) -> Vec<u8> {
        (0..n).map(|_| self.next() as u8).collect()
    }
}

pub fn to_hex(bs: &[u8]) -> String {
    let mut s = String::with_capacity(bs.len() * 2);
    for b in bs {
        s.push_str(&format!("{:02x}", b));
    }
    s
}

pub fn from_hex(s: &str) -> Option<Vec<u8>> {
    if s.len() % 2 != 0 {
        return None
    }
    let b = s.as_bytes();
    let mut out = Vec::with_capacity(s.len() / 2);
    for i in (0..b.len()).step_by(2) {
        let h = (b[i] as char).to_digit(16)?;
        let l = (b[i + 1] as char).to_digit(16)?;
        if (b[i] as char).is_ascii_uppercase() || (b[i + 1] as char).is_ascii_uppercase() {
            return None
        }
        out.push((h * 16 + l) as u8);
    }
    Some(out)
}

/// chunk -> text: `-` when empty, otherwise `.`-joined tokens (hex, or `R<hh>*<n>` for runs >= 8)
pub fn chunk_to_text(bs: &[u8]) -> String {
    if bs.is_empty() {
        return "-".into()
    }
    let mut toks: Vec<String> = vec![];
    let mut lit: Vec<u8> = vec![];
    let mut i = 0;
    while i < bs.len() {
        let mut j = i;
        while j < bs.len() && bs[j] == bs[i] {
            j += 1;
        }
        if j - i >= 8 {
            if !lit.is_empty() {
                toks.push(to_hex(&lit));
                lit.clear();
            }
            toks.push(format!("R{:02x}*{}", bs[i], j - i));
        }
        else {
            lit.extend_from_slice(&bs[i..j]);
        }
        i = j;
    }
    if !lit.is_empty() {
        toks.push(to_hex(&lit));
    }
    toks.join(".")
}

pub fn text_to_chunk(s: &str) -> Option<Vec<u8>> {
    if s == "-" {
        return Some(vec![])
    }
    let mut out = vec![];
    for t in s.split('.') {
        if let Some(rest) = t.strip_prefix('R') {
            let (hh, n) = rest.split_once('*')?;
            let b = from_hex(hh)?;
            if b.len() != 1 {
                return None
            }
            let n: usize = n.parse().ok()?;
            out.extend(std::iter::repeat(b[0]).take(n));
        }
        else {
            out.extend(from_hex(t)?);
        }
    }
    Some(out)
}

pub fn fnv1a(bs: &[u8]) -> u64 {
    let mut h: u64 = 0xcbf29ce484222325;
    for b in bs {
        h = (h ^ (*b as u64)).wrapping_mul(0x100000001b3);
    }
    h
}

/// canonical rendering of a payload (same as `Mio.showPayload`)
pub fn show_payload(bs: &[u8]) -> String {
    if bs.len() <= 32 {
        format!("{}:{}", bs.len(), to_hex(bs))
    }
    else {
        format!("{}:#{}", bs.len(), fnv1a(bs))
    }
}

pub fn show_outs(outs: &[Vec<u8>]) -> String {
    format!("[{}]", outs.iter().map(|o| show_payload(o)).collect::<Vec<_>>().join(","))
}

/// number of panics seen in this process (any thread)
pub static PANICS: std::sync::atomic::AtomicUsize = std::sync::atomic::AtomicUsize::new(0);

/// Silence the default panic message (cases run under catch_unwind) and count panics.
pub fn quiet_panics() {
    std::panic::set_hook(Box::new(|_| {
        PANICS.fetch_add(1, std::sync::atomic::Ordering::SeqCst);
    }));
}
pub fn panics() -> usize {
    PANICS.load(std::sync::atomic::Ordering::SeqCst)
}

pub fn stdin_lines() -> Vec<String> {
    std::io::stdin().lock().lines().map(|l| l.unwrap()).collect()
}

/// one output row: case line, implementation output, direct-oracle verdict, tags
pub fn emit(out: &mut impl Write, case: &str, imp: &str, oracle: &str, tags: &str) {
    writeln!(out, "{}\t{}\t{}\t{}", case, imp, oracle, tags).unwrap();
}

pub fn arg(n: usize) -> String {
    std::env::args().nth(n).unwrap_or_default()
}
pub fn arg_u64(n: usize, default: u64) -> u64 {
    std::env::args().nth(n).and_then(|s| s.parse().ok()).unwrap_or(default)
}
