import MioModel.Bytes
/-! M1a — LEB128 as implemented by `integer-encoding` 3.0.4 `u64::{encode_var, decode_var}`, which is
what `message_io::util::encoding::{encode_size, decode_size}` (src/util/encoding.rs:9-18) call. -/
namespace Mio

/-- `u64::encode_var`: `while n >= 0x80 { dst[i] = MSB | (n as u8); n >>= 7 }; dst[i] = n as u8`. -/
def encodeVar (n : Nat) : Bytes :=
  if h : n < 128 then [UInt8.ofNat n]
  else UInt8.ofNat (n % 128 + 128) :: encodeVar (n / 128)
termination_by n
decreasing_by omega

/-- `u64::decode_var` loop with accumulator `result` and `shift`; `<<` on u64 drops the high bits.
`none`: ran out of bytes, or ten bytes with the continuation bit (`shift > 63`). -/
def decodeVarAux : Bytes → Nat → Nat → Option (Nat × Nat)
  | [], _, _ => none
  | b :: bs, result, shift =>
    let result := result ||| (((b.toNat &&& 0x7f) <<< shift) % 2 ^ 64)
    let shift := shift + 7
    if b.toNat &&& 0x80 = 0 then some (result, shift / 7)
    else if shift > 63 then none
    else decodeVarAux bs result shift

/-- `decode_size`: value and number of bytes consumed. -/
def decodeVar (bs : Bytes) : Option (Nat × Nat) := decodeVarAux bs 0 0

end Mio
