/-! M5 — one adapter's driver: `src/network/driver.rs` (lines 147-328), `registry.rs` (43-64), the
controller/processor entry points of `network.rs`.

Resources are identified by their generator base value (`Nat`; freshness and the bit layout are M6).
A *register* (the `Arc<Register<…>>`: resource + properties, in particular the `ready` flag) lives as
long as somebody holds it; the registry map only says which ids are currently *live*.  User calls
(`connect`, `listen`, `send`, `remove`, `is_ready`) are atomic steps that any thread — including the
callback running inside a processor step — may take at any time.  `process(id, readiness)` of the
single processor thread is split at every point where it releases the registry lock or invokes the
callback, so every interleaving the real locks allow is a schedule. Adapter answers (`pending`,
`receive`, `accept`, `send`) are inputs. -/
namespace Mio.Net

inductive Ev where
  | connected (id : Nat) (ok : Bool)
  | accepted (id : Nat) (listener : Nat)
  | message (id : Nat)                 -- a `Message` for a remote endpoint (payload abstracted)
  | data (listener : Nat) (peer : Nat)   -- a `Message` reported with a listener's id (UDP)
  | disconnected (id : Nat)
deriving DecidableEq, Repr

def Ev.rid : Ev → Option Nat
  | .connected id _ => some id
  | .accepted id _ => some id
  | .message id => some id
  | .data _ _ => none
  | .disconnected id => some id

/-- a remote register: who accepted it (none = `connect()`), the shared `ready` flag, the peer -/
structure Reg where
  id : Nat
  listener : Option Nat
  ready : Bool
  peer : Nat
deriving DecidableEq, Repr

inductive Pending where
  | ready | incomplete | disconnected
deriving DecidableEq, Repr

inductive Status where
  | sent | maxPacketSizeExceeded | resourceNotFound | resourceNotAvailable
deriving DecidableEq, Repr

/-- who performed a successful `deregister` -/
inductive Who where
  | user | procRead | procPending
deriving DecidableEq, Repr

/-- where the processor is inside `process(id, _)` -/
inductive Proc where
  | idle
  | got (id : Nat) (read : Bool)            -- holds the Arc, about to look at `ready`
  | readyChecked (id : Nat) (read : Bool)   -- after the pending part, about to re-read `ready`
  | receiving (id : Nat) (left : Nat) (disc : Bool)   -- inside `receive`: `left` callbacks to go
  | afterReceive (id : Nat) (disc : Bool)   -- `receive` returned; `disc` = ReadStatus::Disconnected
  | accepting (lid : Nat) (remotes : List Nat) (datas : List Nat)  -- inside `accept` of a listener
deriving DecidableEq, Repr

structure St where
  regs : List Reg := []          -- every remote register ever created (append-only; `ready` mutable)
  live : List Nat := []          -- remote ids currently in the registry map
  locals : List Nat := []        -- listener ids currently in the registry map
  nextRemote : Nat := 0
  nextLocal : Nat := 0
  proc : Proc := .idle
  log : List Ev := []            -- events handed to the callback, oldest first
  -- ghosts
  dereg : List (Nat × Who) := []        -- successful deregistrations of remotes
  removeTrue : List Nat := []           -- remote ids for which `remove()` returned true
  results : List (String × Nat × String) := []   -- (call, id, result) of user calls, oldest first
  adapterSends : List Nat := []         -- ids whose adapter `send` was actually invoked

inductive Act where
  | connect (peer : Nat)                      -- `connect()` that registers a resource
  | listen
  | send (id : Nat) (adapter : Status)        -- `adapter`: what the adapter would answer
  | sendLocal (lid : Nat) (adapter : Status)  -- `send` to an endpoint that names a listener (UDP `send_to`)
  | remove (id : Nat)
  | removeLocal (lid : Nat)
  | isReady (id : Nat)
  | pollRemote (id : Nat) (read : Bool)       -- the poll hands a (possibly stale) event to `process`
  | pending (ans : Pending)                   -- `resolve_pending_remote`
  | checkReady
  | beginReceive (n : Nat) (disc : Bool)      -- the adapter's `receive` will call back n times
  | deliver                                   -- one `Message` callback
  | endReceive
  | finish                                    -- deregister-if-disconnected, emit, drop the Arc
  | pollLocal (lid : Nat) (remotes : List Nat) (datas : List Nat)   -- `accept`: new peers / datagrams
  | acceptOne
deriving Repr

def findReg (s : St) (id : Nat) : Option Reg := s.regs.find? (·.id = id)

def setReady (regs : List Reg) (id : Nat) : List Reg :=
  regs.map fun r => if r.id = id then { r with ready := true } else r

def isLive (s : St) (id : Nat) : Bool := s.live.contains id

/-- `deregister`: true iff the id was in the map -/
def deregister (s : St) (id : Nat) (who : Who) : Bool × St :=
  if isLive s id then (true, { s with live := s.live.filter (· ≠ id), dereg := s.dereg ++ [(id, who)] })
  else (false, s)

def emit (s : St) (e : Ev) : St := { s with log := s.log ++ [e] }
def record (s : St) (call : String) (id : Nat) (res : String) : St :=
  { s with results := s.results ++ [(call, id, res)] }

def showStatus : Status → String
  | .sent => "Sent" | .maxPacketSizeExceeded => "MaxPacketSizeExceeded"
  | .resourceNotFound => "ResourceNotFound" | .resourceNotAvailable => "ResourceNotAvailable"

/-- one step; `none` = not enabled -/
def step (s : St) : Act → Option St
  | .connect peer =>
    -- `register()` holds the write lock over poll registration and map insertion: atomic
    let id := s.nextRemote
    some (record { s with regs := s.regs ++ [{ id, listener := none, ready := false, peer }],
                          live := s.live ++ [id], nextRemote := id + 1 } "connect" id "ok")
  | .listen =>
    let lid := s.nextLocal
    some (record { s with locals := s.locals ++ [lid], nextLocal := lid + 1 } "listen" lid "ok")
  | .send id adapter =>
    if isLive s id then
      match findReg s id with
      | some r =>
        if r.ready then
          some (record { s with adapterSends := s.adapterSends ++ [id] } "send" id (showStatus adapter))
        else some (record s "send" id (showStatus .resourceNotAvailable))
      | none => some (record s "send" id (showStatus .resourceNotFound))
    else some (record s "send" id (showStatus .resourceNotFound))
  | .sendLocal lid adapter =>
    if s.locals.contains lid then some (record s "sendLocal" lid (showStatus adapter))
    else some (record s "sendLocal" lid (showStatus .resourceNotFound))
  | .remove id =>
    let (ok, s') := deregister s id .user
    some (record (if ok then { s' with removeTrue := s'.removeTrue ++ [id] } else s') "remove" id (toString ok))
  | .removeLocal lid =>
    if s.locals.contains lid then
      some (record { s with locals := s.locals.filter (· ≠ lid) } "removeLocal" lid "true")
    else some (record s "removeLocal" lid "false")
  | .isReady id =>
    if isLive s id then
      match findReg s id with
      | some r => some (record s "isReady" id (if r.ready then "Some(true)" else "Some(false)"))
      | none => some (record s "isReady" id "None")
    else some (record s "isReady" id "None")
  | .pollRemote id read =>
    match s.proc with
    | .idle => if isLive s id then some { s with proc := .got id read } else some s   -- stale event: ignored
    | _ => none
  | .pending ans =>
    match s.proc with
    | .got id read =>
      match findReg s id with
      | some r =>
        if r.ready then none        -- `pending` is only called while not ready
        else
          match ans with
          | .ready =>
            let s1 := { s with regs := setReady s.regs id, proc := .readyChecked id read }
            some (emit s1 (match r.listener with
              | some l => .accepted id l
              | none => .connected id true))
          | .incomplete => some { s with proc := .readyChecked id read }
          | .disconnected =>
            let (_, s1) := deregister s id .procPending
            let s2 := { s1 with proc := .readyChecked id read }
            some (match r.listener with
              | none => emit s2 (.connected id false)
              | some _ => s2)
      | none => none
    | _ => none
  | .checkReady =>
    match s.proc with
    | .got id read =>
      -- the first `if !is_ready()` was false: skip the pending part
      match findReg s id with
      | some r => if r.ready then some { s with proc := .readyChecked id read } else none
      | none => none
    | _ => none
  | .beginReceive n disc =>
    match s.proc with
    | .readyChecked id read =>
      match findReg s id with
      | some r =>
        if r.ready then
          if read then some { s with proc := .receiving id n disc }
          else some { s with proc := .idle }          -- write event: `ready_to_write()` is always true
        else if n = 0 ∧ disc = false then some { s with proc := .idle }   -- not ready: nothing more to do
        else none
      | none => none
    | _ => none
  | .deliver =>
    match s.proc with
    | .receiving id (left + 1) disc => some (emit { s with proc := .receiving id left disc } (.message id))
    | _ => none
  | .endReceive =>
    match s.proc with
    | .receiving id 0 disc => some { s with proc := .afterReceive id disc }
    | _ => none
  | .finish =>
    match s.proc with
    | .afterReceive id disc =>
      if disc then
        let (ok, s1) := deregister s id .procRead
        let s2 := { s1 with proc := .idle }
        some (if ok then emit s2 (.disconnected id) else s2)
      else some { s with proc := .idle }
    | _ => none
  | .pollLocal lid remotes datas =>
    match s.proc with
    | .idle => if s.locals.contains lid then some { s with proc := .accepting lid remotes datas } else some s
    | _ => none
  | .acceptOne =>
    match s.proc with
    | .accepting lid (peer :: rest) datas =>
      let id := s.nextRemote
      some { s with regs := s.regs ++ [{ id, listener := some lid, ready := false, peer }],
                    live := s.live ++ [id], nextRemote := id + 1, proc := .accepting lid rest datas }
    | .accepting lid [] (peer :: rest) => some (emit { s with proc := .accepting lid [] rest } (.data lid peer))
    | .accepting _ [] [] => some { s with proc := .idle }
    | _ => none

def run : St → List Act → Option St
  | s, [] => some s
  | s, a :: as =>
    match step s a with
    | some s' => run s' as
    | none => none

def Reachable (s : St) : Prop := ∃ acts, run {} acts = some s

/-- sockets still open: a register is alive while the map or an in-flight processor step holds it -/
def procHolds : Proc → Option Nat
  | .idle => none
  | .got id _ => some id
  | .readyChecked id _ => some id
  | .receiving id _ _ => some id
  | .afterReceive id _ => some id
  | .accepting _ _ _ => none

def openSockets (s : St) : List Nat :=
  match procHolds s.proc with
  | some id => if s.live.contains id then s.live else id :: s.live
  | none => s.live

end Mio.Net
