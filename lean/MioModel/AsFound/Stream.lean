import MioModel.Stream
/-! As-found variants of two adapter loops (F7, F8 of DESIGN §9), kept only to state the concrete
counterexamples that were replayed on the implementation. -/
namespace Mio.AsFound.Stream
open Mio Mio.Stream

/-- F7: `ws::receive` as found — after each message it peeked the *socket* and stopped with
`WaitNextEvent` when the socket had nothing more, whatever the codec had buffered. -/
def wsReceive : WsConn → List WsAns → Nat → WsRecv
  | c, _, 0 => { conn := c, outs := [], status := none }
  | c, sched, fuel + 1 =>
    let deliver (m : WsMsg) (c' : WsConn) (sched' : List WsAns) : WsRecv :=
      match m with
      | none => wsReceive c' sched' fuel
      | some data =>
        if c'.sock = [] then { conn := c', outs := [data], status := some .waitNextEvent }   -- peek: WouldBlock
        else
          let r := wsReceive c' sched' fuel
          { r with outs := data :: r.outs }
    match c.buf with
    | m :: ms => deliver m { c with buf := ms } sched
    | [] =>
      match sched with
      | [] => { conn := c, outs := [], status := none }
      | .wouldBlock :: _ => { conn := c, outs := [], status := some .waitNextEvent }
      | .close :: _ => { conn := c, outs := [], status := some .disconnected }
      | .fill k :: as =>
        let k := max 1 (min k c.sock.length)
        match c.sock.take k with
        | [] => { conn := c, outs := [], status := none }
        | m :: ms => deliver m { sock := c.sock.drop k, buf := ms } as

/-- three messages arrive back to back and the codec reads them in one socket access: one is
delivered, two stay in the codec's buffer although `WaitNextEvent` was reported -/
theorem asfound_ws_strands_buffered_messages :
    let r := wsReceive { sock := [some [1], some [2], some [3]], buf := [] } [.fill 3, .wouldBlock] 10
    r.outs = [[1]] ∧ r.status = some .waitNextEvent ∧ r.conn.buf = [some [2], some [3]] := by decide

/-- F8: two threads sending on one FramedTcp endpoint without the send lock: the unit of
interleaving is one `write`.  Thread A writes its prefix, thread B its prefix, then the payloads. -/
def interleavedWire (a b : Bytes) : Bytes := encodeVar a.length ++ encodeVar b.length ++ a ++ b

theorem asfound_interleaved_frames_decode_to_garbage :
    feed [] [interleavedWire [0xAA, 0xAA, 0xAA] [0xBB, 0xBB]] = some ([0xAA, 0xBB, 0xBB], [[0x02, 0xAA, 0xAA]]) := by
  rw [interleavedWire]
  have h3 : encodeVar 3 = [3] := by rw [encodeVar]; simp
  have h2 : encodeVar 2 = [2] := by rw [encodeVar]; simp
  simp only [List.length_cons, List.length_nil, h3, h2]
  decide

end Mio.AsFound.Stream
