import MioModel.EventQueueConc
/-! The event queue as found at the pinned commit, reduced to the three defects F2, F9, F10 of
DESIGN.md §9.  Kept only to state (and `decide`) the concrete counterexamples that were replayed on
the implementation; not tied to the current source, carrying no property. -/
namespace Mio.AsFound.EvQ
open Mio.EvQ

/-- F2: `try_receive` as found — the plain channel is only looked at when *no* timer is pending. -/
def tryReceive (now : Nat) (q : Q Nat) : Option Nat :=
  let ts := foldCmds q.timers q.cmds
  match q.prio with
  | p :: _ => some p
  | [] =>
    match ts with
    | (k, e) :: _ => if k.deadline ≤ now then some e else none
    | [] => q.plain.head?

def exQ : Q Nat := send (sendTimer ({} : Q Nat) 0 1000 7).2 42

theorem asfound_try_receive_hides_plain : tryReceive 5 exQ = none := by decide
theorem current_try_receive_returns_plain : (Mio.EvQ.tryReceive 5 exQ).1 = some 42 := by decide

/-- F9: timers keyed by the bare deadline (sequence number always 0): two timers on one instant. -/
def sendTimer0 (q : Q Nat) (now dur e : Nat) : Q Nat :=
  { q with cmds := q.cmds ++ [(⟨now + dur, 0⟩, .create e)] }

theorem asfound_same_instant_overwrites :
    foldCmds [] (sendTimer0 (sendTimer0 ({} : Q Nat) 0 10 1) 0 10 2).cmds = [(⟨10, 0⟩, 2)] := by decide
theorem current_same_instant_keeps_both :
    foldCmds [] (sendTimer (sendTimer ({} : Q Nat) 0 10 1).2 0 10 2).2.cmds = [(⟨10, 0⟩, 1), (⟨10, 1⟩, 2)] := by
  decide

/-- F10: the blocking `select!` as found watches the plain and priority channels and the first
timer known when it blocked — not the timer command channel. -/
def wakeReadyAsFound (s : St Nat) : Bool :=
  !s.q.plain.isEmpty || !s.q.prio.isEmpty ||
    (match s.q.timers with
     | (k, _) :: _ => decide (k.deadline ≤ s.now)
     | [] => false)

/-- receiver blocks on an empty queue; another thread schedules a 10-unit timer; 10 units pass -/
def stuckSchedule : List (Act Nat) :=
  [.call .recv 0, .readClock, .foldPick, .tick 100, .sendTimer 10 7, .tick 10]

theorem asfound_blocked_receiver_sleeps_through_timer :
    ∃ s, run {} stuckSchedule = some s ∧ s.rx = .blocked .recv none ∧
      (∃ p ∈ foldCmds s.q.timers s.q.cmds, p.1.deadline ≤ s.now) ∧ wakeReadyAsFound s = false :=
  ⟨_, rfl, by decide, ⟨(⟨110, 0⟩, 7), by decide, by decide⟩, by decide⟩

/-- on the current model the same state has an enabled wake-up (the command channel) -/
theorem current_wakes : ∃ s s', run {} stuckSchedule = some s ∧ step s (.wake .cmd) = some s' :=
  ⟨_, _, rfl, rfl⟩

end Mio.AsFound.EvQ
