import MioModel.Decoder
/-! The decoder as found at the pinned commit (before `fix: Decoder appends only the bytes that
complete the size prefix`).  Kept only to state the concrete counterexamples of C17 that were
replayed on the implementation; not tied to the current source and carrying no property. -/
namespace Mio.AsFound
open Mio Mio.Generated

def finishFrame (stored : Bytes) (expected used : Nat) (data : Bytes) :
    Option (Bytes × Option (Bytes × Bytes)) :=
  if expected < stored.length - used then none
  else
    let remaining := expected - (stored.length - used)
    if data.length < remaining then some (stored ++ data, none)
    else
      let stored' := stored ++ data.take remaining
      some (stored', some (stored'.drop used, data.drop remaining))

def storeAndDecoded (stored data : Bytes) : Option (Bytes × Option (Bytes × Bytes)) :=
  match decodeVar stored with
  | some (expected, used) => finishFrame stored expected used data
  | none =>
    if maxEncodedSize < stored.length then none        -- `MAX_ENCODED_SIZE - stored.len()` underflows
    else
      let maxRemaining := min (maxEncodedSize - stored.length) data.length
      let stored' := stored ++ data.take maxRemaining
      match decodeVar stored' with
      | some (expected, used) => finishFrame stored' expected used (data.drop maxRemaining)
      | none => some (stored', none)

def decode (stored data : Bytes) : Option (Bytes × List Bytes) :=
  if stored = [] then some (tryDecode (data.length + 1) data)
  else
    match storeAndDecoded stored data with
    | none => none
    | some (st, none) => some (st, [])
    | some (_, some (msg, rest)) =>
      let (st', outs) := tryDecode (rest.length + 1) rest
      some (st', msg :: outs)

def feed : Bytes → List Bytes → Option (Bytes × List Bytes)
  | st, [] => some (st, [])
  | st, c :: cs =>
    match decode st c with
    | none => none
    | some (st', outs) =>
      match feed st' cs with
      | none => none
      | some (st'', outs') => some (st'', outs ++ outs')

/-- F3 witnesses (both reproduced on the implementation at the pinned commit):
a non-canonical zero split across two reads, and eleven continuation bytes. -/
theorem asfound_panics_noncanonical : feed [] [[0x80], [0x00, 1, 2, 3]] = none := by decide
theorem asfound_panics_overlong : feed [] [List.replicate 11 0xff, [1]] = none := by decide

/-- the same inputs on the model of the current code -/
theorem fixed_ok_noncanonical : Mio.feed [] [[0x80], [0x00, 1, 2, 3]] = some ([3], [[], [2]]) := by decide
theorem fixed_ok_overlong : Mio.feed [] [List.replicate 11 0xff, [1]] = some (List.replicate 11 0xff, []) := by decide

end Mio.AsFound
