/-! # F12 as found and as repaired — what `Driver::process` does when a pending resource becomes ready

`driver.rs` `process`: a remote that is not ready goes through `resolve_pending_remote`; if it is ready
afterwards, a read event continues into `read_from_remote`, a write event into `write_to_remote`.  The
handshake of a resource (the WebSocket client's) may consume more than its answer from the socket: what
follows the answer ends up inside the codec (`tail`).  Nothing is left in the socket then, so the
edge-triggered poll owes no further event. -/
namespace Mio.AsFound.ReadyOnWrite

inductive Readiness | read | write
deriving DecidableEq, Repr

structure Conn where
  ready : Bool := false
  codec : List Nat := []        -- messages already inside the codec
  delivered : List Nat := []    -- messages handed to the callback
deriving DecidableEq, Repr

/-- the adapter's receive loop on a ready connection whose socket is empty: what the codec holds is
delivered (`wsReceive` of M2 with an empty socket) -/
def receive (c : Conn) : Conn := { c with delivered := c.delivered ++ c.codec, codec := [] }

/-- `pending` completes the handshake; `tail` is what it read beyond the answer -/
def resolve (c : Conn) (tail : List Nat) : Conn := { c with ready := true, codec := c.codec ++ tail }

/-- as found -/
def processAsFound (c : Conn) (r : Readiness) (tail : List Nat) : Conn :=
  let c := if c.ready then c else resolve c tail
  match r with
  | .read => receive c
  | .write => c

/-- as repaired (`fix:` 636bbd4): a resource that has just become ready on a write event is read once -/
def processFixed (c : Conn) (r : Readiness) (tail : List Nat) : Conn :=
  let wasPending := !c.ready
  let c := if c.ready then c else resolve c tail
  match r with
  | .read => receive c
  | .write => if wasPending then receive c else c

/-- as found: a handshake completed by a write event leaves the messages it consumed undelivered in a
state in which no further event is owed -/
theorem as_found_strands :
    (processAsFound {} .write [1, 2, 3, 4]).delivered = [] ∧
    (processAsFound {} .write [1, 2, 3, 4]).codec = [1, 2, 3, 4] ∧
    (processAsFound {} .write [1, 2, 3, 4]).ready = true := by decide

/-- as repaired: whichever readiness completes the handshake, everything it consumed is delivered -/
theorem fixed_delivers (r : Readiness) (tail : List Nat) :
    (processFixed {} r tail).delivered = tail ∧ (processFixed {} r tail).codec = [] ∧
    (processFixed {} r tail).ready = true := by
  cases r <;> simp [processFixed, resolve, receive]

/-- the repair changes nothing for a resource that was ready already -/
theorem fixed_same_when_ready (c : Conn) (h : c.ready = true) (r : Readiness) (tail : List Nat) :
    processFixed c r tail = processAsFound c r tail := by
  cases r <;> simp [processFixed, processAsFound, h]

/-- … nor for a handshake completed by a read event -/
theorem fixed_same_on_read (c : Conn) (tail : List Nat) :
    processFixed c .read tail = processAsFound c .read tail := by
  simp [processFixed, processAsFound]

end Mio.AsFound.ReadyOnWrite
