/-! M4 — `src/node.rs` (lines 258-455): the listener's threads, the callback lock, the `running` flag,
the replay of events cached before the listener was started.

Two threads dispatch events to the one user callback: the *network* thread (cache replay, then
`process_poll_event` batches) and the *signal* thread (`receive_timeout` on the signal queue).  Each
line that touches shared state (the `running` flag, the callback mutex, the cache) is one step, so
every interleaving of the two threads, of `stop()` calls from anywhere, and of the caller of
`for_each_async` (which holds the callback lock until the function returns) is a schedule.

Network events are numbered in the order the processor produces them: the cached ones `0 … c-1`
(oldest first), the live ones from `c` on. -/
namespace Mio.Node

inductive Mode where
  | sync      -- `for_each`: replay on the caller (no other thread exists yet), then both loops
  | async     -- `for_each_async` / `enqueue`: both threads spawned, the caller holds the lock first
deriving DecidableEq, Repr

inductive Owner where
  | caller | net | sig
deriving DecidableEq, Repr

inductive Item where
  | net (n : Nat)
  | sig (n : Nat)
deriving DecidableEq, Repr

inductive Pc where
  | notStarted
  -- replay of cached events (network thread)
  | rTop                 -- `while let Some(event) = cache.pop_front()`
  | rWant (e : Nat)      -- async: popped, waiting for the callback lock
  | rLocked (e : Nat)    -- async: lock held, about to test `is_running()`
  | rChecked (e : Nat)   -- `is_running()` was true, about to call back (sync: no lock, nobody else exists)
  | rInCb (e : Nat)      -- inside the callback
  -- the dispatch loops
  | idle                 -- `while handler.is_running()`
  | fetch                -- `process_poll_event` / `receive_timeout`
  | want (e : Item)      -- has an event, waiting for the callback lock
  | locked (e : Item)    -- lock held, about to test `is_running()` again
  | checked (e : Item)   -- it was true, about to call back
  | inCb (e : Item)      -- inside the callback
  | done
deriving DecidableEq, Repr

structure St where
  mode : Mode
  running : Bool := true
  lock : Option Owner := none
  cache : List Nat := []            -- cached events not yet replayed
  pending : List Nat := []          -- polled batch not yet dispatched
  nextLive : Nat := 0               -- number of the next live network event
  nextSig : Nat := 0
  pcN : Pc := .notStarted
  pcS : Pc := .notStarted
  log : List (Owner × Item) := []   -- callback invocations, oldest first
  -- ghosts
  stopInCb : Option Nat := none     -- `log.length` when a thread executed `stop()` inside its callback
  stoppedBeforeStart : Bool := false
deriving Repr

inductive Act where
  | start                           -- the listener call: threads come to life
  | callerRelease                   -- `for_each_async` returns: the caller drops its guard
  | net (poll : Nat)                -- next step of the network thread (`poll`: size of the batch if it polls)
  | sig (arrives : Bool)            -- next step of the signal thread (`arrives`: a signal is received, else timeout)
  | stopIn (t : Owner)              -- `stop()` executed by thread t inside its callback
  | stopExt                         -- `stop()` from any other thread, at any time
deriving Repr

def inCallback : Pc → Bool
  | .rInCb _ | .inCb _ => true
  | _ => false

def holdsLockPc : Pc → Bool
  | .rLocked _ | .locked _ | .checked _ | .inCb _ => true
  | _ => false

/-- async replay holds the lock from `rLocked` to the end of the callback -/
def holdsLockN (mode : Mode) : Pc → Bool
  | .rChecked _ | .rInCb _ => mode == .async
  | pc => holdsLockPc pc

/-- next step of the network thread -/
def stepNet (s : St) (poll : Nat) : Option St :=
  match s.pcN with
  | .rTop =>
    match s.cache with
    | e :: rest =>
      match s.mode with
      | .sync => if s.running then some { s with cache := rest, pcN := .rChecked e } else some { s with cache := rest, pcN := .done }
      | .async => some { s with cache := rest, pcN := .rWant e }
    | [] =>
      match s.mode with
      | .sync => some { s with pcN := .idle, pcS := .idle }     -- replay over: the signal thread is spawned
      | .async => some { s with pcN := .idle }
  | .rWant e => if s.lock = none then some { s with lock := some .net, pcN := .rLocked e } else none
  | .rLocked e =>
    if s.running then some { s with pcN := .rChecked e }
    else some { s with lock := none, pcN := .done }
  | .rChecked e => some { s with pcN := .rInCb e, log := s.log ++ [(.net, .net e)] }
  | .rInCb _ =>
    match s.mode with
    | .sync => some { s with pcN := .rTop }
    | .async => some { s with lock := none, pcN := .rTop }
  | .idle => if s.running then some { s with pcN := .fetch } else some { s with pcN := .done }
  | .fetch =>
    match s.pending with
    | e :: rest => some { s with pending := rest, pcN := .want (.net e) }
    | [] =>
      if poll = 0 then some { s with pcN := .idle }              -- timeout: back to the loop test
      else
        let batch := (List.range poll).map (· + s.nextLive)
        match batch with
        | e :: rest => some { s with pending := rest, nextLive := s.nextLive + poll, pcN := .want (.net e) }
        | [] => some { s with pcN := .idle }
  | .want e => if s.lock = none then some { s with lock := some .net, pcN := .locked e } else none
  | .locked e =>
    if s.running then some { s with pcN := .checked e }
    else some { s with lock := none, pcN := (if s.pending = [] then .idle else .fetch) }
  | .checked e => some { s with pcN := .inCb e, log := s.log ++ [(.net, e)] }
  | .inCb _ => some { s with lock := none, pcN := (if s.pending = [] then .idle else .fetch) }
  | _ => none

/-- next step of the signal thread -/
def stepSig (s : St) (arrives : Bool) : Option St :=
  match s.pcS with
  | .idle => if s.running then some { s with pcS := .fetch } else some { s with pcS := .done }
  | .fetch =>
    if arrives then some { s with nextSig := s.nextSig + 1, pcS := .want (.sig s.nextSig) }
    else some { s with pcS := .idle }
  | .want e => if s.lock = none then some { s with lock := some .sig, pcS := .locked e } else none
  | .locked e =>
    if s.running then some { s with pcS := .checked e } else some { s with lock := none, pcS := .idle }
  | .checked e => some { s with pcS := .inCb e, log := s.log ++ [(.sig, e)] }
  | .inCb _ => some { s with lock := none, pcS := .idle }
  | _ => none

def step (s : St) : Act → Option St
  | .start =>
    if s.pcN = .notStarted then
      match s.mode with
      | .sync => some { s with pcN := .rTop }
      | .async => some { s with pcN := .rTop, pcS := .idle, lock := some .caller }
    else none
  | .callerRelease => if s.lock = some .caller then some { s with lock := none } else none
  | .net poll => stepNet s poll
  | .sig arrives => stepSig s arrives
  | .stopIn t =>
    let pc := match t with | .net => s.pcN | .sig => s.pcS | .caller => .notStarted
    if inCallback pc then some { s with running := false, stopInCb := some (s.stopInCb.getD s.log.length) }
    else none
  | .stopExt =>
    some { s with running := false, stoppedBeforeStart := s.stoppedBeforeStart || (s.pcN == .notStarted) }

def run : St → List Act → Option St
  | s, [] => some s
  | s, a :: as =>
    match step s a with
    | some s' => run s' as
    | none => none

/-- initial state: `c` events were cached before the listener call -/
def init (mode : Mode) (c : Nat) : St := { mode, cache := List.range c, nextLive := c }

def Reachable (mode : Mode) (c : Nat) (s : St) : Prop := ∃ acts, run (init mode c) acts = some s

/-- the network events handed to the callback, in order -/
def netOf (x : Owner × Item) : Option Nat :=
  match x.2 with
  | .net n => some n
  | .sig _ => none

def netLog (s : St) : List Nat := s.log.filterMap netOf

end Mio.Node
