import MioModel.Lemmas.Node
/-! # C05 — The event callback is never run by two threads at once

Model M4 (`MioModel/Node.lean`), all three listener modes (`enqueue` is `for_each_async` with a
forwarding callback), any number of `stop()` calls from anywhere, every interleaving. -/
namespace Mio.C05
open Mio.Node

/-- In every reachable state at most one thread is inside the callback: a thread in the callback
holds the callback lock — except during the synchronous replay of `for_each`, when the other thread
does not exist yet. -/
theorem sig_inCb (s : St) (h3 : sigPcOk s.pcS = true) (hs : inCallback s.pcS = true) :
    ∃ e, s.pcS = .inCb e := by
  cases hp : s.pcS <;> simp_all [inCallback, sigPcOk]

theorem callback_mutex (mode : Mode) (c : Nat) (s : St) (h : Reachable mode c s) :
    ¬ (inCallback s.pcN = true ∧ inCallback s.pcS = true) := by
  obtain ⟨h1, h2, h3, _, h4, _, _, _⟩ := reachable_minv mode c s h
  intro ⟨hn, hs⟩
  obtain ⟨es, hes⟩ := sig_inCb s h3 hs
  have hsig : s.lock = some .sig := h2.2 (by simp [hes, holdsLockPc])
  cases hp : s.pcN <;> simp [hp, inCallback] at hn
  · -- replay callback
    cases hm : s.mode with
    | sync =>
      have := h4 hm (by simp [hp, inReplay])
      rw [this] at hs; simp [inCallback] at hs
    | async =>
      have : s.lock = some .net := h1.2 (by simp [hp, holdsLockN, hm])
      rw [hsig] at this; simp at this
  · have : s.lock = some .net := h1.2 (by simp [hp, holdsLockN, holdsLockPc])
    rw [hsig] at this; simp at this

/-- a thread inside the callback holds the lock (or is alone) -/
theorem in_callback_holds_lock (mode : Mode) (c : Nat) (s : St) (h : Reachable mode c s) :
    (inCallback s.pcS = true → s.lock = some .sig) ∧
    (inCallback s.pcN = true → s.lock = some .net ∨ (s.mode = .sync ∧ s.pcS = .notStarted)) := by
  obtain ⟨h1, h2, h3, _, h4, _, _, _⟩ := reachable_minv mode c s h
  constructor
  · intro hs
    obtain ⟨es, hes⟩ := sig_inCb s h3 hs
    exact h2.2 (by simp [hes, holdsLockPc])
  · intro hn
    cases hp : s.pcN <;> simp [hp, inCallback] at hn
    · cases hm : s.mode with
      | sync => right; exact ⟨rfl, h4 hm (by simp [hp, inReplay])⟩
      | async => left; exact h1.2 (by simp [hp, holdsLockN, hm])
    · left; exact h1.2 (by simp [hp, holdsLockN, holdsLockPc])

/-- Invocations are bracketed: whenever a step appends an invocation to the log, nobody is inside
the callback at that moment — each invocation finishes before the next one begins. -/
theorem enter_requires_free (mode : Mode) (c : Nat) (s s' : St) (a : Act) (h : Reachable mode c s)
    (hs : step s a = some s') (hlog : s'.log.length = s.log.length + 1) :
    inCallback s.pcN = false ∧ inCallback s.pcS = false := by
  have hm := reachable_minv mode c s h
  have hmut := callback_mutex mode c s h
  obtain ⟨h1, h2, h3, _, h4, _, _, _⟩ := hm
  cases a with
  | start =>
    simp only [step] at hs
    split at hs
    · cases hmo : s.mode <;> simp only [hmo, Option.some.injEq] at hs <;> subst hs <;> simp at hlog
    · simp at hs
  | callerRelease =>
    simp only [step] at hs
    split at hs
    · simp only [Option.some.injEq] at hs; subst hs; simp at hlog
    · simp at hs
  | stopIn t =>
    cases t <;> simp only [step] at hs <;>
      (split at hs
       · simp only [Option.some.injEq] at hs; subst hs; simp at hlog
       · simp at hs)
  | stopExt => simp only [step, Option.some.injEq] at hs; subst hs; simp at hlog
  | net poll =>
    simp only [step, stepNet] at hs
    cases hpc : s.pcN <;> simp only [hpc] at hs
    all_goals (try (simp at hs; done))
    all_goals (try (
      (repeat' (split at hs)) <;>
      (first
        | (simp at hs; done)
        | (simp only [Option.some.injEq] at hs; subst hs; simp at hlog; done))))
    -- the two steps that append: rChecked and checked
    · rename_i e
      refine ⟨by simp [inCallback], ?_⟩
      cases hmo : s.mode with
      | sync => rw [h4 hmo (by simp [hpc, inReplay])]; simp [inCallback]
      | async =>
        have hl : s.lock = some .net := h1.2 (by simp [hpc, holdsLockN, hmo])
        cases hps : s.pcS <;> simp [inCallback]
        all_goals (first
          | (simp [hps, sigPcOk] at h3; done)
          | (have := h2.2 (by simp [hps, holdsLockPc]); rw [hl] at this; simp at this))
    · rename_i e
      refine ⟨by simp [inCallback], ?_⟩
      have hl : s.lock = some .net := h1.2 (by simp [hpc, holdsLockN, holdsLockPc])
      cases hps : s.pcS <;> simp [inCallback]
      all_goals (first
        | (simp [hps, sigPcOk] at h3; done)
        | (have := h2.2 (by simp [hps, holdsLockPc]); rw [hl] at this; simp at this))
  | sig arrives =>
    simp only [step, stepSig] at hs
    cases hpc : s.pcS <;> simp only [hpc] at hs
    all_goals (try (simp at hs; done))
    all_goals (try (
      (repeat' (split at hs)) <;>
      (first
        | (simp at hs; done)
        | (simp only [Option.some.injEq] at hs; subst hs; simp at hlog; done))))
    · rename_i e
      refine ⟨?_, by simp [inCallback]⟩
      have hl : s.lock = some .sig := h2.2 (by simp [hpc, holdsLockPc])
      cases hpn : s.pcN <;> simp [inCallback]
      · cases hmo : s.mode with
        | sync =>
          have := h4 hmo (by simp [hpn, inReplay])
          rw [hpc] at this; simp at this
        | async =>
          have := h1.2 (by simp [hpn, holdsLockN, hmo]); rw [hl] at this; simp at this
      · have := h1.2 (by simp [hpn, holdsLockN, holdsLockPc]); rw [hl] at this; simp at this

/-! Non-vacuity: a network event and a signal contend for the callback; the signal thread waits for
the lock while the network thread is inside. -/
example : ∃ s, run (init .async 0) [.start, .callerRelease, .net 0, .net 0, .net 1, .net 0, .net 0, .net 0,
    .sig true, .sig true] = some s ∧ s.pcN = .inCb (.net 0) ∧ s.pcS = .want (.sig 0) ∧ s.lock = some .net :=
  ⟨_, rfl, rfl, rfl, rfl⟩
example : step { (init .async 0) with pcN := .inCb (.net 0), pcS := .want (.sig 0), lock := some .net } (.sig true) = none := rfl

end Mio.C05
