import MioModel.Lemmas.Decoder
/-! # C02 — Frame decoder output is independent of how the byte stream is chunked

Property theorems only (helper lemmas live in `MioModel/Lemmas`).  Model: `MioModel/Varint.lean`,
`MioModel/Decoder.lean` (src/util/encoding.rs and integer-encoding's u64 varint). -/
namespace Mio.C02
open Mio Mio.Generated

/-- The prefix produced for a payload of `n` bytes decodes back to `n`, consuming exactly the prefix,
whatever follows it. (`n < 2^64`: `usize` on the 64-bit targets the crate is built for.) -/
theorem decodeVar_encodeVar (n : Nat) (h : n < 2 ^ 64) (rest : Bytes) :
    decodeVar (encodeVar n ++ rest) = some (n, (encodeVar n).length) :=
  Mio.decodeVar_encodeVar n h rest

/-- The prefix always fits the buffer `encode_size` is given (`MAX_ENCODED_SIZE`, regenerated from
the crate on every run). -/
theorem encodeVar_length_le (n : Nat) (h : n < 2 ^ 64) : (encodeVar n).length ≤ maxEncodedSize :=
  Mio.encodeVar_length_le n h

/-- Canonical, part 1: LEB128 shape — every byte but the last has the continuation bit, the last
has not (so the prefix is self-delimiting). -/
theorem encodeVar_shape (n : Nat) :
    ∃ a x, encodeVar n = a ++ [x] ∧ (∀ y ∈ a, 128 ≤ y.toNat) ∧ x.toNat < 128 :=
  Mio.encodeVar_shape' n

/-- Canonical, part 2: minimal — no byte string that decodes (entirely) to `n` is shorter than the
prefix produced for `n`. -/
theorem encodeVar_minimal (bs : Bytes) (n : Nat) (h : decodeVar bs = some (n, bs.length)) :
    (encodeVar n).length ≤ bs.length := by
  have hu := decodeVar_used_le bs n bs.length h
  have hv := decodeVarAux_value_lt bs 0 0 n bs.length (by simp) (by simp) h
  exact encodeVar_length_le_of_lt bs.length n hv (by omega)

/-- Main theorem: for every message list and every way to cut the concatenation of their frames
into chunks (empty chunks included), feeding the chunks to a fresh decoder never panics and yields
exactly the messages, in order, one callback each, with nothing left buffered. -/
theorem feed_chunking_independent (ms : List Bytes) (hms : ∀ m ∈ ms, m.length < 2 ^ 64)
    (chunks : List Bytes) (h : chunks.flatten = frames ms) : feed [] chunks = some ([], ms) :=
  Mio.feed_chunking_independent ms hms chunks h

/-- At every point of a well-formed stream: the callbacks so far are a prefix of the message list
and the buffer holds exactly the received part of the frame in progress (nothing when the chunks end
on a frame boundary is the previous theorem). -/
theorem feed_stream_prefix (ms : List Bytes) (hms : ∀ m ∈ ms, m.length < 2 ^ 64)
    (chunks : List Bytes) (r : Bytes) (h : chunks.flatten ++ r = frames ms) :
    ∃ k p, feed [] chunks = some (p, ms.take k) ∧ p ++ r = frames (ms.drop k) := by
  obtain ⟨k, p, h1, h2, _⟩ := feed_prefix_general chunks ms [] r hms (Or.inl rfl) (by simpa using h)
  exact ⟨k, p, h1, h2⟩

/-! Non-vacuity: a concrete message list with an empty message, a 200-byte message whose 2-byte
prefix `c8 01` is cut in the middle, and a payload byte that looks like a prefix. -/
def exMs : List Bytes := [[], List.replicate 200 0x80, [0xff]]
def exChunks : List Bytes := [[0x00, 0xc8], [0x01, 0x80, 0x80, 0x80], List.replicate 197 0x80 ++ [0x01, 0xff]]
theorem ex_lens : ∀ m ∈ exMs, m.length < 2 ^ 64 := by
  intro m hm
  have : m.length ≤ 200 := by
    simp only [exMs, List.mem_cons, List.not_mem_nil, or_false] at hm
    rcases hm with h | h | h <;> subst h <;> simp only [List.length_replicate, List.length_nil, List.length_cons] <;> omega
  omega
theorem ex_encode_200 : encodeVar 200 = [0xc8, 0x01] := by
  rw [encodeVar]; simp; rw [encodeVar]; simp
theorem ex_encode_0 : encodeVar 0 = [0x00] := by rw [encodeVar]; simp
theorem ex_encode_1 : encodeVar 1 = [0x01] := by rw [encodeVar]; simp
/-- the chunks really are a cut of the frames of `exMs` (inside the two-byte prefix `c8 01`) -/
theorem ex_cut : exChunks.flatten = frames exMs := by
  simp only [frames, frame, exMs, List.map, List.length_replicate, List.length_nil, List.length_cons,
    ex_encode_200, ex_encode_0, exChunks]
  decide +kernel
example : feed [] exChunks = some ([], exMs) := by decide +kernel
example : feed [] exChunks = some ([], exMs) := feed_chunking_independent exMs ex_lens exChunks ex_cut

end Mio.C02
