import MioModel.Lemmas.EventQueueConc
/-! # C16 — A blocked receiver is woken by every kind of send -/
namespace Mio.C16
open Mio.EvQ
variable {E : Type}

/-- something can be handed out right now -/
def Deliverable (s : St E) : Prop :=
  s.q.prio ≠ [] ∨ s.q.plain ≠ [] ∨ ∃ p ∈ live s.q, p.1.deadline ≤ s.now

/-- In no reachable state is the receiver blocked in its `select!` while an event is deliverable
(a queued plain or priority event; a scheduled, uncancelled timer whose deadline has passed — whether
it already sits in the map or is still a queued command) and none of the sources it watches is
ready: one of the non-timeout wake-ups is enabled. -/
theorem no_stuck_with_work (s : St E) (h : Reachable s) (kd : Kind) (dl : Option Nat)
    (hrx : s.rx = .blocked kd dl) (hw : Deliverable s) :
    ∃ src s', src ≠ Src.timeout ∧ step s (.wake src) = some s' := by
  have hsrt := (reachable_tinv s h).1.srt
  rcases hw with hw | hw | ⟨p, hp1, hp2⟩
  · cases hq : s.q.prio with
    | nil => exact absurd hq hw
    | cons x xs => exact ⟨.prio, ret s (.prio x) { s.q with prio := xs }, by simp, by simp [step, hrx, hq]⟩
  · cases hq : s.q.plain with
    | nil => exact absurd hq hw
    | cons x xs => exact ⟨.plain, ret s (.plain x) { s.q with plain := xs }, by simp, by simp [step, hrx, hq]⟩
  · cases hc : s.q.cmds with
    | cons c cs =>
      exact ⟨.cmd, { s with q := { s.q with timers := applyCmd s.q.timers c, cmds := cs }, rx := .started kd dl },
        by simp, by simp [step, hrx, hc]⟩
    | nil =>
      have hlive : live s.q = s.q.timers := by simp [live, hc, foldCmds]
      rw [hlive] at hsrt hp1
      cases ht : s.q.timers with
      | nil => rw [ht] at hp1; simp at hp1
      | cons t ts =>
        obtain ⟨k, e⟩ := t
        rw [ht] at hsrt hp1
        have := head_deadline_min k e ts hsrt p hp1
        have hk : k.deadline ≤ s.now := by omega
        exact ⟨.timer, { s with rx := .started kd dl }, by simp, by simp [step, hrx, ht, hk]⟩

/-- `receive_timeout` reports nothing only when its deadline has passed and nothing at all is
deliverable at that moment. -/
theorem timeout_none_sound (s s' : St E) (h : Reachable s) (hstep : step s (.wake .timeout) = some s') :
    (∃ kd t, s.rx = .blocked kd (some t) ∧ t ≤ s.now) ∧ ¬ Deliverable s := by
  have hsrt := (reachable_tinv s h).1.srt
  simp only [step] at hstep
  split at hstep
  · rename_i kd dl hrx
    split at hstep
    · rename_i t
      split at hstep
      · rename_i hcond
        obtain ⟨ht, hnr⟩ := hcond
        refine ⟨⟨kd, t, hrx, ht⟩, ?_⟩
        simp only [nothingReady, Bool.and_eq_true, List.isEmpty_iff] at hnr
        obtain ⟨⟨⟨hpl, hpr⟩, hcm⟩, htm⟩ := hnr
        intro hd
        rcases hd with hd | hd | ⟨p, hp1, hp2⟩
        · exact hd hpr
        · exact hd hpl
        · have hlive : live s.q = s.q.timers := by simp [live, hcm, foldCmds]
          rw [hlive] at hsrt hp1
          cases htt : s.q.timers with
          | nil => rw [htt] at hp1; simp at hp1
          | cons tm ts =>
            obtain ⟨k, e⟩ := tm
            rw [htt] at hsrt hp1 htm
            have := head_deadline_min k e ts hsrt p hp1
            simp at htm
            omega
      · simp at hstep
    · simp at hstep
  · simp at hstep

/-- the deadline of a `receive_timeout(d)` call is `start + d` … -/
theorem call_sets_deadline (s s' : St E) (d : Nat) (h : step s (.call .recvTimeout d) = some s') :
    s'.rx = .started .recvTimeout (some (s.now + d)) := by
  simp only [step] at h
  split at h
  · simp only [Option.some.injEq] at h; subst h; simp
  · simp at h

def rxDeadline : Rx → Option (Option Nat)
  | .idle => none
  | .started _ dl => some dl
  | .clockRead _ dl _ => some dl
  | .blocked _ dl => some dl

/-- … and no step changes it while the call is in progress: together with `timeout_none_sound`, a
`receive_timeout(d)` started at `t0` reports nothing only at a time `≥ t0 + d`. -/
theorem deadline_stable (s s' : St E) (a : Act E) (h : step s a = some s') (dl dl' : Option Nat)
    (h1 : rxDeadline s.rx = some dl) (h2 : rxDeadline s'.rx = some dl') : dl = dl' := by
  cases a with
  | send e => simp only [step, Option.some.injEq] at h; subst h; simp_all
  | sendPrio e => simp only [step, Option.some.injEq] at h; subst h; simp_all
  | sendTimer dur e => simp only [step, Option.some.injEq] at h; subst h; simp_all
  | cancel k =>
    simp only [step] at h
    split at h
    · simp only [Option.some.injEq] at h; subst h; simp_all
    · simp at h
  | tick n => simp only [step, Option.some.injEq] at h; subst h; simp_all
  | call k d =>
    simp only [step] at h
    split at h
    · rename_i hrx; rw [hrx] at h1; simp [rxDeadline] at h1
    · simp at h
  | readClock =>
    simp only [step] at h
    split at h
    · rename_i hrx
      simp only [Option.some.injEq] at h; subst h
      rw [hrx] at h1; simp [rxDeadline] at h1 h2; rw [← h1, ← h2]
    · simp at h
  | foldPick =>
    simp only [step] at h
    split at h
    · rename_i hrx
      rw [hrx] at h1
      split at h
      · simp only [Option.some.injEq] at h; subst h; simp [ret, rxDeadline] at h2
      · split at h
        · split at h <;> (simp only [Option.some.injEq] at h; subst h; simp [ret, rxDeadline] at h2)
        · simp only [Option.some.injEq] at h; subst h
          simp [rxDeadline] at h1 h2; rw [← h1, ← h2]
    · simp at h
  | wake src =>
    simp only [step] at h
    split at h
    · rename_i hrx
      rw [hrx] at h1
      cases src with
      | plain =>
        simp only at h
        split at h
        · simp only [Option.some.injEq] at h; subst h; simp [ret, rxDeadline] at h2
        · simp at h
      | prio =>
        simp only at h
        split at h
        · simp only [Option.some.injEq] at h; subst h; simp [ret, rxDeadline] at h2
        · simp at h
      | cmd =>
        simp only at h
        split at h
        · simp only [Option.some.injEq] at h; subst h
          simp [rxDeadline] at h1 h2; rw [← h1, ← h2]
        · simp at h
      | timer =>
        simp only at h
        split at h
        · split at h
          · simp only [Option.some.injEq] at h; subst h
            simp [rxDeadline] at h1 h2; rw [← h1, ← h2]
          · simp at h
        · simp at h
      | timeout =>
        simp only at h
        split at h
        · split at h
          · simp only [Option.some.injEq] at h; subst h; simp [ret, rxDeadline] at h2
          · simp at h
        · simp at h
    · simp at h

/-! Non-vacuity: the as-found F10 history on the current model — a timer scheduled by another thread
while the receiver is blocked in `receive()` wakes it (through the command channel) and is delivered
at its deadline without any other traffic. -/
example : ∃ s : St Nat, run {} [.call .recv 0, .readClock, .foldPick, .tick 100, .sendTimer 10 7, .wake .cmd,
    .readClock, .foldPick, .tick 10, .wake .timer, .readClock, .foldPick] = some s ∧
    s.returned.map (·.2) = [110] ∧ retKeys s = [⟨110, 0⟩] := ⟨_, rfl, by decide, by decide⟩

end Mio.C16
