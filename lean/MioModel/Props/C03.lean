import MioModel.Lemmas.Net
import MioModel.Lemmas.NodeOrder
import MioModel.Udp
/-! # C03 — Connection lifecycle events follow one well-formed sequence per endpoint

Model M5 (`MioModel/Net.lean`): every theorem is about all states reachable by any schedule of user
calls (from any thread, including from inside callbacks), poll events (including stale ones) and
adapter answers. -/
namespace Mio.C03
open Mio.Net

/-- the lifecycle automaton never reaches its error state: for an endpoint returned by `connect()`
the events are `ε | Connected(true) Message* Disconnected? | Connected(false)`, for an accepted one
`ε | Accepted(listener) Message* Disconnected?`; in particular nothing follows `Disconnected` or
`Connected(false)`, `Message` only follows `Connected(true)`/`Accepted`, and each of `Connected`,
`Accepted`, `Disconnected` occurs at most once -/
theorem lifecycle_wellformed (s : St) (h : Reachable s) :
    ∀ r ∈ s.regs, phaseOf r s.log ≠ .bad :=
  fun r hr => ((reachable_inv s h).good r hr).2.1

/-- bad is absorbing -/
theorem phaseStep_bad (l : Option Nat) (e : Ev) : phaseStep l .bad e = .bad := by
  cases e <;> rfl

theorem foldl_bad (l : Option Nat) (evs : List Ev) : evs.foldl (phaseStep l) .bad = .bad := by
  induction evs with
  | nil => rfl
  | cons e es ih => simp only [List.foldl_cons, phaseStep_bad, ih]

/-- a run of the automaton that does not end in `bad` only saw events that fit the register:
`Connected` only for endpoints made by `connect()`, `Accepted` only with the listener that accepted it -/
theorem foldl_ok_events (l : Option Nat) : ∀ (evs : List Ev) (p : Phase),
    evs.foldl (phaseStep l) p ≠ .bad →
    ∀ e ∈ evs, (∀ i ok, e = .connected i ok → l = none) ∧ (∀ i l', e = .accepted i l' → l = some l') := by
  intro evs
  induction evs with
  | nil => intro p _ e he; simp at he
  | cons x xs ih =>
    intro p hne e he
    simp only [List.foldl_cons] at hne
    have hx : phaseStep l p x ≠ .bad := by
      intro hb; rw [hb, foldl_bad] at hne; exact hne rfl
    rcases List.mem_cons.mp he with he | he
    · subst he
      constructor
      · intro i ok heq; subst heq
        cases p <;> cases ok <;> simp [phaseStep] at hx <;> exact hx
      · intro i l' heq; subst heq
        cases p <;> simp [phaseStep] at hx <;> exact hx
    · exact ih _ hne e he

/-- `Connected(endpoint, _)` is only ever reported for an endpoint that `connect()` returned, and
`Accepted(endpoint, listener)` names the listener that accepted that endpoint -/
theorem event_names_its_origin (s : St) (h : Reachable s) (r : Reg) (hr : r ∈ s.regs) :
    (∀ ok, Ev.connected r.id ok ∈ s.log → r.listener = none) ∧
    (∀ l, Ev.accepted r.id l ∈ s.log → r.listener = some l) := by
  have hne := lifecycle_wellformed s h r hr
  unfold phaseOf at hne
  have hall := foldl_ok_events r.listener (proj r.id s.log) .init hne
  constructor
  · intro ok hm
    exact (hall _ (by simp [proj, List.mem_filter, hm, Ev.rid])).1 r.id ok rfl
  · intro l hm
    exact (hall _ (by simp [proj, List.mem_filter, hm, Ev.rid])).2 r.id l rfl

/-- every event about a remote endpoint is about a registered resource (no event for connections
that never existed) -/
theorem events_only_for_registered (s : St) (h : Reachable s) :
    ∀ e ∈ s.log, ∀ id, e.rid = some id → ∃ r ∈ s.regs, r.id = id := by
  intro e he id hid
  have hlt := (reachable_inv s h).logIds e he id hid
  have := reachable_regsAll s h id hlt
  obtain ⟨r, hr, hrid⟩ := List.mem_map.mp this
  exact ⟨r, hr, hrid⟩

/-- no event leads (back) to the initial phase -/
theorem phaseStep_ne_init (l : Option Nat) (p : Phase) (y : Ev) : phaseStep l p y ≠ .init := by
  unfold phaseStep
  split <;> first | (split <;> simp) | simp

theorem phaseStep_ended (l : Option Nat) (e : Ev) : phaseStep l .ended e = .bad := by
  cases e <;> rfl

/-- after the end of an endpoint (`Disconnected`, or `Connected(false)`) it never appears in an event
again -/
theorem nothing_after_end (s : St) (h : Reachable s) (r : Reg) (hr : r ∈ s.regs) (pre post : List Ev) (e : Ev)
    (hsplit : proj r.id s.log = pre ++ e :: post)
    (he : (∃ i, e = .disconnected i) ∨ (∃ i, e = .connected i false)) : post = [] := by
  have hne := lifecycle_wellformed s h r hr
  unfold phaseOf at hne
  rw [hsplit, List.foldl_append, List.foldl_cons] at hne
  -- whatever the phase before `e`, the phase after it is `ended` or `bad`
  have hafter : ∀ p, phaseStep r.listener p e = .ended ∨ phaseStep r.listener p e = .bad := by
    intro p
    rcases he with ⟨i, rfl⟩ | ⟨i, rfl⟩
    · cases p <;> simp [phaseStep]
    · cases p <;> simp only [phaseStep] <;> (first | (split <;> simp) | simp)
  cases post with
  | nil => rfl
  | cons x xs =>
    exfalso
    rcases hafter (List.foldl (phaseStep r.listener) .init pre) with h1 | h1
    · rw [h1, List.foldl_cons, phaseStep_ended, foldl_bad] at hne; exact hne rfl
    · rw [h1, foldl_bad] at hne; exact hne rfl

/-- `Message` (and `Disconnected`) are only reported for an endpoint whose `Connected(.., true)` or
`Accepted` was reported before: the first event of every endpoint is its establishment (or its
failure) -/
theorem first_event_is_establishment (s : St) (h : Reachable s) (r : Reg) (hr : r ∈ s.regs) (x : Ev)
    (xs : List Ev) (hsplit : proj r.id s.log = x :: xs) :
    (x = .connected r.id true ∧ r.listener = none) ∨ (x = .connected r.id false ∧ xs = []) ∨
    (∃ l, x = .accepted r.id l ∧ r.listener = some l) := by
  have hne := lifecycle_wellformed s h r hr
  unfold phaseOf at hne
  rw [hsplit, List.foldl_cons] at hne
  have hx : phaseStep r.listener .init x ≠ .bad := by
    intro hb; rw [hb, foldl_bad] at hne; exact hne rfl
  have hxid : x.rid = some r.id := by
    have : x ∈ proj r.id s.log := by rw [hsplit]; exact List.mem_cons_self
    simpa using (List.mem_filter.mp this).2
  cases x with
  | connected i ok =>
    have hi : i = r.id := by simpa [Ev.rid] using hxid
    subst hi
    cases ok with
    | true =>
      left
      refine ⟨rfl, ?_⟩
      simp only [phaseStep] at hx; split at hx <;> simp_all
    | false =>
      right; left
      refine ⟨rfl, ?_⟩
      have hl : r.listener = none := by simp only [phaseStep] at hx; split at hx <;> simp_all
      cases xs with
      | nil => rfl
      | cons y ys =>
        exfalso
        simp only [phaseStep, hl, if_true, List.foldl_cons] at hne
        have hb : phaseStep none Phase.ended y = .bad := phaseStep_ended _ _
        first
          | (rw [hb, foldl_bad] at hne; exact hne rfl)
          | (rw [foldl_bad] at hne; exact hne rfl)
  | accepted i l =>
    have hi : i = r.id := by simpa [Ev.rid] using hxid
    subst hi
    right; right
    refine ⟨l, rfl, ?_⟩
    simp only [phaseStep] at hx; split at hx <;> simp_all
  | message i => simp [phaseStep] at hx
  | data l p => simp [Ev.rid] at hxid
  | disconnected i => simp [phaseStep] at hx

/-- a failed inbound handshake yields no event at all: an accepted resource that was never marked
ready never appears in the log -/
theorem failed_inbound_silent (s : St) (h : Reachable s) (r : Reg) (hr : r ∈ s.regs)
    (hacc : r.listener ≠ none) (hnr : r.ready = false) : proj r.id s.log = [] := by
  have hg := (reachable_inv s h).good r hr
  unfold Good GoodCore at hg
  obtain ⟨g0, g1, g2, g3, g4, g5⟩ := hg
  have hinit : phaseOf r s.log = .init := by
    cases hp : phaseOf r s.log with
    | init => rfl
    | est => have := g3 hp; simp [hnr] at this
    | ended =>
      have := g0 hp hnr
      cases hl : r.listener with
      | none => exact absurd hl hacc
      | some l => simp [hl] at this
    | bad => exact absurd hp g1
  -- the automaton leaves `init` with the first event and never comes back
  cases hpl : proj r.id s.log with
  | nil => rfl
  | cons x xs =>
    exfalso
    have key : ∀ (evs : List Ev) (p : Phase), p ≠ .init → evs.foldl (phaseStep r.listener) p ≠ .init := by
      intro evs
      induction evs with
      | nil => intro p hp; exact hp
      | cons y ys ih =>
        intro p _
        simp only [List.foldl_cons]
        exact ih _ (phaseStep_ne_init _ _ _)
    unfold phaseOf at hinit
    rw [hpl, List.foldl_cons] at hinit
    exact key xs _ (phaseStep_ne_init _ _ _) hinit

/-- UDP: under the UDP adapter's contract (`pending` always answers Ready, `receive` never reports a
disconnection, listeners hand over datagrams, not connections) no `Accepted`, no `Disconnected` and
no `Connected(.., false)` is ever reported -/
def UdpAct : Act → Prop
  | .pending ans => ans = .ready
  | .beginReceive _ disc => disc = false
  | .pollLocal _ remotes _ => remotes = []
  | _ => True

def UdpLog (s : St) : Prop :=
  (∀ e ∈ s.log, (∃ id, e = .connected id true) ∨ (∃ id, e = .message id) ∨ (∃ l p, e = .data l p)) ∧
  (∀ r ∈ s.regs, r.listener = none) ∧
  (match s.proc with
   | .receiving _ _ disc => disc = false
   | .afterReceive _ disc => disc = false
   | .accepting _ remotes _ => remotes = []
   | _ => True)


theorem mem_setReady_listener (regs : List Reg) (id : Nat) (h : ∀ r ∈ regs, r.listener = none) :
    ∀ r ∈ setReady regs id, r.listener = none := by
  intro r hr
  obtain ⟨r0, h0, _, h2, _⟩ := mem_setReady regs id r hr
  rw [← h2]; exact h r0 h0

theorem udp_step (s s' : St) (a : Act) (ha : UdpAct a) (hu : UdpLog s) (hs : step s a = some s') : UdpLog s' := by
  obtain ⟨u1, u2, u3⟩ := hu
  have same : ∀ t : St, t.log = s.log → t.regs = s.regs → t.proc = s.proc → UdpLog t := by
    intro t h1 h2 h3; unfold UdpLog; rw [h1, h2, h3]; exact ⟨u1, u2, u3⟩
  have newproc : ∀ t : St, t.log = s.log → t.regs = s.regs →
      (match t.proc with
       | .receiving _ _ disc => disc = false
       | .afterReceive _ disc => disc = false
       | .accepting _ remotes _ => remotes = []
       | _ => True) → UdpLog t := by
    intro t h1 h2 h3; unfold UdpLog; rw [h1, h2]; exact ⟨u1, u2, h3⟩
  cases a with
  | connect peer =>
    simp only [step, Option.some.injEq] at hs; subst hs
    refine ⟨u1, ?_, u3⟩
    intro r hr
    simp only [record] at hr
    rcases List.mem_append.mp hr with hr | hr
    · exact u2 r hr
    · simp only [List.mem_singleton] at hr; subst hr; rfl
  | listen => simp only [step, Option.some.injEq] at hs; subst hs; exact same _ rfl rfl rfl
  | send id adapter =>
    simp only [step] at hs
    split at hs
    · split at hs
      · split at hs <;> (simp only [Option.some.injEq] at hs; subst hs; exact same _ rfl rfl rfl)
      · simp only [Option.some.injEq] at hs; subst hs; exact same _ rfl rfl rfl
    · simp only [Option.some.injEq] at hs; subst hs; exact same _ rfl rfl rfl
  | sendLocal lid adapter =>
    simp only [step] at hs
    split at hs <;> (simp only [Option.some.injEq] at hs; subst hs; exact same _ rfl rfl rfl)
  | remove id =>
    simp only [step, Option.some.injEq] at hs; subst hs
    obtain ⟨d1, d2, d3, d4, d5, d6, d7⟩ := deregister_live s id .user
    split <;> exact same _ (by simp [record, d3]) (by simp [record, d2]) (by simp [record, d4])
  | removeLocal lid =>
    simp only [step] at hs
    split at hs <;> (simp only [Option.some.injEq] at hs; subst hs; exact same _ rfl rfl rfl)
  | isReady id =>
    simp only [step] at hs
    split at hs
    · split at hs <;> (simp only [Option.some.injEq] at hs; subst hs; exact same _ rfl rfl rfl)
    · simp only [Option.some.injEq] at hs; subst hs; exact same _ rfl rfl rfl
  | pollRemote id read =>
    simp only [step] at hs
    split at hs
    · split at hs
      · simp only [Option.some.injEq] at hs; subst hs; exact newproc _ rfl rfl trivial
      · simp only [Option.some.injEq] at hs; subst hs; exact same _ rfl rfl rfl
    · simp at hs
  | pending ans =>
    simp only [UdpAct] at ha; subst ha
    simp only [step] at hs
    split at hs
    · rename_i id read _
      split at hs
      · rename_i r0 hfind
        obtain ⟨hr0, _⟩ := findReg_some s id r0 hfind
        split at hs
        · simp at hs
        · simp only [Option.some.injEq] at hs; subst hs
          have hl := u2 r0 hr0
          refine ⟨?_, ?_, trivial⟩
          · intro e he
            simp only [emit, hl] at he
            rcases List.mem_append.mp he with he | he
            · exact u1 e he
            · simp only [List.mem_singleton] at he; subst he; exact Or.inl ⟨id, rfl⟩
          · simpa [emit] using mem_setReady_listener s.regs id u2
      · simp at hs
    · simp at hs
  | checkReady =>
    simp only [step] at hs
    split at hs
    · split at hs
      · split at hs
        · simp only [Option.some.injEq] at hs; subst hs; exact newproc _ rfl rfl trivial
        · simp at hs
      · simp at hs
    · simp at hs
  | beginReceive n disc =>
    simp only [UdpAct] at ha; subst ha
    simp only [step] at hs
    split at hs
    · split at hs
      · split at hs
        · split at hs
          · simp only [Option.some.injEq] at hs; subst hs; exact newproc _ rfl rfl rfl
          · simp only [Option.some.injEq] at hs; subst hs; exact newproc _ rfl rfl trivial
        · split at hs
          · simp only [Option.some.injEq] at hs; subst hs; exact newproc _ rfl rfl trivial
          · simp at hs
      · simp at hs
    · simp at hs
  | deliver =>
    simp only [step] at hs
    split at hs
    · rename_i id left disc hproc
      simp only [Option.some.injEq] at hs; subst hs
      rw [hproc] at u3
      refine ⟨?_, u2, u3⟩
      intro e he
      simp only [emit] at he
      rcases List.mem_append.mp he with he | he
      · exact u1 e he
      · simp only [List.mem_singleton] at he; subst he; exact Or.inr (Or.inl ⟨id, rfl⟩)
    · simp at hs
  | endReceive =>
    simp only [step] at hs
    split at hs
    · rename_i id disc hproc
      simp only [Option.some.injEq] at hs; subst hs
      rw [hproc] at u3
      exact newproc _ rfl rfl u3
    · simp at hs
  | finish =>
    simp only [step] at hs
    split at hs
    · rename_i id disc hproc
      rw [hproc] at u3
      simp only at u3; subst u3
      simp only [Bool.false_eq_true, if_false, Option.some.injEq] at hs; subst hs
      exact newproc _ rfl rfl trivial
    · simp at hs
  | pollLocal lid remotes datas =>
    simp only [UdpAct] at ha; subst ha
    simp only [step] at hs
    split at hs
    · split at hs
      · simp only [Option.some.injEq] at hs; subst hs; exact newproc _ rfl rfl rfl
      · simp only [Option.some.injEq] at hs; subst hs; exact same _ rfl rfl rfl
    · simp at hs
  | acceptOne =>
    simp only [step] at hs
    split at hs
    · rename_i lid peer rest datas hproc
      rw [hproc] at u3; simp at u3
    · rename_i lid peer rest hproc
      simp only [Option.some.injEq] at hs; subst hs
      refine ⟨?_, u2, rfl⟩
      intro e he
      simp only [emit] at he
      rcases List.mem_append.mp he with he | he
      · exact u1 e he
      · simp only [List.mem_singleton] at he; subst he; exact Or.inr (Or.inr ⟨lid, peer, rfl⟩)
    · simp only [Option.some.injEq] at hs; subst hs; exact newproc _ rfl rfl trivial
    · simp at hs

theorem udp_lifecycle : ∀ (acts : List Act) (s s' : St), (∀ a ∈ acts, UdpAct a) → UdpLog s →
    run s acts = some s' → UdpLog s' := by
  intro acts
  induction acts with
  | nil => intro s s' _ hu hr; simp only [run, Option.some.injEq] at hr; subst hr; exact hu
  | cons a as ih =>
    intro s s' hall hu hr
    simp only [run] at hr
    split at hr
    · rename_i s1 hs1
      refine ih s1 s' (fun x hx => hall x (by simp [hx])) ?_ hr
      exact udp_step s s1 a (hall a (by simp)) hu hs1
    · simp at hr

/-- `connect_sync` polls `is_ready`: once it saw `Some(true)` the connection is immediately usable —
a `send` issued in that state is handed to the adapter (never `ResourceNotAvailable`/`NotFound`) -/
theorem connect_sync_ok_usable (s s1 s2 : St) (id : Nat) (a : Status)
    (h1 : step s (.isReady id) = some s1) (hres : s1.results.getLast? = some ("isReady", id, "Some(true)"))
    (h2 : step s1 (.send id a) = some s2) : s2.results.getLast? = some ("send", id, showStatus a) := by
  simp only [step] at h1
  split at h1
  · rename_i hlive
    split at h1
    · rename_i r hfind
      simp only [Option.some.injEq] at h1; subst h1
      have hready : r.ready = true := by
        simp only [record, List.getLast?_append, List.getLast?_singleton, Option.some_or] at hres
        by_cases hr : r.ready = true
        · exact hr
        · simp [hr] at hres
      simp only [step, record, isLive] at h2 hlive
      simp only [isLive, hlive, findReg] at h2
      simp only [findReg] at hfind
      simp only [if_true, hfind, hready, Option.some.injEq] at h2
      subst h2
      simp [record]
    · simp only [Option.some.injEq] at h1; subst h1
      simp [record] at hres
  · simp only [Option.some.injEq] at h1; subst h1
    simp [record] at hres

/-- … and it reports `ConnectionRefused` exactly when `is_ready` answered `None`, i.e. the resource is
no longer registered (failed connect, or removed) -/
theorem is_ready_none_iff (s s1 : St) (id : Nat) (hf : Fresh s) (h1 : step s (.isReady id) = some s1) :
    s1.results.getLast? = some ("isReady", id, "None") ↔ id ∉ s.live := by
  simp only [step] at h1
  split at h1
  · rename_i hlive
    have hmem : id ∈ s.live := by simpa [isLive] using hlive
    obtain ⟨r, hr, hrid⟩ := hf.liveReg id hmem
    have hfind : findReg s id = some r := hrid ▸ findReg_unique s hf r hr
    simp only [hfind, Option.some.injEq] at h1; subst h1
    simp only [record, List.getLast?_append, List.getLast?_singleton, Option.some_or]
    constructor
    · intro h; exfalso; split at h <;> simp at h
    · intro h; exact absurd hmem h
  · rename_i hlive
    have hmem : id ∉ s.live := by simpa [isLive] using hlive
    simp only [Option.some.injEq] at h1; subst h1
    simp [record, hmem]


/-- the hypotheses of `udp_lifecycle` about the adapter are what the Udp adapter (model M8, transcribed
from `adapters/udp.rs`) does: `pending` answers Ready, and `receive` never reports a disconnection,
whatever `recv` answers — datagrams, `WouldBlock`, a pending ICMP `ConnectionRefused` or any other error -/
theorem udp_adapter_contract (i : Nat) (k : Mio.Udp.Kind) (answers : List Mio.Udp.RecvAns) :
    Mio.Udp.remotePending = .ready ∧ (Mio.Udp.remoteReceive i k answers).2 = .waitNextEvent := by
  refine ⟨rfl, ?_⟩
  induction answers with
  | nil => rfl
  | cons a rest ih => cases a <;> simp [Mio.Udp.remoteReceive, ih]

/-- and on a queue of datagrams followed by `WouldBlock` that loop is the `recvLoop` of M8 -/
theorem udp_remoteReceive_is_recvLoop (i : Nat) (k : Mio.Udp.Kind) (q : List Mio.Udp.Dgram) :
    (Mio.Udp.remoteReceive i k (q.map .dgram ++ [.wouldBlock])).1 = Mio.Udp.recvLoop i k q := by
  induction q with
  | nil => rfl
  | cons d q ih => simp [Mio.Udp.remoteReceive, Mio.Udp.recvLoop, ih]

/-! ## Through the node's dispatch layer (for_each, for_each_async, enqueue)

The node layer (model M4) numbers the processor's events in production order; `Mio.Node.netLog` is
the list of numbers handed to the callback so far. Composing `reachable_oinv` (the callback sees the
numbers `0 … k-1` in order, whatever the mode, the hand-over instant and the schedule) with
`lifecycle_wellformed`: what the callback has seen is a prefix of the processor's log, and the
lifecycle automaton is prefix-closed. -/

theorem filterMap_range_getElem? {α} (l : List α) (k : Nat) :
    (List.range k).filterMap (fun i => l[i]?) = l.take k := by
  induction k with
  | zero => simp
  | succ k ih =>
    rw [List.range_succ, List.filterMap_append, ih, List.take_add_one]
    cases h : l[k]? <;> simp [List.filterMap_cons, h]

/-- the events delivered by the node, as a list of processor events -/
def delivered (log : List Ev) (n : Mio.Node.St) : List Ev :=
  (Mio.Node.netLog n).filterMap (fun i => log[i]?)

theorem delivered_is_prefix (log : List Ev) (mode : Mio.Node.Mode) (c : Nat) (n : Mio.Node.St)
    (hn : Mio.Node.Reachable mode c n) : delivered log n = log.take (Mio.Node.netLog n).length := by
  unfold delivered
  have h := (Mio.Node.reachable_oinv mode c n hn).core.2.2.1
  rw [h, filterMap_range_getElem?, List.length_range]

/-- per-endpoint lifecycle as observed by the user's callback behind any of the three listener modes -/
theorem lifecycle_wellformed_through_node (s : St) (h : Reachable s) (mode : Mio.Node.Mode) (c : Nat)
    (n : Mio.Node.St) (hn : Mio.Node.Reachable mode c n) :
    ∀ r ∈ s.regs, phaseOf r (delivered s.log n) ≠ .bad := by
  intro r hr hbad
  have hw := lifecycle_wellformed s h r hr
  rw [delivered_is_prefix s.log mode c n hn] at hbad
  apply hw
  have hsplit : s.log = s.log.take (Mio.Node.netLog n).length ++ s.log.drop (Mio.Node.netLog n).length :=
    (List.take_append_drop _ _).symm
  unfold phaseOf proj at hbad ⊢
  rw [hsplit, List.filter_append, List.foldl_append, hbad, foldl_bad]

/-! Non-vacuity: listen, connect, the peer sends two chunks and closes — the projection on the
connecting endpoint is `Connected(true) Message Message Disconnected`; an inbound connection whose
handshake fails leaves no trace. -/
def exRun : List Act :=
  [.listen, .connect 7, .pollRemote 0 false, .pending .ready, .beginReceive 0 false,
   .pollRemote 0 true, .checkReady, .beginReceive 2 true, .deliver, .deliver, .endReceive, .finish,
   .pollLocal 0 [9] [], .acceptOne, .acceptOne, .pollRemote 1 false, .pending .disconnected, .beginReceive 0 false]
example : ∃ s, run {} exRun = some s ∧
    proj 0 s.log = [.connected 0 true, .message 0, .message 0, .disconnected 0] ∧ proj 1 s.log = [] ∧
    s.live = [] := ⟨_, rfl, by decide, by decide, by decide⟩

end Mio.C03
