import MioModel.RemoteAddr
/-! # C19 — Remote address conversion classifies and preserves its input -/
namespace Mio.C19
open Mio Mio.RemoteAddr
variable {A : Type}

/-- socket-address form exactly when the string parses, string form otherwise -/
theorem classify (parse : String → Option A) (s : String) :
    (∀ a, ofStr parse s = .socket a ↔ parse s = some a) ∧
    (parse s = none ↔ ofStr parse s = .str s) := by
  unfold ofStr
  cases h : parse s <;> simp

/-- the original text is preserved -/
theorem text_preserved (parse : String → Option A) (showAddr : A → String) (s s' : String)
    (h : ofStr parse s = .str s') : s' = s ∧ display showAddr (ofStr parse s) = s := by
  unfold ofStr at h ⊢
  cases hp : parse s <;> simp_all [display]

/-- each predicate is true for exactly its own form, and exactly one of them holds -/
theorem predicates_exact (r : RemoteAddr A) :
    (isSocketAddr r = true ↔ ∃ a, r = .socket a) ∧ (isString r = true ↔ ∃ s, r = .str s) ∧
    (isSocketAddr r ≠ isString r) := by
  cases r <;> simp [isSocketAddr, isString]

/-- predicates agree with the parser on converted strings -/
theorem predicates_of_string (parse : String → Option A) (s : String) :
    isSocketAddr (ofStr parse s) = (parse s).isSome ∧ isString (ofStr parse s) = (parse s).isNone := by
  unfold ofStr
  cases parse s <;> simp [isSocketAddr, isString]

/-- the matching accessor returns the stored value; the other one is the documented panic -/
theorem accessors (a : A) (s : String) :
    socketAddr (.socket a) = some a ∧ string (.str s : RemoteAddr A) = some s ∧
    socketAddr (.str s : RemoteAddr A) = none ∧ string (.socket a) = none ∧
    toSocketAddrs (.socket a) = some a ∧ toSocketAddrs (.str s : RemoteAddr A) = none := by
  simp [socketAddr, string, toSocketAddrs]

/-- conversions from socket-address values are lossless -/
theorem from_addr_lossless (a : A) (showAddr : A → String) :
    socketAddr (ofAddr a) = some a ∧ isSocketAddr (ofAddr a) = true ∧ isString (ofAddr a) = false ∧
    display showAddr (ofAddr a) = showAddr a := by
  simp [ofAddr, socketAddr, isSocketAddr, isString, display]

/-- converting a string that is the printed form of an address, with a parser that inverts the
printer, gives back that address -/
theorem printed_roundtrip (parse : String → Option A) (showAddr : A → String)
    (hinv : ∀ a, parse (showAddr a) = some a) (a : A) : ofStr parse (showAddr a) = .socket a := by
  simp [ofStr, hinv]

/-! Non-vacuity with a toy parser: both branches are inhabited. -/
def toyParse (s : String) : Option Nat := if s = "80" then some 80 else none
example : ofStr toyParse "80" = .socket 80 := by simp [ofStr, toyParse]
example : ofStr toyParse "ws://x" = (.str "ws://x" : RemoteAddr Nat) := by simp [ofStr, toyParse]

end Mio.C19
