import MioModel.Lemmas.EventQueue
/-! # C07 — Receive order: priority, then expired timers by deadline, then FIFO

Sequential semantics of M3 (`MioModel/EventQueue.lean`): every call is issued from one thread, the
queue is quiescent at each receive.  `live q` is the set of pending timers once the queued timer
commands have been applied (what `enque_timers()` produces at the start of every receive). -/
namespace Mio.C07
open Mio.EvQ
variable {E : Type}

local macro "triv" : tactic => `(tactic| first | rfl | trivial)

/-- pending timers after the queued create/cancel commands have been applied -/
def live (q : Q E) : List (Key × E) := foldCmds q.timers q.cmds

/-- a timer is *expired* at `now` -/
def Expired (now : Nat) (p : Key × E) : Prop := p.1.deadline ≤ now

/-! ## 1. a queued priority event is returned first, by all three calls, immediately -/

theorem priority_first (now d : Nat) (q : Q E) (p : E) (ps : List E) (h : q.prio = p :: ps) :
    (tryReceive now q).1 = some p ∧
    (receiveTimeout now d q).1 = some p ∧ (receiveTimeout now d q).2.1 = now ∧
    (∃ q', receive now q = some (p, now, q')) := by
  simp [tryReceive, receiveTimeout, receive, readyEvent, h]

/-! ## 2. otherwise an expired timer, the one with the smallest (deadline, scheduling order) key -/

theorem expired_timer_next (now d : Nat) (q : Q E) (hs : Sorted q.timers) (hp : q.prio = [])
    (x : Key × E) (hx : x ∈ live q) (hex : Expired now x) :
    ∃ k e, (k, e) ∈ live q ∧ Expired now (k, e) ∧
      (∀ y ∈ live q, y.1 = k ∨ k.lt y.1 = true) ∧
      (tryReceive now q).1 = some e ∧
      (receiveTimeout now d q).1 = some e ∧ (receiveTimeout now d q).2.1 = now ∧
      (∃ q', receive now q = some (e, now, q')) := by
  have hsl : Sorted (live q) := foldCmds_sorted _ _ hs
  unfold live at *
  cases hl : foldCmds q.timers q.cmds with
  | nil => rw [hl] at hx; simp at hx
  | cons t ts =>
    obtain ⟨k, e⟩ := t
    rw [hl] at hsl hx
    have hmin := head_deadline_min k e ts hsl x hx
    have hk : k.deadline ≤ now := Nat.le_trans hmin hex
    refine ⟨k, e, List.mem_cons_self, hk, head_min k e ts hsl, ?_, ?_, ?_, ?_⟩ <;>
      simp [tryReceive, receiveTimeout, receive, readyEvent, hp, hl, hk]

/-! ## 3. otherwise the oldest plain event; unexpired timers never hold it back -/

theorem plain_otherwise (now d : Nat) (q : Q E) (hp : q.prio = [])
    (hne : ∀ y ∈ live q, ¬ Expired now y) (x : E) (xs : List E) (hx : q.plain = x :: xs) :
    (tryReceive now q).1 = some x ∧
    (receiveTimeout now d q).1 = some x ∧ (receiveTimeout now d q).2.1 = now ∧
    (∃ q', receive now q = some (x, now, q')) := by
  unfold live at hne
  cases hl : foldCmds q.timers q.cmds with
  | nil => simp [tryReceive, receiveTimeout, receive, readyEvent, hp, hl, hx]
  | cons t ts =>
    obtain ⟨k, e⟩ := t
    have hk : ¬ (k.deadline ≤ now) := by
      have := hne (k, e) (by rw [hl]; exact List.mem_cons_self)
      simpa [Expired] using this
    simp [tryReceive, receiveTimeout, receive, readyEvent, hp, hl, hx, hk]

/-- the choice does not depend on which unexpired timers are pending: two queues with the same
channels and no expired timer return the same event -/
theorem pending_timer_transparent (now : Nat) (q q' : Q E) (hp : q.prio = q'.prio)
    (hpl : q.plain = q'.plain) (h1 : ∀ y ∈ live q, ¬ Expired now y)
    (h2 : ∀ y ∈ live q', ¬ Expired now y) : (tryReceive now q).1 = (tryReceive now q').1 := by
  cases hq : q.prio with
  | cons p ps =>
    rw [(priority_first now 0 q p ps hq).1, (priority_first now 0 q' p ps (hp ▸ hq)).1]
  | nil =>
    cases hx : q.plain with
    | cons x xs =>
      rw [(plain_otherwise now 0 q hq h1 x xs hx).1,
        (plain_otherwise now 0 q' (hp ▸ hq) h2 x xs (hpl ▸ hx)).1]
    | nil =>
      have aux : ∀ (r : Q E), r.prio = [] → r.plain = [] → (∀ y ∈ live r, ¬ Expired now y) →
          (tryReceive now r).1 = none := by
        intro r hrp hrx hre
        unfold live at hre
        cases hl : foldCmds r.timers r.cmds with
        | nil => simp [tryReceive, readyEvent, hrp, hl, hrx]
        | cons t ts =>
          obtain ⟨k, e⟩ := t
          have hk : ¬ (k.deadline ≤ now) := by
            have := hre (k, e) (by rw [hl]; exact List.mem_cons_self)
            simpa [Expired] using this
          simp [tryReceive, readyEvent, hrp, hl, hrx, hk]
      rw [aux q hq hx h1, aux q' (hp ▸ hq) (hpl ▸ hx) h2]

/-! ## 4. the non-blocking forms report nothing only when nothing is deliverable -/

theorem try_none_iff (now : Nat) (q : Q E) (hs : Sorted q.timers) :
    (tryReceive now q).1 = none ↔
      q.prio = [] ∧ q.plain = [] ∧ ∀ y ∈ live q, ¬ Expired now y := by
  constructor
  · intro h
    cases hp : q.prio with
    | cons p ps => rw [(priority_first now 0 q p ps hp).1] at h; simp at h
    | nil =>
      have hexp : ∀ y ∈ live q, ¬ Expired now y := by
        intro y hy hey
        obtain ⟨k, e, _, _, _, h1, _⟩ := expired_timer_next now 0 q hs hp y hy hey
        rw [h1] at h; simp at h
      cases hx : q.plain with
      | cons x xs => rw [(plain_otherwise now 0 q hp hexp x xs hx).1] at h; simp at h
      | nil => exact ⟨rfl, rfl, hexp⟩
  · intro ⟨hp, hx, hre⟩
    unfold live at hre
    cases hl : foldCmds q.timers q.cmds with
    | nil => simp [tryReceive, readyEvent, hp, hl, hx]
    | cons t ts =>
      obtain ⟨k, e⟩ := t
      have hk : ¬ (k.deadline ≤ now) := by
        have := hre (k, e) (by rw [hl]; exact List.mem_cons_self)
        simpa [Expired] using this
      simp [tryReceive, readyEvent, hp, hl, hx, hk]

/-- `receive_timeout(d)` reports nothing exactly when no priority or plain event is queued and no
timer expires within the window; it then returns at `now + d`, not earlier. -/
theorem timeout_none_iff (now d : Nat) (q : Q E) (hs : Sorted q.timers) :
    (receiveTimeout now d q).1 = none ↔
      q.prio = [] ∧ q.plain = [] ∧ ∀ y ∈ live q, ¬ Expired (now + d) y := by
  have hsl : Sorted (live q) := foldCmds_sorted _ _ hs
  unfold live at *
  cases hp : q.prio with
  | cons p ps => simp [receiveTimeout, readyEvent, hp]
  | nil =>
    cases hl : foldCmds q.timers q.cmds with
    | nil => cases hx : q.plain <;> simp [receiveTimeout, readyEvent, hp, hl, hx]
    | cons t ts =>
      obtain ⟨k, e⟩ := t
      rw [hl] at hsl
      have hmin := head_deadline_min k e ts hsl
      by_cases hk : k.deadline ≤ now
      · simp only [receiveTimeout, readyEvent, hp, hl, hk, if_true]
        simp only [reduceCtorEq, false_iff, not_and]
        intro _ _ hall
        exact hall (k, e) List.mem_cons_self (by unfold Expired; simp; omega)
      · cases hx : q.plain with
        | cons x xs => simp [receiveTimeout, readyEvent, hp, hl, hk, hx]
        | nil =>
          by_cases hk2 : k.deadline ≤ now + d
          · simp only [receiveTimeout, readyEvent, hp, hl, hk, hx, hk2, if_true, if_false]
            simp only [reduceCtorEq, false_iff, not_and]
            intro _ _ hall
            exact hall (k, e) List.mem_cons_self hk2
          · simp only [receiveTimeout, readyEvent, hp, hl, hk, hx, hk2, if_false, true_iff, true_and]
            intro y hy hey
            have := hmin y hy
            unfold Expired at hey; omega

theorem timeout_none_time (now d : Nat) (q : Q E) (h : (receiveTimeout now d q).1 = none) :
    (receiveTimeout now d q).2.1 = now + d := by
  cases hp : q.prio with
  | cons p ps => simp [receiveTimeout, readyEvent, hp] at h
  | nil =>
    cases hl : foldCmds q.timers q.cmds with
    | nil => cases hx : q.plain <;> simp [receiveTimeout, readyEvent, hp, hl, hx] at h ⊢
    | cons t ts =>
      obtain ⟨k, e⟩ := t
      by_cases hk : k.deadline ≤ now
      · simp [receiveTimeout, readyEvent, hp, hl, hk] at h
      · cases hx : q.plain with
        | cons x xs => simp [receiveTimeout, readyEvent, hp, hl, hk, hx] at h
        | nil =>
          by_cases hk2 : k.deadline ≤ now + d
          · simp [receiveTimeout, readyEvent, hp, hl, hk, hx, hk2] at h
          · simp [receiveTimeout, readyEvent, hp, hl, hk, hx, hk2]

/-! ## 5. the three calls make the same choice: a blocking call returns what `try_receive` would
return at the first instant of its window at which that is something -/

theorem timeout_agrees_with_try (now d : Nat) (q : Q E) (hs : Sorted q.timers) :
    let r := receiveTimeout now d q
    r.1 = (tryReceive r.2.1 q).1 ∧ r.2.2 = (tryReceive r.2.1 q).2 ∧ now ≤ r.2.1 ∧ r.2.1 ≤ now + d ∧
      ∀ t, now ≤ t → t < r.2.1 → (tryReceive t q).1 = none := by
  have hsl : Sorted (live q) := foldCmds_sorted _ _ hs
  unfold live at hsl
  cases hp : q.prio with
  | cons p ps =>
    simp only [receiveTimeout, tryReceive, readyEvent, hp]
    refine ⟨by triv, by triv, Nat.le_refl _, by omega, ?_⟩
    intro t h1 h2; omega
  | nil =>
    cases hl : foldCmds q.timers q.cmds with
    | nil =>
      cases hx : q.plain with
      | cons x xs =>
        simp only [receiveTimeout, tryReceive, readyEvent, hp, hl, hx]
        refine ⟨by triv, by triv, Nat.le_refl _, by omega, ?_⟩
        intro t h1 h2; omega
      | nil =>
        simp only [receiveTimeout, tryReceive, readyEvent, hp, hl, hx]
        refine ⟨by triv, by triv, by omega, Nat.le_refl _, ?_⟩
        intro t h1 h2; trivial
    | cons tm ts =>
      obtain ⟨k, e⟩ := tm
      by_cases hk : k.deadline ≤ now
      · simp only [receiveTimeout, tryReceive, readyEvent, hp, hl, hk, if_true]
        refine ⟨by triv, by triv, Nat.le_refl _, by omega, ?_⟩
        intro t h1 h2; omega
      · cases hx : q.plain with
        | cons x xs =>
          simp only [receiveTimeout, tryReceive, readyEvent, hp, hl, hk, hx, if_false]
          refine ⟨by triv, by triv, Nat.le_refl _, by omega, ?_⟩
          intro t h1 h2; omega
        | nil =>
          by_cases hk2 : k.deadline ≤ now + d
          · simp only [receiveTimeout, tryReceive, readyEvent, hp, hl, hk, hx, hk2, if_true, if_false,
              Nat.le_refl]
            refine ⟨by triv, by triv, by omega, by first | exact hk2 | trivial, ?_⟩
            intro t h1 h2
            have : ¬ (k.deadline ≤ t) := by omega
            simp [this]
          · have : ¬ (k.deadline ≤ now + d) := hk2
            simp only [receiveTimeout, tryReceive, readyEvent, hp, hl, hk, hx, hk2, if_false]
            refine ⟨by triv, by triv, by omega, Nat.le_refl _, ?_⟩
            intro t h1 h2
            have : ¬ (k.deadline ≤ t) := by omega
            simp [this]

theorem receive_agrees_with_try (now : Nat) (q : Q E) (e : E) (t : Nat) (q' : Q E)
    (h : receive now q = some (e, t, q')) :
    (tryReceive t q).1 = some e ∧ (tryReceive t q).2 = q' ∧ now ≤ t ∧
      ∀ t', now ≤ t' → t' < t → (tryReceive t' q).1 = none := by
  cases hp : q.prio with
  | cons p ps =>
    simp only [receive, readyEvent, hp, Option.some.injEq, Prod.mk.injEq] at h
    obtain ⟨h1, h2, h3⟩ := h
    subst h1; subst h2; subst h3
    simp only [tryReceive, readyEvent, hp]
    refine ⟨by triv, by triv, Nat.le_refl _, ?_⟩
    intro t h1 h2; omega
  | nil =>
    cases hl : foldCmds q.timers q.cmds with
    | nil =>
      cases hx : q.plain with
      | cons x xs =>
        simp only [receive, readyEvent, hp, hl, hx, Option.some.injEq, Prod.mk.injEq] at h
        obtain ⟨h1, h2, h3⟩ := h
        subst h1; subst h2; subst h3
        simp only [tryReceive, readyEvent, hp, hl, hx]
        refine ⟨by triv, by triv, Nat.le_refl _, ?_⟩
        intro t h1 h2; omega
      | nil => simp [receive, readyEvent, hp, hl, hx] at h
    | cons tm ts =>
      obtain ⟨k, e0⟩ := tm
      by_cases hk : k.deadline ≤ now
      · simp only [receive, readyEvent, hp, hl, hk, if_true, Option.some.injEq, Prod.mk.injEq] at h
        obtain ⟨h1, h2, h3⟩ := h
        subst h1; subst h2; subst h3
        simp only [tryReceive, readyEvent, hp, hl, hk, if_true]
        refine ⟨by triv, by triv, Nat.le_refl _, ?_⟩
        intro t h1 h2; omega
      · cases hx : q.plain with
        | cons x xs =>
          simp only [receive, readyEvent, hp, hl, hk, hx, if_false, Option.some.injEq, Prod.mk.injEq] at h
          obtain ⟨h1, h2, h3⟩ := h
          subst h1; subst h2; subst h3
          simp only [tryReceive, readyEvent, hp, hl, hk, hx, if_false]
          refine ⟨by triv, by triv, Nat.le_refl _, ?_⟩
          intro t h1 h2; omega
        | nil =>
          simp only [receive, readyEvent, hp, hl, hk, hx, if_false, Option.some.injEq, Prod.mk.injEq] at h
          obtain ⟨h1, h2, h3⟩ := h
          subst h1; subst h2; subst h3
          simp only [tryReceive, readyEvent, hp, hl, hx, Nat.le_refl, if_true]
          refine ⟨by triv, by triv, by omega, ?_⟩
          intro t h1 h2
          have : ¬ (k.deadline ≤ t) := by omega
          simp [this]

/-! ## 6. scheduling order on ties; every reachable queue keeps the timer map sorted -/

/-- timers scheduled later from the same history get larger sequence numbers, so on equal
deadlines they are ordered by scheduling order -/
theorem schedule_order_breaks_ties (q : Q E) (now dur now' dur' : Nat) (e e' : E) :
    let (k, q1) := sendTimer q now dur e
    let (k', _) := sendTimer q1 now' dur' e'
    k.seq < k'.seq ∧ (k.deadline = k'.deadline → k.lt k' = true) := by
  simp only [sendTimer, Key.lt_iff]
  constructor
  · omega
  · intro h; right; exact ⟨h, by omega⟩

theorem readyEvent_sorted (now : Nat) (q : Q E) (h : Sorted q.timers) :
    Sorted (readyEvent now q).2.timers := by
  have hl : Sorted (foldCmds q.timers q.cmds) := foldCmds_sorted _ _ h
  unfold readyEvent
  cases hp : q.prio with
  | cons p ps => simpa [hp] using hl
  | nil =>
    cases hf : foldCmds q.timers q.cmds with
    | nil => simp [Sorted]
    | cons t ts =>
      obtain ⟨k, e⟩ := t
      rw [hf] at hl
      by_cases hk : k.deadline ≤ now
      · simpa [hp, hf, hk] using sorted_tail _ _ hl
      · simpa [hp, hf, hk] using hl

theorem tryReceive_sorted (now : Nat) (q : Q E) (h : Sorted q.timers) :
    Sorted (tryReceive now q).2.timers := by
  have hr := readyEvent_sorted now q h
  unfold tryReceive
  cases hre : readyEvent now q with
  | mk r q' =>
    rw [hre] at hr
    cases r with
    | some e => exact hr
    | none => cases hx : q'.plain <;> simpa [hx] using hr

theorem receiveTimeout_sorted (now d : Nat) (q : Q E) (h : Sorted q.timers) :
    Sorted (receiveTimeout now d q).2.2.timers := by
  have hr := readyEvent_sorted now q h
  unfold receiveTimeout
  cases hre : readyEvent now q with
  | mk r q' =>
    rw [hre] at hr
    cases r with
    | some e => exact hr
    | none =>
      cases hx : q'.plain with
      | cons x xs => simpa [hx] using hr
      | nil =>
        cases ht : q'.timers with
        | nil => simp [hx, ht, Sorted]
        | cons t ts =>
          obtain ⟨k, e⟩ := t
          rw [ht] at hr
          by_cases hk : k.deadline ≤ now + d
          · simpa [hx, ht, hk] using sorted_tail _ _ hr
          · simpa [hx, ht, hk] using hr

theorem receive_sorted (now : Nat) (q : Q E) (h : Sorted q.timers) (e : E) (t : Nat) (q2 : Q E)
    (hrec : receive now q = some (e, t, q2)) : Sorted q2.timers := by
  have hr := readyEvent_sorted now q h
  unfold receive at hrec
  cases hre : readyEvent now q with
  | mk r q' =>
    rw [hre] at hr hrec
    cases r with
    | some e0 =>
      simp only [Option.some.injEq, Prod.mk.injEq] at hrec
      rw [← hrec.2.2]; exact hr
    | none =>
      cases hx : q'.plain with
      | cons x xs =>
        simp only [hx, Option.some.injEq, Prod.mk.injEq] at hrec
        rw [← hrec.2.2]; exact hr
      | nil =>
        cases ht : q'.timers with
        | nil => simp [hx, ht] at hrec
        | cons tm ts =>
          obtain ⟨k, e1⟩ := tm
          rw [ht] at hr
          simp only [hx, ht, Option.some.injEq, Prod.mk.injEq] at hrec
          rw [← hrec.2.2]; exact sorted_tail _ _ hr

theorem stepOp_sorted (s : Nat × Q E) (op : Op E) (h : Sorted s.2.timers) :
    Sorted (stepOp s op).2.timers := by
  cases op with
  | send e => exact h
  | sendPrio e => exact h
  | sendTimer dur e => exact h
  | cancel k => exact h
  | tick n => exact h
  | tryReceive => exact tryReceive_sorted _ _ h
  | receiveTimeout d => exact receiveTimeout_sorted _ _ _ h
  | receive =>
    simp only [stepOp]
    cases hr : receive s.1 s.2 with
    | none => exact h
    | some r =>
      obtain ⟨e, t, q2⟩ := r
      exact receive_sorted _ _ h e t q2 hr

/-- every queue reachable by any single-threaded history of sends, timers, cancels, clock ticks
and receives keeps its timer map sorted — the hypothesis of the theorems above is never vacuous and
never fails on a reachable state -/
theorem reachable_sorted (ops : List (Op E)) : Sorted (runOps (0, ({} : Q E)) ops).2.timers := by
  have aux : ∀ (ops : List (Op E)) (s : Nat × Q E), Sorted s.2.timers → Sorted (runOps s ops).2.timers := by
    intro ops
    induction ops with
    | nil => intro s h; exact h
    | cons op ops ih => intro s h; exact ih _ (stepOp_sorted s op h)
  exact aux ops _ Sorted_nil

/-! Non-vacuity: the as-found counterexample history of F2 (far timer, then a plain event) on the
current model: `try_receive` returns the plain event, as `receive_timeout(0)` does. -/
def exQ : Q Nat := (send (sendTimer ({} : Q Nat) 0 1000 7).2 42)
example : (tryReceive 5 exQ).1 = some 42 := by decide
example : (receiveTimeout 5 0 exQ).1 = some 42 := by decide
example : (tryReceive 1000 exQ).1 = some 7 := by decide
example : ∃ q', receive 5 (sendPrio exQ 1) = some (1, 5, q') := ⟨_, rfl⟩

end Mio.C07
