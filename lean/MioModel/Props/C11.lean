import MioModel.Lemmas.SendLoop
import MioModel.Lemmas.Stream
import MioModel.Props.C03
/-! # C11 — Raw Tcp preserves the byte stream -/
namespace Mio.C11
open Mio Mio.Stream Mio.Generated

/-- `send` returning `Sent` put exactly `data` on the wire, for every pattern of partial writes and
`WouldBlock`s; whatever the outcome, what was written is a prefix of `data` (nothing skipped,
repeated or reordered). -/
theorem tcpSend_wire (data : Bytes) (sched : List WAns) :
    (tcpSend data sched).wire <+: data ∧
    ((tcpSend data sched).status = some .sent → (tcpSend data sched).wire = data) := by
  have := tcpSendLoop_wire data sched 0 (Nat.zero_le _)
  simpa [tcpSend] using this

/-- Each `Message` chunk is non-empty and at most `INPUT_BUFFER_SIZE` long (the constant is
regenerated from the crate), and the chunks are exactly the bytes consumed, in order. -/
theorem tcpReceive_chunks (rx : Bytes) (fin : Bool) (sched : List RAns)
    (hl : LegalR tcpInputBufferSize rx fin sched) :
    (tcpReceive rx sched).outs.flatten ++ (tcpReceive rx sched).rx = rx ∧
    (∀ o ∈ (tcpReceive rx sched).outs, 1 ≤ o.length ∧ o.length ≤ tcpInputBufferSize) :=
  let h := tcp_recv_chunks tcpInputBufferSize sched rx fin hl
  ⟨h.1, h.2.1⟩

/-- `WaitNextEvent` is only reported once everything readable has been read: no byte waits for
traffic that may never come. -/
theorem tcpReceive_drains (rx : Bytes) (fin : Bool) (sched : List RAns)
    (hl : LegalR tcpInputBufferSize rx fin sched)
    (h : (tcpReceive rx sched).status = some .waitNextEvent) : (tcpReceive rx sched).rx = [] :=
  recv_drains _ _ sched () rx fin hl h

/-- End to end over any number of poll events on a connection that stays up: the concatenation of
all `Message` chunks equals the concatenation of everything that arrived, and nothing is left. -/
theorem tcp_end_to_end : ∀ (evs : List PollEv) (c : ConnSt Unit),
    LegalSession tcpInputBufferSize (fun (_ : Unit) ch => some ((), [ch])) c evs → c.rx = [] →
    let f := session tcpInputBufferSize (fun (_ : Unit) ch => some ((), [ch])) c evs
    f.outs.flatten = c.outs.flatten ++ (evs.map (·.arrived)).flatten ∧ f.rx = [] ∧
      f.panicked = c.panicked := by
  intro evs
  induction evs with
  | nil => intro c _ hrx; simp [session, hrx]
  | cons e es ih =>
    intro c hl hrx
    obtain ⟨⟨⟩, crx, couts, cls, cpk⟩ := c
    simp only at hrx
    subst hrx
    simp only [LegalSession] at hl
    obtain ⟨hl1, hl2, hl3⟩ := hl
    simp only [List.nil_append] at hl1 hl2 hl3
    obtain ⟨p1, _, p3⟩ := tcp_recv_chunks tcpInputBufferSize e.sched e.arrived false hl1
    have hdr := recv_drains tcpInputBufferSize (fun (_ : Unit) ch => some ((), [ch])) e.sched ()
      e.arrived false hl1 hl2
    obtain ⟨q1, q2, q3⟩ := ih _ hl3 hdr
    rw [hdr] at p1
    simp only [List.append_nil, List.nil_append] at p1
    refine ⟨?_, by simpa [session] using q2, ?_⟩
    · simp only [session, List.nil_append]
      rw [q1]
      simp only [List.flatten_append, List.map_cons, List.flatten_cons, List.append_assoc]
      rw [p1]
    · simp only [session, List.nil_append]; rw [q3, p3]; simp

/-! Non-vacuity: 5 bytes sent with a partial write and a `WouldBlock`, received in two reads over
two poll events. -/
example : tcpSend [1, 2, 3, 4, 5] [.accept 2, .wouldBlock, .accept 10] = { status := some .sent, wire := [1, 2, 3, 4, 5] } := by
  decide
example : LegalSession tcpInputBufferSize (fun (_ : Unit) ch => some ((), [ch])) { st := () }
    [{ arrived := [1, 2, 3], sched := [.take 2, .take 1, .wouldBlock] }, { arrived := [4, 5], sched := [.take 2, .wouldBlock] }] := by
  simp [LegalSession, LegalR, recvLoop, tcpInputBufferSize]
example : (session tcpInputBufferSize (fun (_ : Unit) ch => some ((), [ch])) { st := () }
    [{ arrived := [1, 2, 3], sched := [.take 2, .take 1, .wouldBlock] }, { arrived := [4, 5], sched := [.take 2, .wouldBlock] }]).outs
    = [[1, 2], [3], [4, 5]] := by decide

/-! ## Through the node's dispatch layer

Whatever the listener mode and however many chunks were cached before the listener call, the callback
sees the chunks the processor produced in production order (`Mio.Node.reachable_oinv`): the bytes it
has received so far are a prefix of the bytes produced. -/

/-- the byte stream handed to the callback by the node is a prefix of the byte stream the processor's
chunks make up — never a permutation of it -/
theorem tcp_stream_through_node (chunks : List Bytes) (mode : Mio.Node.Mode) (c : Nat) (n : Mio.Node.St)
    (hn : Mio.Node.Reachable mode c n) :
    ((Mio.Node.netLog n).filterMap (fun i => chunks[i]?)).flatten <+: chunks.flatten := by
  have h := (Mio.Node.reachable_oinv mode c n hn).core.2.2.1
  generalize (Mio.Node.netLog n).length = k at h
  rw [h, Mio.C03.filterMap_range_getElem?]
  refine ⟨(chunks.drop k).flatten, ?_⟩
  rw [← List.flatten_append, List.take_append_drop]

/-- **The send loop never gives up.**  `WouldBlock` answers — any number of them, anywhere in the call —
change neither the bytes written nor the status; and as long as the kernel reports no error the call
does not return at all before everything is written (`none` = still looping): a peer that stops reading
for any length of time cannot make `send()` return with part of the buffer on the wire. -/
theorem tcpSend_never_gives_up (data : Bytes) (sched : List WAns) :
    tcpSend data (sched.filter (fun a => a != .wouldBlock)) = tcpSend data sched ∧
    ((∀ a ∈ sched, a ≠ WAns.error) →
      (tcpSend data sched).status = none ∨ (tcpSend data sched).status = some .sent) :=
  ⟨tcpSendLoop_wouldBlock_transparent data sched 0, tcpSendLoop_no_error data sched 0⟩

/-! Non-vacuity: two partial writes with forty `WouldBlock`s in between. -/
example : tcpSend [1, 2, 3] (.accept 1 :: List.replicate 40 .wouldBlock ++ [.accept 5]) =
    { status := some .sent, wire := [1, 2, 3] } := by decide

end Mio.C11
