import MioModel.Lemmas.Node
import MioModel.Lemmas.NodeLive
/-! # C09 — After stop() the callback is never invoked again and the listener returns -/
namespace Mio.C09
open Mio.Node

/-- If a thread executes `stop()` while it is inside the callback, no invocation occurs later in the
execution — by any thread, for cached or live network events or for queued signals: in every
reachable state the log is exactly as long as it was at that `stop()`. -/
theorem no_invoke_after_inner_stop (mode : Mode) (c : Nat) (s : St) (h : Reachable mode c s) (k : Nat)
    (hk : s.stopInCb = some k) : s.log.length = k ∧ s.running = false :=
  let m := (reachable_minv mode c s h).stopIn k hk
  ⟨m.2.1, m.1⟩

/-- `stop()` before `for_each` / `for_each_async` / `enqueue` is called at all: the callback is never
invoked, whatever had been cached. -/
theorem no_invoke_if_stopped_before_start (mode : Mode) (c : Nat) (s : St) (h : Reachable mode c s)
    (hb : s.stoppedBeforeStart = true) : s.log = [] ∧ s.running = false :=
  let m := (reachable_minv mode c s h).stopBefore hb
  ⟨m.2.1, m.1⟩

/-- nobody ever sets the flag back: `is_running()` stays false -/
theorem running_stays_false (s s' : St) (a : Act) (hs : step s a = some s') (hr : s.running = false) :
    s'.running = false := by
  cases a with
  | start =>
    simp only [step] at hs
    split at hs
    · cases hm : s.mode <;> simp only [hm, Option.some.injEq] at hs <;> subst hs <;> exact hr
    · simp at hs
  | callerRelease =>
    simp only [step] at hs
    split at hs
    · simp only [Option.some.injEq] at hs; subst hs; exact hr
    · simp at hs
  | stopIn t =>
    cases t <;> simp only [step] at hs <;>
      (split at hs
       · simp only [Option.some.injEq] at hs; subst hs; rfl
       · simp at hs)
  | stopExt => simp only [step, Option.some.injEq] at hs; subst hs; rfl
  | net poll =>
    simp only [step, stepNet] at hs
    cases hpc : s.pcN <;> simp only [hpc] at hs
    all_goals (try (simp at hs; done))
    all_goals (
      (repeat' (split at hs)) <;>
      (first
        | (simp at hs; done)
        | (simp only [Option.some.injEq] at hs; subst hs; exact hr)))
  | sig arrives =>
    simp only [step, stepSig] at hs
    cases hpc : s.pcS <;> simp only [hpc] at hs
    all_goals (try (simp at hs; done))
    all_goals (
      (repeat' (split at hs)) <;>
      (first
        | (simp at hs; done)
        | (simp only [Option.some.injEq] at hs; subst hs; exact hr)))

/-- how many of its own steps the network thread needs at most to finish once the node is stopped
(`p` = events of the current poll batch still to be skipped, each costs four steps) -/
def measureN (s : St) : Nat :=
  let p := s.pending.length
  match s.pcN with
  | .done => 0
  | .notStarted => 0
  | .idle => 1
  | .fetch => 4 * p + 2
  | .locked _ => 4 * p + 3
  | .want _ => 4 * p + 4
  | .inCb _ => 4 * p + 3
  | .checked _ => 4 * p + 4
  | .rLocked _ => 5
  | .rWant _ => 6
  | .rTop => 7
  | .rInCb _ => 8
  | .rChecked _ => 9

/-- After `stop()`, whenever the callback lock is free (or its own), the network thread can take a
step, and each of its steps brings it strictly closer to `done`: `for_each` returns / the
`NodeTask` can be joined within `measureN` steps of that thread, without invoking the callback
unless it had already passed its last `is_running()` test. -/
theorem net_thread_terminates (s : St) (hm : MInv s) (hr : s.running = false) (hpc : s.pcN ≠ .done)
    (hns : s.pcN ≠ .notStarted) (hother : s.lock ≠ some .sig ∧ s.lock ≠ some .caller)
    (hrp : inReplay s.pcN = true → s.pending = []) :
    ∃ s', step s (.net 0) = some s' ∧ measureN s' < measureN s := by
  have hfree : holdsLockN s.mode s.pcN = false → s.lock = none := by
    intro hh
    cases hl : s.lock with
    | none => rfl
    | some o =>
      cases o with
      | caller => exact absurd hl hother.2
      | sig => exact absurd hl hother.1
      | net => have := hm.lockN.1 hl; rw [hh] at this; simp at this
  simp only [step, stepNet]
  cases hp : s.pcN with
  | notStarted => exact absurd hp hns
  | done => exact absurd hp hpc
  | rTop =>
    have hpend := hrp (by simp [hp, inReplay])
    cases hc : s.cache <;> cases hm : s.mode <;> simp [hr, measureN, hp, hpend]
  | rWant e =>
    have hl := hfree (by simp [hp, holdsLockN, holdsLockPc])
    simp [hl, measureN, hp]
  | rLocked e => simp [hr, measureN, hp]
  | rChecked e => simp [measureN, hp]
  | rInCb e =>
    have hpend := hrp (by simp [hp, inReplay])
    cases hm : s.mode <;> simp [measureN, hp, hpend]
  | idle => simp [hr, measureN, hp]
  | fetch =>
    cases hpd : s.pending with
    | nil => simp [measureN, hp, hpd]
    | cons e rest => simp [measureN, hp, hpd]; omega
  | want e =>
    have hl := hfree (by simp [hp, holdsLockN, holdsLockPc])
    simp [hl, measureN, hp]
  | locked e =>
    cases hpd : s.pending <;> simp [hr, measureN, hp, hpd]
  | checked e => simp [measureN, hp]
  | inCb e => cases hpd : s.pending <;> simp [measureN, hp, hpd]

def measureS (s : St) : Nat :=
  match s.pcS with
  | .idle => 1
  | .fetch => 2
  | .locked _ => 2
  | .want _ => 3
  | .inCb _ => 2
  | .checked _ => 3
  | _ => 0

/-- the same for the signal thread (its `receive_timeout` returns after at most the sampling period) -/
theorem sig_thread_terminates (s : St) (hm : MInv s) (hr : s.running = false) (hpc : s.pcS ≠ .done)
    (hns : s.pcS ≠ .notStarted) (hother : s.lock ≠ some .net ∧ s.lock ≠ some .caller) :
    ∃ s', step s (.sig false) = some s' ∧ measureS s' < measureS s := by
  have hfree : holdsLockPc s.pcS = false → s.lock = none := by
    intro hh
    cases hl : s.lock with
    | none => rfl
    | some o =>
      cases o with
      | caller => exact absurd hl hother.2
      | net => exact absurd hl hother.1
      | sig => have := hm.lockS.1 hl; rw [hh] at this; simp at this
  have hok := hm.sigOk
  simp only [step, stepSig]
  cases hp : s.pcS <;> simp [hp, sigPcOk] at hok hpc hns ⊢
  · simp [hr, measureS, hp]
  · simp [measureS, hp]
  · have hl := hfree (by simp [hp, holdsLockPc]); simp [hl, measureS, hp]
  · simp [hr, measureS, hp]
  · simp [measureS, hp]
  · simp [measureS, hp]


/-! ## The listener returns: all schedules, both threads, the callback lock included

`Next s' s` is one step of a listener thread (network thread with *any* poll result, signal thread
with or without a signal arriving, the caller of `for_each_async` dropping its guard) from a started,
stopped, reachable configuration `s`. -/

theorem stopped_of_reachable (mode : Mode) (c : Nat) (s : St) (h : Reachable mode c s)
    (hr : s.running = false) (hst : s.pcN ≠ .notStarted) : Stopped s :=
  ⟨reachable_minv mode c s h, reachable_struct mode c s h, hr, hst⟩

/-- After `stop()`, **every** schedule of the listener's threads is finite: there is no infinite
sequence of thread steps, whatever the poller and the signal queue keep delivering (`Acc` = all
descending chains are finite). -/
theorem stopped_node_every_schedule_finite (mode : Mode) (c : Nat) (s : St) (h : Reachable mode c s)
    (hr : s.running = false) (hst : s.pcN ≠ .notStarted) : Acc Next s :=
  acc_stopped _ s (Nat.le_refl _) (stopped_of_reachable mode c s h hr hst)

/-- … and no schedule gets stuck early: as long as one of the two threads has not finished, some
thread step is enabled (the callback lock is never held by a thread that is gone, and never held
by nobody while somebody waits). -/
theorem stopped_node_no_deadlock (mode : Mode) (c : Nat) (s : St) (h : Reachable mode c s)
    (hr : s.running = false) (hst : s.pcN ≠ .notStarted) (hnf : ¬ Finished s) :
    ∃ a, ThreadAct a ∧ (step s a).isSome = true :=
  stopped_progress s (stopped_of_reachable mode c s h hr hst) hnf

/-- Together: from every stopped configuration the two threads reach `done` (the listener call
returns / the `NodeTask` can be joined). -/
theorem listener_returns (mode : Mode) (c : Nat) (s : St) (h : Reachable mode c s)
    (hr : s.running = false) (hst : s.pcN ≠ .notStarted) :
    ∃ acts s', (∀ a ∈ acts, ThreadAct a) ∧ run s acts = some s' ∧ Finished s' ∧ s'.running = false := by
  have hacc := stopped_node_every_schedule_finite mode c s h hr hst
  have hS := stopped_of_reachable mode c s h hr hst
  clear h hr hst
  induction hacc with
  | intro s _ ih =>
    by_cases hf : Finished s
    · exact ⟨[], s, by simp, rfl, hf, hS.stopped⟩
    · obtain ⟨a, ha, hen⟩ := stopped_progress s hS hf
      obtain ⟨s1, hs1⟩ := Option.isSome_iff_exists.mp hen
      have hS1 := stopped_step s s1 a hS ha hs1
      obtain ⟨acts, s', hall, hrun, hfin, hrf⟩ := ih s1 ⟨hS, a, ha, hs1⟩ hS1
      refine ⟨a :: acts, s', ?_, ?_, hfin, hrf⟩
      · intro x hx
        rcases List.mem_cons.mp hx with hx | hx
        · subst hx; exact ha
        · exact hall x hx
      · simp only [run, hs1]; exact hrun

/-! Non-vacuity: the as-found F4 history — one cached event, `stop()` before `for_each()` — on the
current model: the callback is not invoked and the listener returns; and a signal callback that
stops the node while the network thread waits for the lock (asynchronous mode). -/
example : ∃ s, run (init .sync 1) [.stopExt, .start, .net 0] = some s ∧ s.log = [] ∧ s.pcN = .done :=
  ⟨_, rfl, rfl, rfl⟩
example : ∃ s, run (init .async 1) [.start, .callerRelease, .sig true, .sig true, .sig true, .sig true, .sig true,
    .net 0, .stopIn .sig, .sig true, .net 0, .net 0, .sig true] = some s ∧
    s.log = [(.sig, .sig 0)] ∧ s.pcN = .done ∧ s.pcS = .done ∧ s.stopInCb = some 1 := ⟨_, rfl, rfl, rfl, rfl, rfl⟩

end Mio.C09
