import MioModel.Lemmas.EventQueueConc
/-! # C06 — The event queue returns every event exactly once, FIFO per sender

Concurrent semantics of M3 (`MioModel/EventQueueConc.lean`): for every schedule of any number of
sender threads, clock ticks and receiver micro-steps. -/
namespace Mio.C06
open Mio.EvQ
variable {E : Type}

/-- Plain and priority events: at every reachable state, what was sent is exactly what has been
returned so far followed by what is still queued — nothing lost, nothing invented, nothing
returned twice, and the returned sequence is the send order (FIFO). -/
theorem conservation_channels (s : St E) (h : Reachable s) :
    s.sentPlain = plainOuts s.returned ++ s.q.plain ∧ s.sentPrio = prioOuts s.returned ++ s.q.prio :=
  reachable_chinv s h

/-- FIFO per sender (per any class of events `p`, e.g. "sent by thread t"): the returned events of
the class are a prefix of the sent events of the class, in send order. -/
theorem fifo_per_sender (s : St E) (h : Reachable s) (p : E → Bool) :
    (plainOuts s.returned).filter p <+: s.sentPlain.filter p ∧
    (prioOuts s.returned).filter p <+: s.sentPrio.filter p := by
  obtain ⟨h1, h2⟩ := reachable_chinv s h
  rw [h1, h2, List.filter_append, List.filter_append]
  exact ⟨List.prefix_append _ _, List.prefix_append _ _⟩

/-- Timers scheduled from any threads get pairwise distinct keys (so one never overwrites another
in the map, even on the same instant). -/
theorem keys_unique (s : St E) (h : Reachable s) :
    List.Pairwise (fun a b => a.key ≠ b.key) s.created := by
  have := (reachable_seqinv s h).1
  refine List.Pairwise.imp ?_ this
  intro a b hab heq
  rw [heq] at hab; omega

/-- Timed events: every returned timer was scheduled (nothing invented), no timer is returned
twice, and every scheduled timer that was neither cancelled nor returned yet is still held. -/
theorem timers_exactly_once (s : St E) (h : Reachable s) :
    (retKeys s).Nodup ∧
    (∀ r ∈ timerOuts s.returned, ∃ c ∈ s.created, c.key = r.1 ∧ c.ev = r.2.1) ∧
    (∀ c ∈ s.created, c.key ∉ cancKeys s → c.key ∉ retKeys s → (c.key, c.ev) ∈ live s.q) := by
  have hi := (reachable_tinv s h).1
  exact ⟨hi.retnodup, fun r hr => (hi.retsub r hr).1, hi.held⟩

/-- Whatever is held is eventually handed out by a non-blocking receive: a `try_receive` that
finds a queued priority/plain event or a timer expired at its clock reading does not report
nothing. -/
theorem try_receive_drains (s s' : St E) (dl : Option Nat) (tnow : Nat) (h : Reachable s)
    (hrx : s.rx = .clockRead .tryRecv dl tnow) (hstep : step s .foldPick = some s')
    (hwork : s.q.prio ≠ [] ∨ s.q.plain ≠ [] ∨ ∃ p ∈ live s.q, p.1.deadline ≤ tnow) :
    ∃ o t, s'.returned = s.returned ++ [(o, t)] ∧ (match o with | .none => False | _ => True) := by
  have hsrt := (reachable_tinv s h).1.srt
  simp only [step, hrx] at hstep
  rcases readyEventK_cases tnow s.q with ⟨p, ps, hp, hre⟩ | ⟨k, e, ts, hp, hl, hd, hre⟩ | ⟨e1, e2, hp, hne⟩
  · rw [hre] at hstep
    simp only [Option.some.injEq] at hstep; subst hstep
    exact ⟨_, _, rfl, trivial⟩
  · rw [hre] at hstep
    simp only [Option.some.injEq] at hstep; subst hstep
    exact ⟨_, _, rfl, trivial⟩
  · cases hre : readyEventK tnow s.q with
    | mk r q' =>
      rw [hre] at hstep e1 e2
      simp only at e1 e2
      subst e1; subst e2
      simp only at hstep
      cases hx : s.q.plain with
      | cons x xs =>
        simp only [hx, Option.some.injEq] at hstep; subst hstep
        exact ⟨_, _, rfl, trivial⟩
      | nil =>
        exfalso
        rcases hwork with hw | hw | ⟨p, hp1, hp2⟩
        · exact hw hp
        · exact hw hx
        · cases hl : live s.q with
          | nil => rw [hl] at hp1; simp at hp1
          | cons t ts =>
            obtain ⟨k, e⟩ := t
            have := hne k e ts hl
            rw [hl] at hsrt hp1
            have := head_deadline_min k e ts hsrt p hp1
            omega

/-! Non-vacuity: a schedule with two senders interleaved with a blocked receiver. -/
example : ∃ s : St Nat, run {} [.call .recv 0, .readClock, .foldPick, .sendTimer 5 7, .wake .cmd, .send 1,
    .readClock, .foldPick, .wake .plain, .tick 5, .call .tryRecv 0, .readClock, .foldPick] = some s ∧
    s.returned.map (·.2) = [0, 5] ∧ plainOuts s.returned = [1] ∧ retKeys s = [⟨5, 0⟩] :=
  ⟨_, rfl, by decide, by decide, by decide⟩

end Mio.C06
