import MioModel.Lemmas.Net
/-! # C04 — A connection ends exactly once: Disconnected xor a successful local remove() -/
namespace Mio.C04
open Mio.Net

/-- For every endpoint, in every reachable state: the number of `Disconnected` events plus the number
of `remove()` calls that returned `true` is at most one — whatever the interleaving of the peer's
close with `remove()` calls from any number of threads or from inside the callback. -/
theorem end_exactly_once (s : St) (h : Reachable s) (id : Nat) :
    s.log.count (.disconnected id) + s.removeTrue.count id ≤ 1 := by
  obtain ⟨c1, c2⟩ := reachable_countinv s h
  rw [c1 id, c2 id]
  exact count_pair_le_one s.dereg (reachable_fresh s h).deregNodup id .procRead .user (by simp)

/-- in particular at most one of any number of concurrent `remove(id)` calls returns `true` -/
theorem remove_true_once (s : St) (h : Reachable s) (id : Nat) : s.removeTrue.count id ≤ 1 := by
  have := end_exactly_once s h id; omega

/-- `Disconnected` is emitted only by the processor step whose own deregistration succeeded, after
the `receive` call that reported the disconnection returned: all `Message` callbacks of that read
precede it (the step is only enabled in the `afterReceive` phase, which follows the last `deliver`) -/
theorem disconnected_after_data (s s' : St) (a : Act) (id : Nat) (hr : Reachable s) (hs : step s a = some s')
    (hnew : s'.log.count (.disconnected id) > s.log.count (.disconnected id)) :
    (∃ d, s.proc = .afterReceive id d) ∧ id ∉ s'.live := by
  have hf' : Fresh s' := step_fresh s s' a (reachable_fresh s hr) hs
  have hd := step_delta s s' a hs
  cases hd with
  | quiet evs hlog hev _ _ =>
    rw [hlog, List.count_append, count_quiet evs hev id] at hnew; omega
  | userRemove id0 hlog _ _ => rw [hlog] at hnew; omega
  | pendFail id0 evs hlog hev _ _ =>
    rw [hlog, List.count_append, count_quiet evs hev id] at hnew; omega
  | procDisc id0 hlog hdereg _ hproc =>
    have hid : id0 = id := by
      rw [hlog, List.count_append] at hnew
      by_cases he : id0 = id
      · exact he
      · simp [he] at hnew
    subst hid
    refine ⟨hproc, ?_⟩
    exact (hf'.deregNot (id0, .procRead) (by rw [hdereg]; simp)).1

/-- after the end (whichever way), forever: `send` → `ResourceNotFound`, `is_ready` → `None`,
`remove` → `false`, in every continuation of the history (ids are never reused) -/
theorem after_end (s s' s1 : St) (acts : List Act) (id : Nat) (hr : Reachable s) (hid : id < s.nextRemote)
    (hgone : id ∉ s.live) (hrun : run s acts = some s') :
    (∀ a, step s' (.send id a) = some s1 → s1.results.getLast? = some ("send", id, "ResourceNotFound")) ∧
    (step s' (.isReady id) = some s1 → s1.results.getLast? = some ("isReady", id, "None")) ∧
    (step s' (.remove id) = some s1 → s1.results.getLast? = some ("remove", id, "false")) := by
  have _ := hr
  obtain ⟨hnl, _⟩ := run_not_live acts s s' id hid hgone hrun
  have hlive : isLive s' id = false := by simpa [isLive] using hnl
  refine ⟨?_, ?_, ?_⟩
  · intro a h
    simp only [step, hlive, Bool.false_eq_true, if_false, Option.some.injEq] at h; subst h
    simp [record, showStatus]
  · intro h
    simp only [step, hlive, Bool.false_eq_true, if_false, Option.some.injEq] at h; subst h
    simp [record]
  · intro h
    simp only [step, deregister, hlive, Bool.false_eq_true, if_false, Option.some.injEq] at h; subst h
    simp [record]; rfl

/-- a successful `remove()` takes the resource out of the registry at once; with no processor step
holding the register the socket is closed (`openSockets`) -/
theorem remove_releases (s s' : St) (id : Nat) (hs : step s (.remove id) = some s') :
    id ∉ s'.live ∧ (s.proc = .idle → id ∉ openSockets s') := by
  simp only [step, Option.some.injEq] at hs; subst hs
  obtain ⟨d1, d2, d3, d4, d5, d6, d7⟩ := deregister_live s id .user
  have hnl : id ∉ (deregister s id Who.user).2.live := by rw [d1]; simp
  by_cases hok : (deregister s id Who.user).1 = true
  · simp only [hok, if_true]
    refine ⟨by simpa [record] using hnl, ?_⟩
    intro hidle
    simp only [openSockets, record, d4, hidle, procHolds]
    exact hnl
  · simp only [hok, Bool.false_eq_true, if_false]
    refine ⟨by simpa [record] using hnl, ?_⟩
    intro hidle
    simp only [openSockets, record, d4, hidle, procHolds]
    exact hnl

end Mio.C04
