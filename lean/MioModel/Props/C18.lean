import MioModel.Lemmas.Net
import MioModel.Props.C09
import MioModel.Accept
/-! # C18 — Closed resources release their OS socket; stopped nodes release their threads

The register of a resource (`Arc<Register>`: it owns the socket and deregisters it from the poll in
`Drop`) is alive exactly while the registry map or an in-flight processor step holds it. -/
namespace Mio.C18
open Mio.Net

/-- a socket is open iff its register has a holder: the map entry, or the processor step in flight -/
theorem open_iff_held (s : St) (id : Nat) :
    id ∈ openSockets s ↔ id ∈ s.live ∨ procHolds s.proc = some id := by
  unfold openSockets
  cases hp : procHolds s.proc with
  | none => simp
  | some x =>
    by_cases hx : s.live.contains x = true
    · simp only [hx, if_true]
      constructor
      · intro h; exact Or.inl h
      · intro h
        rcases h with h | h
        · exact h
        · simp only [Option.some.injEq] at h; subst h; simpa using hx
    · simp only [hx, Bool.false_eq_true, if_false, List.mem_cons]
      constructor
      · intro h; rcases h with h | h
        · right; rw [h]
        · left; exact h
      · intro h; rcases h with h | h
        · right; exact h
        · left; simp only [Option.some.injEq] at h; exact h.symm

/-- when the processor is idle the open sockets are exactly the registered resources -/
theorem quiescent_open_eq_map (s : St) (h : s.proc = .idle) : openSockets s = s.live := by
  simp [openSockets, h, procHolds]

/-- every way a resource can end takes it out of the map: a successful `remove`, a `Disconnected`, a
failed connect, a failed inbound handshake (all are successful deregistrations, recorded in `dereg`) -/
theorem ended_not_registered (s : St) (h : Reachable s) : ∀ x ∈ s.dereg, x.1 ∉ s.live :=
  fun x hx => ((reachable_fresh s h).deregNot x hx).1

/-- hence: after any history in which every resource ever registered has ended (in whichever way) and
no processor step is in flight, no socket is left open -/
theorem all_ended_all_closed (s : St) (h : Reachable s) (hidle : s.proc = .idle)
    (hall : ∀ r ∈ s.regs, r.id ∈ s.dereg.map (·.1)) : openSockets s = [] := by
  rw [quiescent_open_eq_map s hidle]
  have hf := reachable_fresh s h
  cases hl : s.live with
  | nil => rfl
  | cons x xs =>
    exfalso
    have hx : x ∈ s.live := by rw [hl]; exact List.mem_cons_self
    obtain ⟨r, hr, hrid⟩ := hf.liveReg x hx
    obtain ⟨d, hd, hdid⟩ := List.mem_map.mp (hall r hr)
    exact (hf.deregNot d hd).1 (by rw [hdid, hrid]; exact hx)

/-- and a register that left the map is never held again: once closed, closed forever -/
theorem closed_stays_closed (s s' : St) (acts : List Act) (id : Nat) (hid : id < s.nextRemote)
    (hgone : id ∉ s.live) (hrun : run s acts = some s') : id ∉ s'.live :=
  (run_not_live acts s s' id hid hgone hrun).1

/-! Non-vacuity: connect, refused; connect, established, peer closes; accepted, failed handshake. -/
example : ∃ s, run {} [.connect 1, .pollRemote 0 false, .pending .disconnected, .beginReceive 0 false,
    .connect 2, .pollRemote 1 false, .pending .ready, .beginReceive 0 false, .pollRemote 1 true, .checkReady,
    .beginReceive 0 true, .endReceive, .finish, .listen, .pollLocal 0 [5] [], .acceptOne, .acceptOne,
    .pollRemote 2 false, .pending .disconnected, .beginReceive 0 false] = some s ∧
    openSockets s = [] ∧ s.dereg.map (·.1) = [0, 1, 2] := ⟨_, rfl, by decide, by decide⟩

/-! ## stopped nodes release their threads (node model M4)

The two dispatch threads are the only threads a running listener owns (the cache thread of
`NodeListener::new` is joined by the listener call itself). -/

/-- once stopped, both dispatch threads of a started listener reach their end under every schedule:
all schedules are finite and none is stuck before both are done, so `for_each` returns and a
`NodeTask` can be joined (`wait`/`drop`) — see `Mio.C09.stopped_node_every_schedule_finite`,
`stopped_node_no_deadlock` -/
theorem stopped_node_releases_threads (mode : Mio.Node.Mode) (c : Nat) (n : Mio.Node.St)
    (h : Mio.Node.Reachable mode c n) (hr : n.running = false) (hst : n.pcN ≠ .notStarted) :
    Acc Mio.Node.Next n ∧
    (¬ Mio.Node.Finished n → ∃ a, Mio.Node.ThreadAct a ∧ (Mio.Node.step n a).isSome = true) ∧
    ∃ acts n', (∀ a ∈ acts, Mio.Node.ThreadAct a) ∧ Mio.Node.run n acts = some n' ∧ Mio.Node.Finished n' :=
  ⟨Mio.C09.stopped_node_every_schedule_finite mode c n h hr hst,
   Mio.C09.stopped_node_no_deadlock mode c n h hr hst,
   by
     obtain ⟨acts, n', h1, h2, h3, _⟩ := Mio.C09.listener_returns mode c n h hr hst
     exact ⟨acts, n', h1, h2, h3⟩⟩

/-! ## the accept loop gives the thread back (model M2a)

A network step of the node model (and `pollLocal` of M5) is one call of `Local::accept`; the thread
reaches its next look at the `running` flag only if that call returns. -/
section accept
open Mio.Accept

/-- the loop leaves at the first `WouldBlock` *or error* answer, having made exactly one `accept()` call
per answer up to there: whatever the kernel would answer afterwards (the same error again, for ever, as
with an exhausted descriptor table) is never asked for -/
theorem accept_loop_ends_at_first_stop (pre post : List AAns) (stop : AAns)
    (hpre : ∀ a ∈ pre, isStop a = false) (hstop : isStop stop = true) :
    acceptLoop (pre ++ stop :: post) = ⟨peers pre, pre.length + 1, true⟩ := by
  induction pre with
  | nil => cases stop <;> simp_all [acceptLoop, isStop, peers]
  | cons a pre ih =>
    have ih' := ih (fun x hx => hpre x (List.mem_cons_of_mem _ hx))
    have ha := hpre a (List.mem_cons_self ..)
    cases a with
    | conn p => simp [acceptLoop, ih', peers]
    | interrupted => simp [acceptLoop, ih', peers]
    | wouldBlock => simp [isStop] at ha
    | error => simp [isStop] at ha

/-- every connection the kernel handed over before that point reaches the callback once, in order -/
theorem accept_loop_hands_over_each_connection (ans : List AAns) :
    (acceptLoop ans).accepted = peers (ans.take (acceptLoop ans).consumed) ∧
    (acceptLoop ans).consumed ≤ ans.length := by
  induction ans with
  | nil => simp [acceptLoop, peers]
  | cons a rest ih =>
    cases a with
    | conn p => simp [acceptLoop, peers, ih.1, ih.2]
    | interrupted => simp [acceptLoop, peers, ih.1, ih.2]
    | wouldBlock => simp [acceptLoop, peers]
    | error => simp [acceptLoop, peers]

/-! Non-vacuity: one connection, an interrupted call, then EMFILE for ever (three shown). -/
example : acceptLoop [.conn 7, .interrupted, .error, .error, .error] = ⟨[7], 3, true⟩ := rfl

end accept

end Mio.C18
