import MioModel.Lemmas.ResourceId
import MioModel.Lemmas.Net
import MioModel.Props.C12
/-! # C14 — Endpoints identify one connection forever; ids are never reused (id layout part)

Bit layout of `ResourceId`, the poll token, the id generator, the transport/driver tables.
The history-level statements (stale endpoints are rejected, events carry the right endpoint) are
stated on the network model (M5). -/
namespace Mio.C14
open Mio.Rid Mio.Generated

/-- The accessors of an id built from in-range fields return exactly those fields. -/
theorem fields_roundtrip (a : Nat) (t : RType) (b raw : Nat) (ha : a ≤ maxAdapterId)
    (hb : b ≤ maxBaseValue) (h : mk a t b = some raw) :
    adapterId raw = a ∧ resourceType raw = t ∧ baseValue raw = b ∧ raw < 2 ^ 64 := by
  rw [mk_eq a t b ha hb] at h
  simp only [Option.some.injEq] at h
  have ha' : a < 128 := by unfold maxAdapterId at ha; omega
  have hb' : b < 2 ^ 56 := by unfold maxBaseValue at hb; omega
  have hlt : raw < 2 ^ 64 := by cases t <;> simp at h <;> omega
  refine ⟨?_, ?_, ?_, hlt⟩
  · rw [adapterId_eq]; cases t <;> simp at h <;> omega
  · rw [resourceType_eq]
    cases t
    · simp at h; rw [if_pos (by omega)]
    · simp at h; rw [if_neg (by omega)]
  · rw [baseValue_eq raw hlt]; cases t <;> simp at h <;> omega

/-- Out-of-range fields are rejected (the two `debug_assert!`s), never silently truncated. -/
theorem mk_guard (a : Nat) (t : RType) (b : Nat) :
    (mk a t b).isSome ↔ a ≤ maxAdapterId ∧ b ≤ maxBaseValue := by
  unfold mk
  by_cases h1 : a > maxAdapterId
  · simp [h1]; omega
  · by_cases h2 : b > maxBaseValue
    · simp [h1, h2]
    · simp [h1, h2]; omega

/-- For every raw value the three accessors partition the 64 bits: rebuilding an id from them gives
the raw value back (no bit is read by two accessors or by none). -/
theorem accessors_partition (raw : Nat) (h : raw < 2 ^ 64) :
    mk (adapterId raw) (resourceType raw) (baseValue raw) = some raw := by
  have ha : adapterId raw ≤ maxAdapterId := by rw [adapterId_eq]; unfold maxAdapterId; omega
  have hb : baseValue raw ≤ maxBaseValue := by rw [baseValue_eq raw h]; unfold maxBaseValue; omega
  rw [mk_eq _ _ _ ha hb, adapterId_eq, baseValue_eq raw h, resourceType_eq]
  have := Nat.mod_two_eq_zero_or_one (raw / 128)
  rcases this with h2 | h2 <;> simp [h2] <;> omega

/-- Distinct (adapter, type, base) triples give distinct ids. -/
theorem mk_injective (a a' : Nat) (t t' : RType) (b b' raw : Nat) (ha : a ≤ maxAdapterId)
    (ha' : a' ≤ maxAdapterId) (hb : b ≤ maxBaseValue) (hb' : b' ≤ maxBaseValue)
    (h : mk a t b = some raw) (h' : mk a' t' b' = some raw) : a = a' ∧ t = t' ∧ b = b' := by
  obtain ⟨h1, h2, h3, _⟩ := fields_roundtrip a t b raw ha hb h
  obtain ⟨h1', h2', h3', _⟩ := fields_roundtrip a' t' b' raw ha' hb' h'
  exact ⟨h1.symm.trans h1', h2.symm.trans h2', h3.symm.trans h3'⟩

/-- The poll token of an id identifies it and is never the waker's token. The bound `2^63` is the
real code's domain: beyond it the shift drops the top bit. -/
theorem token_roundtrip (raw : Nat) (h : raw < 2 ^ 63) :
    ofToken (toToken raw) = raw ∧ toToken raw ≠ wakerToken ∧ toToken raw < 2 ^ 64 := by
  rw [toToken_eq raw h, ofToken_eq]; unfold wakerToken; omega

/-- Ids whose base value is below `2^55` are in the token's domain. -/
theorem id_in_token_domain (a : Nat) (t : RType) (b raw : Nat) (ha : a ≤ maxAdapterId)
    (hb : b < 2 ^ 55) (h : mk a t b = some raw) : raw < 2 ^ 63 := by
  rw [mk_eq a t b ha (by unfold maxBaseValue; omega)] at h
  unfold maxAdapterId at ha
  cases t <;> simp at h <;> omega

/-- Closed form of the generator: the i-th id carries the generator's adapter and type and the
base value `last + i`. -/
theorem generator_ids : ∀ (n : Nat) (g : Gen), g.adapter ≤ maxAdapterId → g.last + n ≤ maxBaseValue + 1 →
    ∀ i, i < n → (g.run n)[i]? = some (mk g.adapter g.rtype (g.last + i)) := by
  intro n
  induction n with
  | zero => intro g _ _ i hi; omega
  | succ n ih =>
    intro g ha hl i hi
    cases i with
    | zero => simp [Gen.run, Gen.generate]
    | succ i =>
      have hmod : (g.last + 1) % 2 ^ 64 = g.last + 1 := by
        apply Nat.mod_eq_of_lt; unfold maxBaseValue at hl; omega
      have := ih (g.generate).2 (by simpa [Gen.generate] using ha)
        (by simp only [Gen.generate, hmod]; omega) i (by omega)
      simp only [Gen.run, List.getElem?_cons_succ, this]
      simp only [Gen.generate, hmod]
      congr 2; omega

/-- Ids handed out by one generator are all valid and pairwise distinct (fewer than `2^56`
registrations per registry — the domain in which `ResourceId::new` does not assert). -/
theorem generator_fresh (n : Nat) (g : Gen) (ha : g.adapter ≤ maxAdapterId)
    (hl : g.last + n ≤ maxBaseValue + 1) (i j : Nat) (hij : i < j) (hj : j < n) :
    ∃ x y, (g.run n)[i]? = some (some x) ∧ (g.run n)[j]? = some (some y) ∧ x ≠ y ∧
      adapterId x = g.adapter ∧ resourceType x = g.rtype := by
  have hi := generator_ids n g ha hl i (by omega)
  have hj' := generator_ids n g ha hl j hj
  have hbi : g.last + i ≤ maxBaseValue := by omega
  have hbj : g.last + j ≤ maxBaseValue := by omega
  obtain ⟨x, hx⟩ := Option.isSome_iff_exists.mp ((mk_guard g.adapter g.rtype (g.last + i)).2 ⟨ha, hbi⟩)
  obtain ⟨y, hy⟩ := Option.isSome_iff_exists.mp ((mk_guard g.adapter g.rtype (g.last + j)).2 ⟨ha, hbj⟩)
  refine ⟨x, y, by rw [hi, hx], by rw [hj', hy], ?_, ?_, ?_⟩
  · intro hxy
    subst hxy
    have := (mk_injective _ _ _ _ _ _ x ha ha hbi hbj hx hy).2.2
    omega
  · exact (fields_roundtrip _ _ _ x ha hbi hx).1
  · exact (fields_roundtrip _ _ _ x ha hbi hx).2.1

/-- Ids of different registries (another adapter, or listener vs connection) never coincide. -/
theorem generators_disjoint (g g' : Gen) (b b' x : Nat) (ha : g.adapter ≤ maxAdapterId)
    (ha' : g'.adapter ≤ maxAdapterId) (hb : b ≤ maxBaseValue) (hb' : b' ≤ maxBaseValue)
    (hne : g.adapter ≠ g'.adapter ∨ g.rtype ≠ g'.rtype)
    (h : mk g.adapter g.rtype b = some x) : mk g'.adapter g'.rtype b' ≠ some x := by
  intro h'
  have := mk_injective _ _ _ _ _ _ x ha ha' hb hb' h h'
  rcases hne with h1 | h1
  · exact h1 this.1
  · exact h1 this.2.1

/-- The transport table regenerated from the crate: ids are pairwise distinct and below
`MAX_ADAPTERS`, `Transport::from(t.id()) = t`, and the driver table dispatches an id's adapter field
to the driver mounted for exactly that transport. -/
theorem transport_table :
    (transports.map (·.id)).Nodup ∧ (∀ r ∈ transports, r.id < maxAdapters ∧ r.id ≤ maxAdapterId) ∧
    (∀ r ∈ transports, r.fromId = r.name) ∧
    (∀ r ∈ transports, transportOfId r.id = some r ∧ driverSlot r.id = some r.name) := by
  decide +kernel

/-- Slots without a mounted adapter hold the panic stub (`UnimplementedDriver`): stated, not hidden. -/
theorem unmounted_slot_panics (i : Nat) (h : ∀ r ∈ transports, r.id ≠ i) : driverSlot i = none := by
  unfold driverSlot
  split
  · have : transports.find? (fun r => decide (r.id = i)) = none := by
      rw [List.find?_eq_none]; intro r hr; simpa using h r hr
    rw [this]; rfl
  · rfl

/-- An id built for a transport's adapter is dispatched to that transport's driver. -/
theorem dispatch_by_adapter (r : TransportRow) (hr : r ∈ transports) (t : RType) (b raw : Nat)
    (hb : b ≤ maxBaseValue) (h : mk r.id t b = some raw) : dispatch raw = some r.name := by
  have ht := transport_table
  have hid := (ht.2.1 r hr).2
  unfold dispatch
  rw [(fields_roundtrip r.id t b raw hid hb h).1]
  exact (ht.2.2.2 r hr).2

/-! Non-vacuity -/
example : mk 3 .remote 5 = some 1283 ∧ adapterId 1283 = 3 ∧ resourceType 1283 = .remote ∧ baseValue 1283 = 5 := by
  decide
example : mk 1 .local 0 = some 129 ∧ toToken 129 = 259 ∧ ofToken 259 = 129 := by decide
example : ({ adapter := 2, rtype := .remote, last := 0 } : Gen).run 3 = [some 2, some 258, some 514] := by decide

/-! ## history level (network model M5): an endpoint kept after its connection ended never
addresses a newer one -/
open Mio.Net in
/-- ids handed out by one registry are pairwise distinct over the whole history, and every id in
the registry map or in an event was handed out before (`< nextRemote`) -/
theorem ids_never_reused (s : St) (h : Net.Reachable s) :
    (s.regs.map (·.id)).Nodup ∧ (∀ r ∈ s.regs, r.id < s.nextRemote) ∧ s.live.Nodup :=
  let f := Net.reachable_fresh s h
  ⟨f.regsNodup, f.regsLt, f.liveNodup⟩

open Mio.Net in
/-- after an endpoint ended (by `Disconnected`, `remove`, failed connect …), in every later history
`send` to it answers `ResourceNotFound`, the adapter's `send` is not invoked (no peer receives
anything) and the registry never contains the id again -/
theorem stale_endpoint_rejected (s s' s1 : St) (acts : List Act) (id : Nat) (a : Status)
    (hid : id < s.nextRemote) (hgone : id ∉ s.live) (hrun : run s acts = some s')
    (hs : step s' (.send id a) = some s1) :
    s1.results.getLast? = some ("send", id, "ResourceNotFound") ∧ s1.adapterSends = s'.adapterSends ∧
    id ∉ s1.live := by
  obtain ⟨hnl, _⟩ := run_not_live acts s s' id hid hgone hrun
  have hlive : isLive s' id = false := by simpa [isLive] using hnl
  simp only [step, hlive, Bool.false_eq_true, if_false, Option.some.injEq] at hs; subst hs
  exact ⟨by simp [record, showStatus], rfl, by simpa [record] using hnl⟩

open Mio.Net in
/-- every event carries an id the registry handed out before the event (never a future or foreign one) -/
theorem event_ids_were_handed_out (s : St) (h : Net.Reachable s) (e : Net.Ev) (he : e ∈ s.log) (id : Nat)
    (hid : e.rid = some id) : id < s.nextRemote :=
  (Net.reachable_inv s h).logIds e he id hid

/-- datagram events (model M8): the endpoint of a `Message` event on socket `j` names `j` itself and
the address of the socket whose successful send produced exactly these bytes — for a listener the
sender's own address (not the address the datagram arrived on), for a connected socket its peer -/
theorem datagram_event_names_receiver_and_sender (w : Udp.World) (h : Udp.Reachable w) (j : Nat)
    (s : Udp.Sock) (hj : w.socks[j]? = some s) (e : Udp.Ev) (he : e ∈ s.events) :
    e.ep.rid = j ∧ ∃ r ∈ w.log, r.dst = j ∧ r.src = e.ep.addr ∧ r.status = .sent ∧
      (Udp.cutK s.kind ⟨r.src, r.data⟩).data = e.data := by
  obtain ⟨h1, _, r, hr, h2, h3, h4, h5⟩ := C12.event_attributed_to_its_sender w h j s hj e he
  exact ⟨h1, r, hr, h2, h3, h5, h4⟩

end Mio.C14
