import MioModel.Lemmas.Decoder
import MioModel.WsHandshake
import MioModel.Lemmas.Net
import MioModel.Props.C03
/-! # C17 — A misbehaving peer cannot crash, wedge or confuse the node (decoder part)

The FramedTcp receive path hands every byte a peer writes, in whatever chunking the kernel
produces, to `Decoder::decode`.  These theorems quantify over *arbitrary* byte strings. -/
namespace Mio.C17
open Mio Mio.Generated

/-- No byte sequence, in any chunking, makes the decoder panic: every checked subtraction in
`store_and_decoded_data` is safe on every reachable decoder state. -/
theorem feed_total (chunks : List Bytes) : feed [] chunks ≠ none := by
  obtain ⟨r, hr⟩ := feed_total_gen chunks [] DecInv_nil
  rw [hr]; simp

/-- One more call on any reachable decoder state never panics (the invariant is inductive, so the
statement holds after any history, not only from the empty decoder). -/
theorem decode_total_reachable (history : List Bytes) (st : Bytes) (outs : List Bytes)
    (h : feed [] history = some (st, outs)) (data : Bytes) : decode st data ≠ none := by
  have hinv : DecInv st := by
    have aux : ∀ (cs : List Bytes) (s : Bytes), DecInv s → ∀ s' o, feed s cs = some (s', o) → DecInv s' := by
      intro cs
      induction cs with
      | nil => intro s hs s' o h; simp [feed] at h; rw [← h.1]; exact hs
      | cons c cs ih =>
        intro s hs s' o h
        obtain ⟨s1, o1, hd, hi⟩ := decode_total s c hs
        simp only [feed, hd] at h
        split at h
        · simp at h
        · rename_i s2 o2 hf
          simp only [Option.some.injEq, Prod.mk.injEq] at h
          rw [← h.1]; exact ih s1 hi s2 o2 hf
    exact aux history [] DecInv_nil st outs h
  obtain ⟨s', o, hd, _⟩ := decode_total st data hinv
  rw [hd]; simp

/-- An over-long size prefix (ten or more buffered bytes that still do not decode) stops the buffer
growing: further data is dropped, nothing is delivered, memory stays bounded. -/
theorem garbage_prefix_bounded (st data : Bytes) (hnone : decodeVar st = none)
    (hlen : maxEncodedSize ≤ st.length) : decode st data = some (st, []) := by
  have hne : st ≠ [] := by
    intro h; subst h; simp [maxEncodedSize] at hlen
  unfold decode storeAndDecoded
  rw [if_neg hne, hnone]
  have hk : min (maxEncodedSize - st.length) (sizeEnd data) = 0 := by omega
  simp only [hk, List.take_zero, List.append_nil, hnone]

/-- What a decoder that refuses a prefix has seen: only continuation bytes among the first ten. -/
theorem undecodable_is_all_continuation (st : Bytes) (h : decodeVar st = none) :
    ∀ b ∈ st.take 10, 128 ≤ b.toNat := decodeVar_none_struct st h

/-! Non-vacuity / regression witnesses: the two inputs that panicked the decoder as found
(`MioModel/AsFound/Decoder.lean`) are handled by the current model. -/
example : feed [] [[0x80], [0x00, 1, 2, 3]] = some ([3], [[], [2]]) := by decide
example : feed [] [List.replicate 11 0xff, [1]] = some (List.replicate 11 0xff, []) := by decide
example : decodeVar (List.replicate 11 0xff) = none ∧ maxEncodedSize ≤ (List.replicate 11 (0xff : UInt8)).length := by
  decide

/-! ## network level (M5): what a peer does to its own connection stays on that connection -/
open Mio.Net

/-- is `a` a step of `process(id, _)` on a remote resource? -/
def isProcAct : Act → Bool
  | .pending _ | .checkReady | .beginReceive _ _ | .deliver | .endReceive | .finish => true
  | _ => false

/-- Non-interference: a processor step working on connection `id` — whatever the adapter answers
(handshake failure, any number of messages, disconnection, reset) — changes the registration of no
other connection, the `ready` flag of no other connection, and reports events about `id` only. -/
theorem process_frame (s s' : St) (a : Act) (id : Nat) (hp : procHolds s.proc = some id)
    (ha : isProcAct a = true) (hs : step s a = some s') :
    (∀ x, x ≠ id → (x ∈ s'.live ↔ x ∈ s.live)) ∧
    (∃ evs, s'.log = s.log ++ evs ∧ ∀ e ∈ evs, e.rid = some id) ∧
    (∀ r ∈ s.regs, r.id ≠ id → r ∈ s'.regs) := by
  have dl : ∀ w, ∀ x, x ≠ id → (x ∈ (deregister s id w).2.live ↔ x ∈ s.live) := by
    intro w x hx
    rw [(deregister_live s id w).1]
    simp [List.mem_filter, hx]
  cases a with
  | pending ans =>
    simp only [step] at hs
    split at hs
    · rename_i id0 read hproc
      have hid : id0 = id := by simpa [procHolds, hproc] using hp
      subst hid
      split at hs
      · rename_i r0 hfind
        split at hs
        · simp at hs
        · cases ans with
          | ready =>
            simp only [Option.some.injEq] at hs; subst hs
            refine ⟨fun x _ => Iff.rfl, ⟨[_], rfl, ?_⟩, ?_⟩
            · intro e he; simp only [List.mem_singleton] at he; subst he
              cases r0.listener <;> rfl
            · intro r hr hne
              simp only [emit, setReady]
              exact List.mem_map.mpr ⟨r, hr, by simp [hne]⟩
          | incomplete =>
            simp only [Option.some.injEq] at hs; subst hs
            exact ⟨fun x _ => Iff.rfl, ⟨[], by simp, by simp⟩, fun r hr _ => hr⟩
          | disconnected =>
            simp only [Option.some.injEq] at hs; subst hs
            obtain ⟨d1, d2, d3, d4, d5, d6, d7⟩ := deregister_live s id0 .procPending
            cases hl : r0.listener with
            | none =>
              simp only [hl]
              refine ⟨fun x hx => by simpa [emit] using dl .procPending x hx, ⟨[.connected id0 false], by simp [emit, d3], ?_⟩, ?_⟩
              · intro e he; simp only [List.mem_singleton] at he; subst he; rfl
              · intro r hr _; simpa [emit, d2] using hr
            | some l =>
              simp only [hl]
              exact ⟨fun x hx => by simpa using dl .procPending x hx, ⟨[], by simp [d3], by simp⟩,
                fun r hr _ => by simpa [d2] using hr⟩
      · simp at hs
    · simp at hs
  | checkReady =>
    simp only [step] at hs
    split at hs
    · split at hs
      · split at hs
        · simp only [Option.some.injEq] at hs; subst hs
          exact ⟨fun x _ => Iff.rfl, ⟨[], by simp, by simp⟩, fun r hr _ => hr⟩
        · simp at hs
      · simp at hs
    · simp at hs
  | beginReceive n disc =>
    simp only [step] at hs
    split at hs
    · split at hs
      · split at hs
        · split at hs <;> (simp only [Option.some.injEq] at hs; subst hs
                           exact ⟨fun x _ => Iff.rfl, ⟨[], by simp, by simp⟩, fun r hr _ => hr⟩)
        · split at hs
          · simp only [Option.some.injEq] at hs; subst hs
            exact ⟨fun x _ => Iff.rfl, ⟨[], by simp, by simp⟩, fun r hr _ => hr⟩
          · simp at hs
      · simp at hs
    · simp at hs
  | deliver =>
    simp only [step] at hs
    split at hs
    · rename_i id0 left disc hproc
      have hid : id0 = id := by simpa [procHolds, hproc] using hp
      subst hid
      simp only [Option.some.injEq] at hs; subst hs
      exact ⟨fun x _ => Iff.rfl, ⟨[.message id0], rfl, by intro e he; simp only [List.mem_singleton] at he; subst he; rfl⟩,
        fun r hr _ => hr⟩
    · simp at hs
  | endReceive =>
    simp only [step] at hs
    split at hs
    · simp only [Option.some.injEq] at hs; subst hs
      exact ⟨fun x _ => Iff.rfl, ⟨[], by simp, by simp⟩, fun r hr _ => hr⟩
    · simp at hs
  | finish =>
    simp only [step] at hs
    split at hs
    · rename_i id0 disc hproc
      have hid : id0 = id := by simpa [procHolds, hproc] using hp
      subst hid
      split at hs
      · obtain ⟨d1, d2, d3, d4, d5, d6, d7⟩ := deregister_live s id0 .procRead
        by_cases hok : (deregister s id0 Who.procRead).1 = true
        · simp only [hok, if_true, Option.some.injEq] at hs; subst hs
          refine ⟨fun x hx => by simpa [emit] using dl .procRead x hx, ⟨[.disconnected id0], by simp [emit, d3], ?_⟩, ?_⟩
          · intro e he; simp only [List.mem_singleton] at he; subst he; rfl
          · intro r hr _; simpa [emit, d2] using hr
        · simp only [hok, Bool.false_eq_true, if_false, Option.some.injEq] at hs; subst hs
          exact ⟨fun x hx => by simpa using dl .procRead x hx, ⟨[], by simp [d3], by simp⟩,
            fun r hr _ => by simpa [d2] using hr⟩
      · simp only [Option.some.injEq] at hs; subst hs
        exact ⟨fun x _ => Iff.rfl, ⟨[], by simp, by simp⟩, fun r hr _ => hr⟩
    · simp at hs
  | _ => simp [isProcAct] at ha

/-- a failed inbound handshake produces no event at all, and a failed outbound one only
`Connected(.., false)` (C03): no event ever names a connection that was never established -/
theorem failed_handshake_isolated (s : St) (h : Net.Reachable s) (r : Reg) (hr : r ∈ s.regs)
    (hacc : r.listener ≠ none) (hnr : r.ready = false) : proj r.id s.log = [] :=
  C03.failed_inbound_silent s h r hr hacc hnr

/-! ## The WebSocket handshake state machine (M2w)

A hostile or broken peer decides what each handshake step answers.  Whatever it answers, `pending()`
puts a proper state back (never the moved-from placeholder), does not panic while the handshake is in
progress, reports `Ready` exactly when the connection became a WebSocket, and after `Disconnected` the
driver never calls into the resource again (`failed_handshake_isolated` and M5: the resource is
deregistered in the same step), so the `unreachable!()` arms stay unreachable. -/

/-- no step of a handshake in progress panics, for every legal answer -/
theorem ws_pending_total (p : Mio.WsHs.Phase) (a : Mio.WsHs.HsAns) (hl : Mio.WsHs.LegalAns p a) :
    (Mio.WsHs.pending (.handshake (some p)) a).isSome = true := by
  cases p <;> cases a <;> simp [Mio.WsHs.pending, Mio.WsHs.LegalAns] at hl ⊢

/-- the state put back is never the placeholder `Handshake(None)` -/
theorem ws_pending_restores_state (s s' : Mio.WsHs.St) (a : Mio.WsHs.HsAns) (st : Mio.WsHs.Pending)
    (h : Mio.WsHs.pending s a = some (s', st)) : s' ≠ .handshake none := by
  cases s with
  | webSocket => simp [Mio.WsHs.pending] at h; obtain ⟨h1, _⟩ := h; subst h1; simp
  | error => simp [Mio.WsHs.pending] at h
  | handshake p =>
    cases p with
    | none => simp [Mio.WsHs.pending] at h
    | some p =>
      cases p <;> cases a <;> simp [Mio.WsHs.pending] at h <;>
        (obtain ⟨h1, _⟩ := h; subst h1; simp)

/-- `Ready` is answered exactly when the resource is an established WebSocket afterwards, so the
`receive` / `send` that follow an `Accepted` / `Connected(true)` event never hit their `unreachable!()` -/
theorem ws_ready_iff_websocket (p : Mio.WsHs.Phase) (a : Mio.WsHs.HsAns) (s' : Mio.WsHs.St) (st : Mio.WsHs.Pending)
    (h : Mio.WsHs.pending (.handshake (some p)) a = some (s', st)) :
    (st = .ready ↔ s' = .webSocket) ∧ (st = .ready → Mio.WsHs.usable s' = some ()) := by
  cases p <;> cases a <;> simp [Mio.WsHs.pending] at h <;>
    (obtain ⟨h1, h2⟩ := h; subst h1; subst h2; simp [Mio.WsHs.usable])

/-- a failed handshake answers `Disconnected` (the driver then forgets the resource) and an interrupted
one stays in a handshake phase of its own side: client phases never become server phases -/
theorem ws_failure_disconnects (p : Mio.WsHs.Phase) :
    Mio.WsHs.pending (.handshake (some p)) .failure = some (.error, .disconnected) := by
  cases p <;> rfl

theorem ws_incomplete_keeps_side (p : Mio.WsHs.Phase) (a : Mio.WsHs.HsAns) (s' : Mio.WsHs.St)
    (h : Mio.WsHs.pending (.handshake (some p)) a = some (s', .incomplete)) :
    ((p = .connect ∨ p = .client) → s' = .handshake (some .connect) ∨ s' = .handshake (some .client)) ∧
    ((p = .accept ∨ p = .server) → s' = .handshake (some .server)) := by
  cases p <;> cases a <;> simp [Mio.WsHs.pending] at h <;> (subst h; simp)

end Mio.C17
