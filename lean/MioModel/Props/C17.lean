import MioModel.Lemmas.Decoder
/-! # C17 — A misbehaving peer cannot crash, wedge or confuse the node (decoder part)

The FramedTcp receive path hands every byte a peer writes, in whatever chunking the kernel
produces, to `Decoder::decode`.  These theorems quantify over *arbitrary* byte strings. -/
namespace Mio.C17
open Mio Mio.Generated

/-- No byte sequence, in any chunking, makes the decoder panic: every checked subtraction in
`store_and_decoded_data` is safe on every reachable decoder state. -/
theorem feed_total (chunks : List Bytes) : feed [] chunks ≠ none := by
  obtain ⟨r, hr⟩ := feed_total_gen chunks [] DecInv_nil
  rw [hr]; simp

/-- One more call on any reachable decoder state never panics (the invariant is inductive, so the
statement holds after any history, not only from the empty decoder). -/
theorem decode_total_reachable (history : List Bytes) (st : Bytes) (outs : List Bytes)
    (h : feed [] history = some (st, outs)) (data : Bytes) : decode st data ≠ none := by
  have hinv : DecInv st := by
    have aux : ∀ (cs : List Bytes) (s : Bytes), DecInv s → ∀ s' o, feed s cs = some (s', o) → DecInv s' := by
      intro cs
      induction cs with
      | nil => intro s hs s' o h; simp [feed] at h; rw [← h.1]; exact hs
      | cons c cs ih =>
        intro s hs s' o h
        obtain ⟨s1, o1, hd, hi⟩ := decode_total s c hs
        simp only [feed, hd] at h
        split at h
        · simp at h
        · rename_i s2 o2 hf
          simp only [Option.some.injEq, Prod.mk.injEq] at h
          rw [← h.1]; exact ih s1 hi s2 o2 hf
    exact aux history [] DecInv_nil st outs h
  obtain ⟨s', o, hd, _⟩ := decode_total st data hinv
  rw [hd]; simp

/-- An over-long size prefix (ten or more buffered bytes that still do not decode) stops the buffer
growing: further data is dropped, nothing is delivered, memory stays bounded. -/
theorem garbage_prefix_bounded (st data : Bytes) (hnone : decodeVar st = none)
    (hlen : maxEncodedSize ≤ st.length) : decode st data = some (st, []) := by
  have hne : st ≠ [] := by
    intro h; subst h; simp [maxEncodedSize] at hlen
  unfold decode storeAndDecoded
  rw [if_neg hne, hnone]
  have hk : min (maxEncodedSize - st.length) (sizeEnd data) = 0 := by omega
  simp only [hk, List.take_zero, List.append_nil, hnone]

/-- What a decoder that refuses a prefix has seen: only continuation bytes among the first ten. -/
theorem undecodable_is_all_continuation (st : Bytes) (h : decodeVar st = none) :
    ∀ b ∈ st.take 10, 128 ≤ b.toNat := decodeVar_none_struct st h

/-! Non-vacuity / regression witnesses: the two inputs that panicked the decoder as found
(`MioModel/AsFound/Decoder.lean`) are handled by the current model. -/
example : feed [] [[0x80], [0x00, 1, 2, 3]] = some ([3], [[], [2]]) := by decide
example : feed [] [List.replicate 11 0xff, [1]] = some (List.replicate 11 0xff, []) := by decide
example : decodeVar (List.replicate 11 0xff) = none ∧ maxEncodedSize ≤ (List.replicate 11 (0xff : UInt8)).length := by
  decide

end Mio.C17
