import MioModel.Lemmas.SendLoop
import MioModel.Lemmas.Stream
import MioModel.Props.C12
/-! # C10 — Concurrent send() calls on one endpoint never corrupt or lose messages

`send` on a FramedTcp endpoint holds the connection's send lock for the whole frame (framed_tcp.rs),
`send` on a WebSocket endpoint holds the state mutex for the whole message (ws.rs), a UDP send is one
system call: in each case a send is one critical *section*, and any execution of any number of
threads is a sequence of sections (the lock order). -/
namespace Mio.C10
open Mio Mio.Stream Mio.Generated

/-- the wire is the concatenation of whole frames in lock order: no frame is ever interleaved with
bytes of another one, whatever the partial-write pattern inside each section -/
theorem framed_concurrent_wire (ss : List Section)
    (hs : ∀ s ∈ ss, (framedSend s.data s.sched).status = some .sent) :
    sectionsWire ss = frames (ss.map (·.data)) := by
  unfold sectionsWire
  induction ss with
  | nil => rfl
  | cons s rest ih =>
    simp only [List.map_cons, List.flatten_cons, frames]
    have h1 := framedSendLoop_wire (encodeVar s.data.length) s.data s.sched 0 (Nat.zero_le _)
    have h2 : (framedSend s.data s.sched).wire = frame s.data := by
      have := h1.2 (by simpa [framedSend] using hs s (by simp))
      simpa [framedSend, frame] using this
    rw [h2]
    have := ih (fun x hx => hs x (by simp [hx]))
    simp only [frames] at this
    rw [this]

/-- so the receiver reports exactly the sent messages, each once and whole, in lock order, for
every segmentation and read pattern -/
theorem framed_concurrent_whole (ss : List Section)
    (hs : ∀ s ∈ ss, (framedSend s.data s.sched).status = some .sent)
    (hlen : ∀ s ∈ ss, s.data.length < 2 ^ 64) (chunks : List Bytes)
    (hc : chunks.flatten = sectionsWire ss) : feed [] chunks = some ([], ss.map (·.data)) := by
  apply feed_chunking_independent
  · intro m hm
    obtain ⟨s, hs1, rfl⟩ := List.mem_map.mp hm
    exact hlen s hs1
  · rw [hc, framed_concurrent_wire ss hs]

/-- messages sent by one thread arrive in that thread's order: the received sequence restricted to a
thread is the sequence of that thread's sections -/
theorem per_thread_order (ss : List Section) (t : Nat) :
    ((ss.map fun s => (s.thread, s.data)).filter (fun p => p.1 == t)).map (·.2) =
      (ss.filter (fun s => s.thread == t)).map (·.data) := by
  induction ss with
  | nil => rfl
  | cons s rest ih =>
    simp only [List.map_cons, List.filter_cons]
    by_cases h : s.thread == t <;> simp [h, ih]

/-- WebSocket: a send is atomic, so the messages on the wire are whole and in lock order -/
theorem ws_concurrent_whole (sends : List (Nat × Bytes))
    (hs : ∀ s ∈ sends, s.2.length ≤ wsMaxPayloadLen) :
    (sends.map fun s => (wsSend s.2 true).2).flatten = sends.map (·.2) := by
  induction sends with
  | nil => rfl
  | cons s rest ih =>
    have h : ¬ (s.2.length > wsMaxPayloadLen) := by have := hs s (by simp); omega
    have hw : wsSend s.2 true = (.sent, [s.2]) := by simp [wsSend, h]
    simp only [List.map_cons, List.flatten_cons, hw]
    rw [ih (fun x hx => hs x (by simp [hx]))]
    rfl

/-! Non-vacuity: two threads, partial writes inside both sections. -/
example : sectionsWire [⟨0, [1, 2, 3], [.accept 1, .wouldBlock, .accept 2, .accept 9]⟩,
    ⟨1, [9], [.accept 2, .accept 1]⟩] = [3, 1, 2, 3, 1, 9] := by
  have h3 : encodeVar 3 = [3] := by rw [encodeVar]; simp
  have h1 : encodeVar 1 = [1] := by rw [encodeVar]; simp
  simp [sectionsWire, framedSend, framedSendLoop, h3, h1]

/-! ## Udp: one datagram per call

In M8 a `send` is one step (one `send`/`send_to` system call hands the kernel one whole datagram), so an
execution with any number of sending threads is a sequence of such steps in some interleaving, and
`Mio.C12.delivered_exactly_once` already speaks about every such sequence: each datagram whole, once.
What remains is the order per sending socket. -/

/-- the datagrams a receiver gets from one sender are that sender's datagrams in the order of its
send calls, whatever other senders did in between -/
theorem udp_concurrent_whole (w : Mio.Udp.World) (h : Mio.Udp.Reachable w) (j a : Nat) (s : Mio.Udp.Sock)
    (hj : w.socks[j]? = some s) :
    (s.events.map Mio.Udp.evDgram ++ s.queue.map (Mio.Udp.cutK s.kind)).filter (fun d => d.src = a) =
      ((Mio.Udp.expected w.log j s.kind).filter (fun d => d.src = a)).map (Mio.Udp.cutK s.kind) := by
  rw [Mio.C12.delivered_exactly_once w h j s hj, List.filter_map]
  congr 1
  apply List.filter_congr
  intro d _
  simp [Function.comp, Mio.Udp.cutK_src]

/-- a section is never abandoned half-way: inside the lock the FramedTcp send loop ignores `WouldBlock`
answers (any number) and returns before the whole frame is written only on a kernel error — so a stalled
receiver delays the other senders, it never makes one of them leave a torn frame on the wire -/
theorem framedSend_never_gives_up (data : Bytes) (sched : List WAns) :
    framedSend data (sched.filter (fun a => a != .wouldBlock)) = framedSend data sched ∧
    ((∀ a ∈ sched, a ≠ WAns.error) →
      (framedSend data sched).status = none ∨ (framedSend data sched).status = some .sent) :=
  ⟨framedSendLoop_wouldBlock_transparent _ data sched 0, framedSendLoop_no_error _ data sched 0⟩

end Mio.C10
