import MioModel.Lemmas.Stream
/-! # C01 — Packet transports deliver every message intact, in order, exactly once

FramedTcp: the send loop (prefix/payload switch), the receive loop, the decoder (C02), over any number
of poll events.  WebSocket: the adapter's loop around an ideal message codec with read-ahead
(tungstenite is an assumption, DESIGN §5). -/
namespace Mio.C01
open Mio Mio.Stream Mio.Generated

/-- `send` returning `Sent` put exactly one frame — canonical prefix, then the payload — on the
wire, for every pattern of partial writes and `WouldBlock`s (the prefix/payload switch driven by
`total_bytes_sent` never skips or repeats a byte); whatever the outcome, what was written is a
prefix of that frame. -/
theorem framedSend_wire (data : Bytes) (sched : List WAns) :
    (framedSend data sched).wire <+: frame data ∧
    ((framedSend data sched).status = some .sent → (framedSend data sched).wire = frame data) := by
  have := framedSendLoop_wire (encodeVar data.length) data sched 0 (Nat.zero_le _)
  simpa [framedSend, frame] using this

/-- a sequence of successful sends puts the concatenation of the frames on the wire -/
theorem framed_sends_wire (sends : List (Bytes × List WAns))
    (hs : ∀ s ∈ sends, (framedSend s.1 s.2).status = some .sent) :
    (sends.map fun s => (framedSend s.1 s.2).wire).flatten = frames (sends.map (·.1)) := by
  induction sends with
  | nil => rfl
  | cons s ss ih =>
    simp only [List.map_cons, List.flatten_cons, frames]
    rw [(framedSend_wire s.1 s.2).2 (hs s (by simp))]
    have := ih (fun x hx => hs x (by simp [hx]))
    simp only [frames] at this
    rw [this]

/-- an edge-triggered read event is never left half-consumed -/
theorem framedReceive_drains (dec rx : Bytes) (fin : Bool) (sched : List RAns)
    (hl : LegalR tcpInputBufferSize rx fin sched)
    (h : (framedReceive dec rx sched).status = some .waitNextEvent) : (framedReceive dec rx sched).rx = [] :=
  recv_drains _ _ sched dec rx fin hl h

/-- End to end.  For every message list (lengths below 2^64), if the bytes that arrive over any
number of poll events — in whatever segmentation — are the frames of those messages, every read
schedule is legal and the connection stays up, then the `Message` callbacks are exactly the
messages, in order, one each; the decoder holds nothing, nothing readable is left, and nothing
panicked. -/
theorem framed_end_to_end (ms : List Bytes) (hms : ∀ m ∈ ms, m.length < 2 ^ 64) (evs : List PollEv)
    (harr : (evs.map (·.arrived)).flatten = frames ms)
    (hl : LegalSession tcpInputBufferSize (fun st ch => decode st ch) { st := [] } evs) :
    let f := session tcpInputBufferSize (fun st ch => decode st ch) { st := [] } evs
    f.outs = ms ∧ f.st = [] ∧ f.rx = [] ∧ f.panicked = false := by
  obtain ⟨h1, h2, chunks, outs, h3, h4, h5⟩ :=
    framed_session tcpInputBufferSize evs { st := [] } hl DecInv_nil rfl
  have hfeed := feed_chunking_independent ms hms chunks (by rw [h3, harr])
  simp only at h5
  rw [hfeed] at h5
  simp only [Option.some.injEq, Prod.mk.injEq] at h5
  refine ⟨?_, h5.1.symm, h1, h2⟩
  rw [h4, ← h5.2]; simp

/-- sender and receiver together: whatever the partial-write pattern of each `send` that returned
`Sent` and whatever the segmentation and read pattern on the other side, the receiver observes the
payloads passed to `send`, same bytes, same boundaries, same order. -/
theorem framed_send_receive (sends : List (Bytes × List WAns))
    (hs : ∀ s ∈ sends, (framedSend s.1 s.2).status = some .sent)
    (hlen : ∀ s ∈ sends, s.1.length < 2 ^ 64) (evs : List PollEv)
    (harr : (evs.map (·.arrived)).flatten = (sends.map fun s => (framedSend s.1 s.2).wire).flatten)
    (hl : LegalSession tcpInputBufferSize (fun st ch => decode st ch) { st := [] } evs) :
    (session tcpInputBufferSize (fun st ch => decode st ch) { st := [] } evs).outs = sends.map (·.1) := by
  have h := framed_end_to_end (sends.map (·.1))
    (by intro m hm; obtain ⟨s, hs1, rfl⟩ := List.mem_map.mp hm; exact hlen s hs1) evs
    (by rw [harr, framed_sends_wire sends hs]) hl
  exact h.1

/-! ## WebSocket -/

/-- the receive loop loses, duplicates and reorders nothing, for every schedule -/
theorem ws_no_loss (c : WsConn) (sched : List WsAns) (fuel : Nat) :
    (wsReceive c sched fuel).outs ++ binaries ((wsReceive c sched fuel).conn.buf ++ (wsReceive c sched fuel).conn.sock)
      = binaries (c.buf ++ c.sock) := wsReceive_order fuel c sched

/-- `WaitNextEvent` means nothing deliverable is left — neither on the socket nor in the codec's
read-ahead buffer — so no message waits for traffic that may never come. -/
theorem wsReceive_drains (c : WsConn) (sched : List WsAns) (fuel : Nat)
    (hl : LegalWs { c with buf := [] } sched)
    (h : (wsReceive c sched fuel).status = some .waitNextEvent) :
    (wsReceive c sched fuel).conn.sock = [] ∧ (wsReceive c sched fuel).conn.buf = [] :=
  Stream.wsReceive_drains fuel c sched hl h

/-- hence every event that ends with `WaitNextEvent` has delivered everything that had arrived -/
theorem ws_event_delivers_all (arrived : List WsMsg) (sched : List WsAns) (fuel : Nat)
    (hl : LegalWs { sock := arrived, buf := [] } sched)
    (h : (wsReceive { sock := arrived, buf := [] } sched fuel).status = some .waitNextEvent) :
    (wsReceive { sock := arrived, buf := [] } sched fuel).outs = binaries arrived := by
  have h1 := ws_no_loss { sock := arrived, buf := [] } sched fuel
  obtain ⟨h2, h3⟩ := wsReceive_drains { sock := arrived, buf := [] } sched fuel hl h
  rw [h2, h3] at h1
  simpa [binaries] using h1

/-- in particular a Binary message that arrives in the same read as a Ping, Pong or Text message in
front of it is delivered by that very event: control messages do not end the loop -/
theorem ws_control_frames_do_not_stall (data : Bytes) (pre : List WsMsg) (sched : List WsAns) (fuel : Nat)
    (hl : LegalWs { sock := pre ++ [some data], buf := [] } sched)
    (h : (wsReceive { sock := pre ++ [some data], buf := [] } sched fuel).status = some .waitNextEvent) :
    data ∈ (wsReceive { sock := pre ++ [some data], buf := [] } sched fuel).outs := by
  rw [ws_event_delivers_all _ sched fuel hl h]
  simp [binaries]

/-- `send`: `Sent` means exactly one message was handed to the transport and it was within the
declared maximum; a payload above the maximum transmits nothing. -/
theorem wsSend_one_message (data : Bytes) (flushOk : Bool) :
    ((wsSend data flushOk).1 = .sent → (wsSend data flushOk).2 = [data] ∧ data.length ≤ wsMaxPayloadLen) ∧
    (data.length > wsMaxPayloadLen ↔ (wsSend data flushOk).1 = .maxPacketSizeExceeded) ∧
    ((wsSend data flushOk).1 ≠ .sent → (wsSend data flushOk).2 = []) := by
  unfold wsSend
  by_cases h : data.length > wsMaxPayloadLen
  · simp [h]
  · cases flushOk <;> simp [h] <;> omega

/-! Non-vacuity: three messages of lengths 0, 127, 128 written as one burst, the 128-byte message's
two-byte prefix `80 01` cut between two poll events, the first event read one byte at a time at the end. -/
def exMs : List Bytes := [[], List.replicate 127 7, List.replicate 128 9]
def exEvs : List PollEv :=
  [{ arrived := [0x00, 0x7f] ++ List.replicate 127 7 ++ [0x80],
     sched := [.take 1, .take 127, .interrupted, .take 1, .take 1, .wouldBlock] },
   { arrived := [0x01] ++ List.replicate 128 9, sched := [.take 200, .wouldBlock] }]
example : (session tcpInputBufferSize (fun st ch => decode st ch) { st := [] } exEvs).outs = exMs := by
  decide +kernel
/-- three WebSocket messages read ahead by the codec in one socket access: all three are delivered
by the same event (the as-found loop stopped after the first: `MioModel/AsFound/Stream.lean`) -/
example : (wsReceive { sock := [some [1], none, some [2], some [3]], buf := [] } [.fill 4, .wouldBlock] 10).outs = [[1], [2], [3]] := by
  decide

end Mio.C01
