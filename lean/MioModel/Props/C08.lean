import MioModel.Lemmas.EventQueueConc
/-! # C08 — Timers never fire early; cancellation is exact -/
namespace Mio.C08
open Mio.EvQ
variable {E : Type}

/-- A timed event is returned only at a time at or after (clock at the scheduling call) + (requested
duration): for every schedule of senders, ticks and receiver steps, whichever receive call is used. -/
theorem never_early (s : St E) (h : Reachable s) :
    ∀ r ∈ timerOuts s.returned, ∃ c ∈ s.created, c.key = r.1 ∧ c.ev = r.2.1 ∧ c.at_ + c.dur ≤ r.2.2 := by
  have hi := (reachable_tinv s h).1
  intro r hr
  obtain ⟨⟨c, hc1, hc2, hc3⟩, h2, _⟩ := hi.retsub r hr
  refine ⟨c, hc1, hc2, hc3, ?_⟩
  have := (hi.dl c hc1).1
  rw [hc2] at this; omega

/-- Cancelling a timer at a time strictly before its deadline guarantees it is never returned —
now or in any continuation of the schedule (the statement is about every reachable state). -/
theorem cancel_exact (s : St E) (h : Reachable s) :
    ∀ x ∈ s.cancelled, x.2 < x.1.deadline → x.1 ∉ retKeys s :=
  (reachable_tinv s h).1.cexact

/-- Once a cancel request is enqueued the timer is no longer pending, whenever it was issued. -/
theorem cancelled_not_pending (s : St E) (h : Reachable s) :
    ∀ x ∈ s.cancelled, x.1 ∉ keysOf (live s.q) :=
  fun x hx => ((reachable_tinv s h).1.canc x hx).1

/-- A cancel request touches exactly the timer it names: every other pending timer, including one
on the same instant, stays pending with the same key and event. -/
theorem cancel_isolated (q : Q E) (k : Key) (p : Key × E) (hne : p.1 ≠ k) :
    p ∈ live (cancelTimer q k) ↔ p ∈ live q := by
  rw [live_cancel, mem_remove]
  exact ⟨fun h => h.1, fun h => ⟨h, hne⟩⟩

/-- Two timers on the same instant have different keys, so `cancel_isolated` applies to them. -/
theorem same_instant_distinct (s : St E) (h : Reachable s) :
    List.Pairwise (fun a b => a.key ≠ b.key) s.created := by
  have := (reachable_seqinv s h).1
  refine List.Pairwise.imp ?_ this
  intro a b hab heq
  rw [heq] at hab; omega

/-- Scheduling another timer never disturbs a pending one (no overwrite). -/
theorem schedule_isolated (s : St E) (h : Reachable s) (dur : Nat) (e : E) (p : Key × E)
    (hp : p ∈ live s.q) : p ∈ live (sendTimer s.q s.now dur e).2 := by
  have hi := (reachable_tinv s h).1
  rw [live_sendTimer]
  apply mem_insert_of_ne _ _ _ _ hp
  obtain ⟨c, hc1, hc2, _⟩ := hi.sub p hp
  intro heq
  have := hi.seq c hc1
  rw [hc2, heq] at this
  simp [sendTimer] at this

/-! Non-vacuity: a timer cancelled while the receiver is blocked on it is not delivered; its twin on
the same instant is. -/
example : ∃ s : St Nat, run {} [.sendTimer 10 1, .sendTimer 10 2, .call .recvTimeout 50, .readClock, .foldPick,
    .tick 3, .cancel ⟨10, 0⟩, .wake .cmd, .readClock, .foldPick, .tick 7, .wake .timer, .readClock, .foldPick]
    = some s ∧ retKeys s = [⟨10, 1⟩] ∧ s.cancelled = [(⟨10, 0⟩, 3)] := ⟨_, rfl, by decide, by decide⟩

end Mio.C08
