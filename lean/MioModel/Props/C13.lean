import MioModel.Lemmas.SendLoop
import MioModel.Lemmas.Net
import MioModel.Props.C12
import MioModel.Lemmas.Stream
/-! # C13 — send() status is truthful and size limits match max_message_size() -/
namespace Mio.C13
open Mio Mio.Net Mio.Generated

/-- The status table of `send` (driver.rs:173-187): `ResourceNotFound` iff the endpoint is not in its
registry; `ResourceNotAvailable` iff it is registered and not ready, and then the adapter's `send` is
*not* invoked (nothing is transmitted); otherwise the adapter's own status. -/
theorem send_status_table (s s' : St) (id : Nat) (a : Status) (hf : Fresh s)
    (hs : step s (.send id a) = some s') :
    (id ∉ s.live → s'.results.getLast? = some ("send", id, "ResourceNotFound") ∧ s'.adapterSends = s.adapterSends) ∧
    (∀ r ∈ s.regs, r.id = id → id ∈ s.live → r.ready = false →
      s'.results.getLast? = some ("send", id, "ResourceNotAvailable") ∧ s'.adapterSends = s.adapterSends) ∧
    (∀ r ∈ s.regs, r.id = id → id ∈ s.live → r.ready = true →
      s'.results.getLast? = some ("send", id, showStatus a) ∧ s'.adapterSends = s.adapterSends ++ [id]) := by
  refine ⟨?_, ?_, ?_⟩
  · intro hnl
    have hlive : isLive s id = false := by simpa [isLive] using hnl
    simp only [step, hlive, Bool.false_eq_true, if_false, Option.some.injEq] at hs; subst hs
    simp [record, showStatus]
  · intro r hr hrid hl hnr
    have hlive : isLive s id = true := by simpa [isLive] using hl
    have hfind : findReg s id = some r := hrid ▸ findReg_unique s hf r hr
    simp only [step, hlive, if_true, hfind, hnr, Bool.false_eq_true, if_false, Option.some.injEq] at hs; subst hs
    simp [record, showStatus]
  · intro r hr hrid hl hrd
    have hlive : isLive s id = true := by simpa [isLive] using hl
    have hfind : findReg s id = some r := hrid ▸ findReg_unique s hf r hr
    simp only [step, hlive, if_true, hfind, hrd, Option.some.injEq] at hs; subst hs
    simp [record]

/-- the log of events is never touched by `send`: a rejected or failed send leaves the connection as
it was -/
theorem send_leaves_connection (s s' : St) (id : Nat) (a : Status) (hs : step s (.send id a) = some s') :
    s'.live = s.live ∧ s'.regs = s.regs ∧ s'.log = s.log ∧ s'.proc = s.proc := by
  simp only [step] at hs
  split at hs
  · split at hs
    · split at hs <;> (simp only [Option.some.injEq] at hs; subst hs; simp [record])
    · simp only [Option.some.injEq] at hs; subst hs; simp [record]
  · simp only [Option.some.injEq] at hs; subst hs; simp [record]

/-- WebSocket size limit: `MaxPacketSizeExceeded` exactly when the payload is larger than the declared
maximum (`Transport::Ws.max_message_size()`, regenerated), and then nothing is transmitted -/
theorem ws_size_limit_exact (data : Bytes) (flushOk : Bool) :
    (wsMaxPayloadLen < data.length ↔ (Stream.wsSend data flushOk).1 = .maxPacketSizeExceeded) ∧
    ((Stream.wsSend data flushOk).1 = .maxPacketSizeExceeded → (Stream.wsSend data flushOk).2 = []) ∧
    (data.length ≤ wsMaxPayloadLen → flushOk = true → Stream.wsSend data flushOk = (.sent, [data])) := by
  unfold Stream.wsSend
  by_cases h : data.length > wsMaxPayloadLen
  · simp [h]; omega
  · cases flushOk <;> simp [h] <;> omega

/-- the declared maxima agree with the adapters' own limits (regenerated table): Ws is the
WebSocket limit, Udp the local payload maximum, the stream transports are unbounded -/
theorem declared_maxima :
    (transports.find? (·.name = "Ws")).map (·.maxMessageSize) = some wsMaxPayloadLen ∧
    (transports.find? (·.name = "Udp")).map (·.maxMessageSize) = some udpMaxLocalPayloadLen ∧
    (transports.find? (·.name = "Tcp")).map (·.maxMessageSize) = some (2 ^ 64 - 1) ∧
    (transports.find? (·.name = "FramedTcp")).map (·.maxMessageSize) = some (2 ^ 64 - 1) := by
  decide +kernel

/-- UDP `send_packet` (udp.rs): the size test happens before the socket is touched -/
def udpSend (len : Nat) (osOk : Bool) : Status × Nat :=
  if len > udpMaxLocalPayloadLen then (.maxPacketSizeExceeded, 0)
  else if osOk then (.sent, 1) else (.resourceNotFound, 0)

theorem udp_size_limit_exact (len : Nat) (osOk : Bool) :
    (udpMaxLocalPayloadLen < len ↔ (udpSend len osOk).1 = .maxPacketSizeExceeded) ∧
    ((udpSend len osOk).1 ≠ .sent → (udpSend len osOk).2 = 0) ∧
    (len ≤ udpMaxLocalPayloadLen → osOk = true → udpSend len osOk = (.sent, 1)) := by
  unfold udpSend
  by_cases h : len > udpMaxLocalPayloadLen
  · simp [h]; omega
  · cases osOk <;> simp [h] <;> omega

/-- the same on the full UDP model M8, for both address families (the kernel's own limit is 65507 over
IPv4 but 65527 over IPv6: only the adapter's check makes the limit the declared one there) -/
theorem udp_size_limit_exact_m8 (w : Mio.Udp.World) (h : Mio.Udp.Reachable w) (ep : Mio.Udp.Endpoint)
    (s : Mio.Udp.Sock) (data : Bytes) (hs : w.socks[ep.rid]? = some s) (hk : s.kind ≠ .raw) :
    ((Mio.Udp.send w ep data).2 = .maxPacketSizeExceeded ↔ data.length > udpMaxLocalPayloadLen) ∧
    ((Mio.Udp.send w ep data).2 = .sent ↔
      data.length ≤ udpMaxLocalPayloadLen ∧ ¬ ((∃ p, s.kind = .connected p) ∧ s.err = true)) ∧
    (data.length > udpMaxLocalPayloadLen → (Mio.Udp.send w ep data).1.socks = w.socks) :=
  Mio.C12.size_status w (Mio.C12.kernel_admits_declared_maximum w h) ep s data hs hk

/-- `Sent` is truthful on the one path where the kernel refuses a datagram it was handed: a connected
socket with a pending ICMP error answers `ResourceNotFound` and nothing is transmitted -/
theorem udp_refused_is_not_sent (w : Mio.Udp.World) (h : Mio.Udp.Reachable w) (ep : Mio.Udp.Endpoint)
    (s : Mio.Udp.Sock) (p : Nat) (data : Bytes) (hs : w.socks[ep.rid]? = some s) (hk : s.kind = .connected p)
    (he : s.err = true) (hl : data.length ≤ udpMaxLocalPayloadLen) :
    (Mio.Udp.send w ep data).2 = .resourceNotFound ∧
    ∀ j : Nat, ((Mio.Udp.send w ep data).1.socks[j]?).map Mio.Udp.Sock.queue = (w.socks[j]?).map Mio.Udp.Sock.queue :=
  Mio.C12.refused_send_transmits_nothing w ep s p data hs hk he
    (Nat.le_trans hl (Mio.C12.kernel_admits_declared_maximum w h)) hl

/-! Non-vacuity: a send to a pending connection, then to the established one, then after removal. -/
example : ∃ s, run {} [.connect 1, .send 0 .sent, .pollRemote 0 false, .pending .ready, .beginReceive 0 false,
    .send 0 .sent, .remove 0, .send 0 .sent] = some s ∧
    s.results.map (·.2.2) = ["ok", "ResourceNotAvailable", "Sent", "true", "ResourceNotFound"] ∧
    s.adapterSends = [0] := ⟨_, rfl, by decide, by decide⟩

/-- the statuses the stream adapters' send loops can produce: `Sent` (everything written),
`ResourceNotFound` (the kernel reported an error) — never `ResourceNotAvailable`, never
`MaxPacketSizeExceeded`; `none` = the call has not returned yet -/
theorem stream_send_statuses (data : Mio.Bytes) (sched : List Mio.Stream.WAns) :
    ((Mio.Stream.tcpSend data sched).status = none ∨ (Mio.Stream.tcpSend data sched).status = some .sent ∨
      (Mio.Stream.tcpSend data sched).status = some .resourceNotFound) ∧
    ((Mio.Stream.framedSend data sched).status = none ∨ (Mio.Stream.framedSend data sched).status = some .sent ∨
      (Mio.Stream.framedSend data sched).status = some .resourceNotFound) :=
  ⟨Mio.Stream.tcpSendLoop_statuses data sched 0, Mio.Stream.framedSendLoop_statuses _ data sched 0⟩

end Mio.C13
