import MioModel.Lemmas.Udp
/-! # C12 — UDP datagrams are delivered unmodified and attributed to their sender

Model M8 (`MioModel/Udp.lean`).  Every theorem is about all worlds reachable by any sequence of socket
creations, library sends, foreign sends and readiness events, for every payload.  The kernel's
datagram service is the environment of the model (see the header of `Udp.lean`): what is proved is
that the library's side — size check, send path selection, receive loop, buffer size, event
construction — neither loses, merges, splits, cuts, duplicates, misattributes nor invents anything. -/
namespace Mio.C12
open Mio.Udp

/-- **Identity, exactly once, in order.**  For every socket, the datagrams reported so far (as
`(source address in the endpoint, payload)`) followed by those still queued are exactly the datagrams
that the history of send calls addressed to it — byte for byte, one event per datagram, in order, for
every payload size the send path admits (0 included). -/
theorem delivered_exactly_once_unmodified (w : World) (h : Reachable w) (j : Nat) (s : Sock)
    (hj : w.socks[j]? = some s) :
    s.events.map evDgram ++ s.queue = expected w.log j s.kind := by
  have hs := (reachable_inv w h).socks j s hj
  rw [hs.split, hs.exp]

/-- after a readiness event has been processed nothing is left behind: everything sent has been reported -/
theorem after_poll_everything_reported (w : World) (h : Reachable w) (j : Nat) (s : Sock)
    (hj : (poll w j).socks[j]? = some s) :
    s.events.map evDgram = expected w.log j s.kind ∧ s.queue = [] := by
  have hr : Reachable (poll w j) := by
    obtain ⟨acts, rfl⟩ := h
    exact ⟨acts ++ [.poll j], by simp [run, List.foldl_append, step]⟩
  have h1 := delivered_exactly_once_unmodified (poll w j) hr j s hj
  have hq : s.queue = [] := by
    unfold poll at hj
    simp only at hj
    rw [List.getElem?_modify] at hj
    cases hs0 : w.socks[j]? with
    | none => rw [hs0] at hj; simp at hj
    | some s0 =>
      rw [hs0] at hj
      simp only [Option.map_eq_map, Option.map_some, Option.some.injEq, if_true] at hj
      subst hj; rfl
  rw [hq, List.append_nil] at h1
  have hlog : (poll w j).log = w.log := rfl
  rw [hlog] at h1
  exact ⟨h1, hq⟩

/-- **Attribution.**  An event reported by resource `j` carries `j` as its resource id, and its endpoint
address is the address of a socket that exists and that made a successful send call to `j` with exactly
this payload. -/
theorem event_attributed_to_its_sender (w : World) (h : Reachable w) (j : Nat) (s : Sock)
    (hj : w.socks[j]? = some s) (e : Ev) (he : e ∈ s.events) :
    e.ep.rid = j ∧ e.ep.addr < w.socks.length ∧
    ∃ r ∈ w.log, r.dst = j ∧ r.src = e.ep.addr ∧ r.data = e.data ∧ r.status = .sent := by
  have hs := (reachable_inv w h).socks j s hj
  have hmem : evDgram e ∈ s.accepted := by
    rw [← hs.split]
    exact List.mem_append_left _ (List.mem_map_of_mem he)
  refine ⟨hs.rid e he, hs.srcs _ hmem, ?_⟩
  rw [hs.exp] at hmem
  unfold expected at hmem
  obtain ⟨r, hr, hre⟩ := List.mem_map.mp hmem
  have hf := List.mem_filter.mp hr
  refine ⟨r, hf.1, ?_⟩
  have hc := hf.2
  simp only [Bool.and_eq_true, decide_eq_true_eq] at hc
  have h1 : r.src = e.ep.addr := by have := congrArg Dgram.src hre; simpa [evDgram] using this
  have h2 : r.data = e.data := by have := congrArg Dgram.data hre; simpa [evDgram] using this
  exact ⟨hc.1.1.1, h1, h2, hc.1.1.2⟩

/-- a connected socket reports every datagram under its own endpoint `(id, peer address)` -/
theorem connected_reports_peer (w : World) (h : Reachable w) (j p : Nat) (s : Sock)
    (hj : w.socks[j]? = some s) (hk : s.kind = .connected p) (e : Ev) (he : e ∈ s.events) :
    e.ep = ⟨j, p⟩ := by
  have hs := (reachable_inv w h).socks j s hj
  have hmem : evDgram e ∈ s.accepted := by
    rw [← hs.split]
    exact List.mem_append_left _ (List.mem_map_of_mem he)
  have h1 := hs.peer p hk _ hmem
  have h2 := hs.rid e he
  cases e with
  | mk ep data => cases ep with
    | mk rid addr => simp only [evDgram] at h1 h2; subst h1; subst h2; rfl

/-- **Reply path.**  Sending from listener `j` to the address `a` (the endpoint reported in an event, or
one built with `from_listener`) hands the kernel a datagram from `j` for the socket bound at `a`: if
that socket takes datagrams from `j`, exactly this datagram is appended to its queue. -/
theorem reply_reaches_address (w : World) (j a : Nat) (s t : Sock) (data : Bytes)
    (hj : w.socks[j]? = some s) (hk : s.kind = .listener) (ha : w.socks[a]? = some t)
    (hacc : kAccepts t.kind j = true) (hlen : data.length ≤ maxLen) :
    (send w ⟨j, a⟩ data).2 = .sent ∧
    ∃ t', (send w ⟨j, a⟩ data).1.socks[a]? = some t' ∧ t'.kind = t.kind ∧
      t'.queue = t.queue ++ [⟨j, data⟩] ∧ t'.events = t.events := by
  have hk' : ¬ data.length > kMax := by have := maxLen_le; omega
  have hl : ¬ data.length > maxLen := by omega
  unfold send
  simp only [hj, hk, record, sendPacket, hl, if_false, kSend, hk']
  refine ⟨by trivial, ?_⟩
  rw [getElem?_enqueue]
  simp only [if_true, ha, Option.map_some, hacc]
  exact ⟨_, rfl, rfl, rfl, rfl⟩

/-- the endpoint of an event is a valid reply address: the sender's socket exists -/
theorem reported_endpoint_is_replyable (w : World) (h : Reachable w) (j : Nat) (s : Sock)
    (hj : w.socks[j]? = some s) (e : Ev) (he : e ∈ s.events) :
    ∃ t, w.socks[e.ep.addr]? = some t := by
  have := (event_attributed_to_its_sender w h j s hj e he).2.1
  exact ⟨w.socks[e.ep.addr], List.getElem?_eq_getElem this⟩

/-- `from_listener` yields exactly the endpoint the driver itself builds, and only for listeners -/
theorem from_listener_spec (w : World) (id addr : Nat) (ep : Endpoint) :
    fromListener w id addr = some ep ↔ (∃ s, w.socks[id]? = some s ∧ s.kind = .listener) ∧ ep = ⟨id, addr⟩ := by
  unfold fromListener
  cases hs : w.socks[id]? with
  | none => simp
  | some s =>
    by_cases hk : s.kind = .listener
    · simp [hk, eq_comm]
    · simp [hk]

/-- **Sizes.**  A send on a library socket is refused with `MaxPacketSizeExceeded` exactly above the
declared maximum, and then nothing is transmitted; at or below it (zero included) it is `Sent`. -/
theorem size_status (w : World) (ep : Endpoint) (s : Sock) (data : Bytes) (hs : w.socks[ep.rid]? = some s)
    (hk : s.kind ≠ .raw) :
    ((send w ep data).2 = .maxPacketSizeExceeded ↔ data.length > maxLen) ∧
    ((send w ep data).2 = .sent ↔ data.length ≤ maxLen) ∧
    (data.length > maxLen → (send w ep data).1.socks = w.socks) := by
  have hm := maxLen_le
  unfold send
  simp only [hs]
  cases hkind : s.kind with
  | raw => exact absurd hkind hk
  | listener =>
    by_cases hl : data.length > maxLen
    · simp [record, sendPacket, hl]
    · have hk' : ¬ data.length > kMax := by omega
      simp [record, sendPacket, hl, kSend, hk']
      omega
  | connected p =>
    by_cases hl : data.length > maxLen
    · simp [record, sendPacket, hl]
    · have hk' : ¬ data.length > kMax := by omega
      simp [record, sendPacket, hl, kSend, hk']
      omega

/-- the declared maximum is what `Transport::Udp.max_message_size()` answers (regenerated table) -/
theorem declared_maximum :
    (Mio.Generated.transports.find? (fun r => r.name = "Udp")).map (·.maxMessageSize) = some maxLen := by
  decide

/-- the receive buffer is large enough for every datagram the kernel can hold: nothing is cut -/
theorem buffer_holds_any_datagram : kMax ≤ bufLen := bufLen_ge

/-! Non-vacuity: a listener (0), two foreign senders (1, 2) and a connected library socket (3 → 0).
Sender 1 sends `[7]` and the empty datagram, sender 2 sends `[9]`, socket 3 sends `[5]`; after the
readiness event the listener has reported the four datagrams with their sources; it replies to the
address of the last event and socket 3 reports the reply under its own endpoint. -/
def exActs : List Act :=
  [.openListener, .openRaw, .openRaw, .openConnected 0,
   .rawSend 1 0 [7], .rawSend 2 0 [9], .rawSend 1 0 [], .send ⟨3, 99⟩ [5], .poll 0,
   .send ⟨0, 3⟩ [1, 2], .rawSend 1 3 [8], .poll 3]

example : ((run {} exActs).socks.map (·.events)) =
    [[⟨⟨0, 1⟩, [7]⟩, ⟨⟨0, 2⟩, [9]⟩, ⟨⟨0, 1⟩, []⟩, ⟨⟨0, 3⟩, [5]⟩], [], [], [⟨⟨3, 0⟩, [1, 2]⟩]] := by
  decide

end Mio.C12
