import MioModel.Lemmas.Udp
/-! # C12 — UDP datagrams are delivered unmodified and attributed to their sender

Model M8 (`MioModel/Udp.lean`).  Every theorem is about all worlds reachable by any sequence of socket
creations, library sends, foreign sends and readiness events, for every payload.  The kernel's
datagram service is the environment of the model (see the header of `Udp.lean`): what is proved is
that the library's side — size check, send path selection, receive loop, buffer size, event
construction — neither loses, merges, splits, cuts, duplicates, misattributes nor invents anything. -/
namespace Mio.C12
open Mio.Udp

/-- **Identity, exactly once, in order.**  For every socket, the datagrams reported so far (as
`(source address in the endpoint, payload)`) followed by those still queued are exactly the datagrams
that the history of send calls addressed to it — one event per datagram, in order — each passed through
`cutK` (= `recv` into the reader's buffer: the adapter's `MAX_LOCAL_PAYLOAD_LEN` bytes for a library
socket) … -/
theorem delivered_exactly_once (w : World) (h : Reachable w) (j : Nat) (s : Sock)
    (hj : w.socks[j]? = some s) :
    s.events.map evDgram ++ s.queue.map (cutK s.kind) = (expected w.log j s.kind).map (cutK s.kind) := by
  have hs := (reachable_inv w h).socks j s hj
  rw [hs.split, hs.exp]

/-- … and that changes nothing for any payload size from 0 to the declared maximum: byte-identical,
never truncated.  (Only a foreign IPv6 socket can produce a longer datagram; that is outside the
property's range of sizes.) -/
theorem unmodified_up_to_declared_maximum (k : Kind) (d : Dgram) (h : d.data.length ≤ maxLen) :
    cutK k d = d := by
  cases k with
  | raw => rfl
  | listener => exact cut_of_small d h
  | connected p => exact cut_of_small d h

/-- everything the library itself sends is within that range -/
theorem library_sends_within_maximum (w : World) (h : Reachable w) (r : SendRec) (hr : r ∈ w.log)
    (hl : r.viaLibrary = true) (hs : r.status = .sent) : r.data.length ≤ maxLen :=
  (reachable_inv w h).libSmall r hr hl hs

/-- hence, in a world where every sender used the library or kept to the declared maximum, what is
reported is exactly what was sent -/
theorem delivered_exactly_once_unmodified (w : World) (h : Reachable w) (j : Nat) (s : Sock)
    (hj : w.socks[j]? = some s) (hsmall : ∀ r ∈ w.log, r.data.length ≤ maxLen) :
    s.events.map evDgram ++ s.queue = expected w.log j s.kind := by
  have hs := (reachable_inv w h).socks j s hj
  have hexp : ∀ d ∈ expected w.log j s.kind, cutK s.kind d = d := by
    intro d hd
    unfold expected at hd
    obtain ⟨r, hr, hre⟩ := List.mem_map.mp hd
    have := hsmall r (List.mem_filter.mp hr).1
    subst hre
    exact unmodified_up_to_declared_maximum _ _ this
  have hq : ∀ d ∈ s.queue, cutK s.kind d = d := by
    intro d hd
    have := hs.queued d hd
    rw [hs.exp] at this
    exact hexp d this
  have h1 := delivered_exactly_once w h j s hj
  rw [List.map_congr_left hq, List.map_congr_left hexp, List.map_id', List.map_id'] at h1
  exact h1

/-- after a readiness event has been processed nothing is left behind: everything sent has been reported -/
theorem after_poll_everything_reported (w : World) (h : Reachable w) (j : Nat) (s : Sock)
    (hj : (poll w j).socks[j]? = some s) :
    s.events.map evDgram = (expected w.log j s.kind).map (cutK s.kind) ∧ s.queue = [] := by
  have hr : Reachable (poll w j) := by
    obtain ⟨v6, acts, rfl⟩ := h
    exact ⟨v6, acts ++ [.poll j], by simp [run, List.foldl_append, step]⟩
  have h1 := delivered_exactly_once (poll w j) hr j s hj
  have hq : s.queue = [] := by
    unfold poll at hj
    simp only at hj
    rw [List.getElem?_modify] at hj
    cases hs0 : w.socks[j]? with
    | none => rw [hs0] at hj; simp at hj
    | some s0 =>
      rw [hs0] at hj
      simp only [Option.map_eq_map, Option.map_some, Option.some.injEq, if_true] at hj
      subst hj; rfl
  rw [hq, List.map_nil, List.append_nil] at h1
  have hlog : (poll w j).log = w.log := rfl
  rw [hlog] at h1
  exact ⟨h1, hq⟩

/-- **Attribution.**  An event reported by resource `j` carries `j` as its resource id, and its endpoint
address is the address of a socket that exists and that made a successful send call to `j` with exactly
this payload (as read into the receiver's buffer: the identity up to the declared maximum, see above). -/
theorem event_attributed_to_its_sender (w : World) (h : Reachable w) (j : Nat) (s : Sock)
    (hj : w.socks[j]? = some s) (e : Ev) (he : e ∈ s.events) :
    e.ep.rid = j ∧ e.ep.addr < w.socks.length ∧
    ∃ r ∈ w.log, r.dst = j ∧ r.src = e.ep.addr ∧ (cutK s.kind ⟨r.src, r.data⟩).data = e.data ∧
      r.status = .sent := by
  have hs := (reachable_inv w h).socks j s hj
  have hmem : evDgram e ∈ s.accepted.map (cutK s.kind) := by
    rw [← hs.split]
    exact List.mem_append_left _ (List.mem_map_of_mem he)
  obtain ⟨d, hd, hde⟩ := List.mem_map.mp hmem
  have hsrc : d.src = e.ep.addr := by
    have := congrArg Dgram.src hde; rw [cutK_src] at this; simpa [evDgram] using this
  have hdat : (cutK s.kind d).data = e.data := by have := congrArg Dgram.data hde; simpa [evDgram] using this
  refine ⟨hs.rid e he, by rw [← hsrc]; exact hs.srcs _ hd, ?_⟩
  rw [hs.exp] at hd
  unfold expected at hd
  obtain ⟨r, hr, hre⟩ := List.mem_map.mp hd
  have hf := List.mem_filter.mp hr
  refine ⟨r, hf.1, ?_⟩
  have hc := hf.2
  simp only [Bool.and_eq_true, decide_eq_true_eq] at hc
  have h1 : r.src = d.src := by have := congrArg Dgram.src hre; simpa using this
  have h2 : r.data = d.data := by have := congrArg Dgram.data hre; simpa using this
  refine ⟨hc.1.1.1, by rw [h1, hsrc], ?_, hc.1.1.2⟩
  rw [← hdat, h1, h2]

/-- a connected socket reports every datagram under its own endpoint `(id, peer address)` -/
theorem connected_reports_peer (w : World) (h : Reachable w) (j p : Nat) (s : Sock)
    (hj : w.socks[j]? = some s) (hk : s.kind = .connected p) (e : Ev) (he : e ∈ s.events) :
    e.ep = ⟨j, p⟩ := by
  have hs := (reachable_inv w h).socks j s hj
  have hmem : evDgram e ∈ s.accepted.map (cutK s.kind) := by
    rw [← hs.split]
    exact List.mem_append_left _ (List.mem_map_of_mem he)
  obtain ⟨d, hd, hde⟩ := List.mem_map.mp hmem
  have h1 : (evDgram e).src = p := by rw [← hde, cutK_src]; exact hs.peer p hk d hd
  have h2 := hs.rid e he
  cases e with
  | mk ep data => cases ep with
    | mk rid addr => simp only [evDgram] at h1 h2; subst h1; subst h2; rfl

/-- **Reply path.**  Sending from listener `j` to the address `a` (the endpoint reported in an event, or
one built with `from_listener`) hands the kernel a datagram from `j` for the socket bound at `a`: if
that socket takes datagrams from `j`, exactly this datagram is appended to its queue. -/
theorem reply_reaches_address (w : World) (hkm : maxLen ≤ w.kmax) (j a : Nat) (s t : Sock) (data : Bytes)
    (hj : w.socks[j]? = some s) (hk : s.kind = .listener) (ha : w.socks[a]? = some t)
    (hal : t.alive = true) (hacc : kAccepts t.kind j = true) (hlen : data.length ≤ maxLen) :
    (send w ⟨j, a⟩ data).2 = .sent ∧
    ∃ t', (send w ⟨j, a⟩ data).1.socks[a]? = some t' ∧ t'.kind = t.kind ∧
      t'.queue = t.queue ++ [⟨j, data⟩] ∧ t'.events = t.events := by
  have hk' : ¬ data.length > w.kmax := by omega
  have hl : ¬ data.length > maxLen := by omega
  unfold send
  simp only [hj, hk, record, sendPacket, hl, if_false, Bool.false_eq_true, kSend, hk']
  refine ⟨by trivial, ?_⟩
  rw [getElem?_enqueue]
  simp only [if_true, ha, Option.map_some, hacc, hal, Bool.and_self]
  exact ⟨_, rfl, rfl, rfl, rfl⟩

/-- the endpoint of an event is a valid reply address: the sender's socket exists -/
theorem reported_endpoint_is_replyable (w : World) (h : Reachable w) (j : Nat) (s : Sock)
    (hj : w.socks[j]? = some s) (e : Ev) (he : e ∈ s.events) :
    ∃ t, w.socks[e.ep.addr]? = some t := by
  have := (event_attributed_to_its_sender w h j s hj e he).2.1
  exact ⟨w.socks[e.ep.addr], List.getElem?_eq_getElem this⟩

/-- `from_listener` yields exactly the endpoint the driver itself builds, and only for listeners -/
theorem from_listener_spec (w : World) (id addr : Nat) (ep : Endpoint) :
    fromListener w id addr = some ep ↔ (∃ s, w.socks[id]? = some s ∧ s.kind = .listener) ∧ ep = ⟨id, addr⟩ := by
  unfold fromListener
  cases hs : w.socks[id]? with
  | none => simp
  | some s =>
    by_cases hk : s.kind = .listener
    · simp [hk, eq_comm]
    · simp [hk]

/-- **Sizes.**  A send on a library socket is refused with `MaxPacketSizeExceeded` exactly above the
declared maximum, and then nothing is transmitted; at or below it (zero included) it is `Sent` — except
that a connected socket with a pending ICMP error (an earlier datagram bounced off an absent peer)
answers `ResourceNotFound` once, for a datagram the kernel did not take. -/
theorem size_status (w : World) (hkm : maxLen ≤ w.kmax) (ep : Endpoint) (s : Sock) (data : Bytes)
    (hs : w.socks[ep.rid]? = some s) (hk : s.kind ≠ .raw) :
    ((send w ep data).2 = .maxPacketSizeExceeded ↔ data.length > maxLen) ∧
    ((send w ep data).2 = .sent ↔ data.length ≤ maxLen ∧ ¬ ((∃ p, s.kind = .connected p) ∧ s.err = true)) ∧
    (data.length > maxLen → (send w ep data).1.socks = w.socks) := by
  have hm := hkm
  have herr : hasErr w.socks ep.rid = s.err := by simp [hasErr, hs]
  unfold send
  simp only [hs]
  cases hkind : s.kind with
  | raw => exact absurd hkind hk
  | listener =>
    by_cases hl : data.length > maxLen
    · simp [record, sendPacket, hl]
    · have hk' : ¬ data.length > w.kmax := by omega
      simp [record, sendPacket, hl, kSend, hk']
      omega
  | connected p =>
    by_cases hl : data.length > maxLen
    · simp [record, sendPacket, hl]
      intro hle; omega
    · have hk' : ¬ data.length > w.kmax := by omega
      have hle : data.length ≤ maxLen := by omega
      cases he : s.err with
      | true => simp [record, sendPacket, hl, kSendConn, hk', herr, he]
      | false =>
        by_cases hd : deliverable w.socks p = true
        · simp [record, sendPacket, hl, kSendConn, hk', herr, he, hd, hle]
        · simp [record, sendPacket, hl, kSendConn, hk', herr, he, hd, hle]

/-- **`Sent` is truthful.**  A send that answers `ResourceNotFound` because of a pending ICMP error hands
nothing to anybody: every queue is as before (only the error flag of the sender is cleared). -/
theorem refused_send_transmits_nothing (w : World) (ep : Endpoint) (s : Sock) (p : Nat) (data : Bytes)
    (hs : w.socks[ep.rid]? = some s) (hk : s.kind = .connected p) (he : s.err = true)
    (hl : data.length ≤ w.kmax) (hl' : data.length ≤ maxLen) :
    (send w ep data).2 = .resourceNotFound ∧
    ∀ j : Nat, ((send w ep data).1.socks[j]?).map Sock.queue = (w.socks[j]?).map Sock.queue := by
  have herr : hasErr w.socks ep.rid = true := by simp [hasErr, hs, he]
  have h1 : ¬ data.length > maxLen := by omega
  have h2 : ¬ data.length > w.kmax := by omega
  unfold send
  simp only [hs, hk, record, sendPacket, h1, if_false, if_true, kSendConn, h2, herr]
  refine ⟨trivial, ?_⟩
  intro j
  simp only [setErr]
  rw [List.getElem?_modify]
  cases w.socks[j]? with
  | none => rfl
  | some t => by_cases hj : ep.rid = j <;> simp [hj]

/-- … and a datagram sent (status `Sent`) from a connected socket to its peer, when a socket is bound
there and takes datagrams from it, is in that socket's queue -/
theorem sent_from_connected_is_queued (w : World) (ep : Endpoint) (s t : Sock) (p : Nat) (data : Bytes)
    (hs : w.socks[ep.rid]? = some s) (hk : s.kind = .connected p) (he : s.err = false)
    (ht : w.socks[p]? = some t) (hal : t.alive = true) (hacc : kAccepts t.kind ep.rid = true)
    (hl : data.length ≤ w.kmax) (hl' : data.length ≤ maxLen) :
    (send w ep data).2 = .sent ∧
    ∃ t', (send w ep data).1.socks[p]? = some t' ∧ t'.queue = t.queue ++ [⟨ep.rid, data⟩] := by
  have herr : hasErr w.socks ep.rid = false := by simp [hasErr, hs, he]
  have hd : deliverable w.socks p = true := by simp [deliverable, ht, hal]
  have h1 : ¬ data.length > maxLen := by omega
  have h2 : ¬ data.length > w.kmax := by omega
  unfold send
  simp only [hs, hk, record, sendPacket, h1, if_false, if_true, kSendConn, h2, herr, Bool.false_eq_true, hd]
  refine ⟨trivial, ?_⟩
  rw [getElem?_enqueue]
  simp only [if_true, ht, Option.map_some, hal, hacc, Bool.and_self]
  exact ⟨_, rfl, rfl⟩

/-- the declared maximum is what `Transport::Udp.max_message_size()` answers (regenerated table) -/
theorem declared_maximum :
    (Mio.Generated.transports.find? (fun r => r.name = "Udp")).map (·.maxMessageSize) = some maxLen := by
  decide

/-- the receive buffer holds every datagram up to the declared maximum, and every IPv4 datagram -/
theorem buffer_holds_any_datagram : maxLen ≤ bufLen ∧ kMax4 ≤ bufLen := by decide

/-- the hypothesis `maxLen ≤ w.kmax` of the two theorems above holds in every reachable world (both
address families) -/
theorem kernel_admits_declared_maximum (w : World) (h : Reachable w) : maxLen ≤ w.kmax :=
  (reachable_inv w h).kmaxGe

/-! Non-vacuity: a listener (0), two foreign senders (1, 2) and a connected library socket (3 → 0).
Sender 1 sends `[7]` and the empty datagram, sender 2 sends `[9]`, socket 3 sends `[5]`; after the
readiness event the listener has reported the four datagrams with their sources; it replies to the
address of the last event and socket 3 reports the reply under its own endpoint. -/
def exActs : List Act :=
  [.openListener, .openRaw, .openRaw, .openConnected 0,
   .rawSend 1 0 [7], .rawSend 2 0 [9], .rawSend 1 0 [], .send ⟨3, 99⟩ [5], .poll 0,
   .send ⟨0, 3⟩ [1, 2], .rawSend 1 3 [8], .poll 3]

example : ((run (init false) exActs).socks.map (·.events)) =
    [[⟨⟨0, 1⟩, [7]⟩, ⟨⟨0, 2⟩, [9]⟩, ⟨⟨0, 1⟩, []⟩, ⟨⟨0, 3⟩, [5]⟩], [], [], [⟨⟨3, 0⟩, [1, 2]⟩]] := by
  decide

end Mio.C12
