import MioModel.Lemmas.NodeOrder
/-! # C15 — Events that happen before for_each() are kept, in order, and delivered first

Network events are numbered in the order the processor produces them: the `c` events cached between
node creation and the listener call are `0 … c-1`, the live ones follow. -/
namespace Mio.C15
open Mio.Node

/-- In every reachable state, in every mode and for every hand-over instant (any `c`), the network
events handed to the callback so far are exactly `0, 1, …, k-1` for some `k`: none skipped, none
repeated, none reordered. -/
theorem cache_order (mode : Mode) (c : Nat) (s : St) (h : Reachable mode c s) :
    netLog s = List.range (netLog s).length :=
  (reachable_oinv mode c s h).core.2.2.1

/-- cached events are delivered before any live one -/
theorem cached_before_live (mode : Mode) (c : Nat) (s : St) (h : Reachable mode c s) (i j : Nat)
    (hi : i < (netLog s).length) (hj : j < (netLog s).length) (hc : (netLog s)[i] < c)
    (hl : c ≤ (netLog s)[j]) : i < j := by
  have hr := cache_order mode c s h
  have e1 : (netLog s)[i] = i := by
    have : (netLog s)[i]? = (List.range (netLog s).length)[i]? := by rw [← hr]
    simpa [hi] using this
  have e2 : (netLog s)[j] = j := by
    have : (netLog s)[j]? = (List.range (netLog s).length)[j]? := by rw [← hr]
    simpa [hj] using this
  omega

/-- while the node is running nothing is dropped: what has been delivered plus what is still in the
pipeline (held by the network thread, cached, polled) is everything produced so far -/
theorem nothing_dropped_while_running (mode : Mode) (c : Nat) (s : St) (h : Reachable mode c s)
    (hr : s.running = true) : (netLog s).length + (upcoming s).length = s.nextLive := by
  obtain ⟨h1, _, _, _, h5, _⟩ := (reachable_oinv mode c s h).core
  have := h5 hr
  omega

/-- the pipeline itself is in production order and contiguous -/
theorem pipeline_in_order (mode : Mode) (c : Nat) (s : St) (h : Reachable mode c s) :
    upcoming s = List.range' (s.nextLive - (upcoming s).length) (upcoming s).length :=
  (reachable_oinv mode c s h).core.2.1

/-! Non-vacuity: two cached events, then a live one, asynchronous mode with a signal in between. -/
example : ∃ s, run (init .async 2) [.start, .callerRelease, .net 0, .net 0, .net 0, .net 0, .net 0,
    .sig true, .sig true, .net 0, .net 0, .net 0, .net 0, .net 0, .net 0, .net 0, .net 1, .net 0, .net 0, .net 0] = some s ∧
    netLog s = [0, 1, 2] := ⟨_, rfl, rfl⟩

end Mio.C15
