import MioModel.Lemmas.NodeOrder
import MioModel.Lemmas.Handover
/-! # C15 — Events that happen before for_each() are kept, in order, and delivered first

Network events are numbered in the order the processor produces them: the `c` events cached between
node creation and the listener call are `0 … c-1`, the live ones follow. -/
namespace Mio.C15
open Mio.Node

/-- In every reachable state, in every mode and for every hand-over instant (any `c`), the network
events handed to the callback so far are exactly `0, 1, …, k-1` for some `k`: none skipped, none
repeated, none reordered. -/
theorem cache_order (mode : Mode) (c : Nat) (s : St) (h : Reachable mode c s) :
    netLog s = List.range (netLog s).length :=
  (reachable_oinv mode c s h).core.2.2.1

/-- cached events are delivered before any live one -/
theorem cached_before_live (mode : Mode) (c : Nat) (s : St) (h : Reachable mode c s) (i j : Nat)
    (hi : i < (netLog s).length) (hj : j < (netLog s).length) (hc : (netLog s)[i] < c)
    (hl : c ≤ (netLog s)[j]) : i < j := by
  have hr := cache_order mode c s h
  have e1 : (netLog s)[i] = i := by
    have : (netLog s)[i]? = (List.range (netLog s).length)[i]? := by rw [← hr]
    simpa [hi] using this
  have e2 : (netLog s)[j] = j := by
    have : (netLog s)[j]? = (List.range (netLog s).length)[j]? := by rw [← hr]
    simpa [hj] using this
  omega

/-- while the node is running nothing is dropped: what has been delivered plus what is still in the
pipeline (held by the network thread, cached, polled) is everything produced so far -/
theorem nothing_dropped_while_running (mode : Mode) (c : Nat) (s : St) (h : Reachable mode c s)
    (hr : s.running = true) : (netLog s).length + (upcoming s).length = s.nextLive := by
  obtain ⟨h1, _, _, _, h5, _⟩ := (reachable_oinv mode c s h).core
  have := h5 hr
  omega

/-- the pipeline itself is in production order and contiguous -/
theorem pipeline_in_order (mode : Mode) (c : Nat) (s : St) (h : Reachable mode c s) :
    upcoming s = List.range' (s.nextLive - (upcoming s).length) (upcoming s).length :=
  (reachable_oinv mode c s h).core.2.1

/-! Non-vacuity: two cached events, then a live one, asynchronous mode with a signal in between. -/
example : ∃ s, run (init .async 2) [.start, .callerRelease, .net 0, .net 0, .net 0, .net 0, .net 0,
    .sig true, .sig true, .net 0, .net 0, .net 0, .net 0, .net 0, .net 0, .net 0, .net 1, .net 0, .net 0, .net 0] = some s ∧
    netLog s = [0, 1, 2] := ⟨_, rfl, rfl⟩

/-! ## The hand-over itself (model M4h, `MioModel/Handover.lean`)

The theorems above start from "`c` events are in the cache".  These say how the cache gets there: the
caching thread, the listener call and the network at any interleaving. -/
section handover
open Mio.Handover

/-- at every moment of the hand-over — before, during and after the listener call, for any amount of
activity — the cached events followed by those still waiting in the poller are all the events that
occurred, in the order they occurred -/
theorem handover_keeps_everything_in_order (s : Handover.St) (h : Handover.Reachable s) :
    s.cache ++ s.pending = List.range s.next :=
  (Handover.reachable_inv s h).all

/-- what the listener call receives from `join()` is exactly the cache of the finished caching thread:
the events `0 … c-1` for `c` its length, the later ones still waiting in the poller it took over — the
initial state `Node.init mode c` of the delivery model, whose cache is this list -/
theorem handover_gives_the_cached_prefix (s : Handover.St) (h : Handover.Reachable s) (c : List Nat)
    (ht : s.taken = some c) (mode : Mode) :
    c = List.range c.length ∧ s.pending = List.range' c.length (s.next - c.length) ∧
    (Node.init mode c.length).cache = c := by
  have hi := Handover.reachable_inv s h
  obtain ⟨hc, _, _⟩ := hi.taken c ht
  have hall := hi.all
  rw [← hc] at hall
  have hlen : c.length + s.pending.length = s.next := by
    have := congrArg List.length hall
    simpa using this
  have h1 : c = List.range c.length := by
    have := congrArg (List.take c.length) hall
    rw [List.take_left, List.take_range] at this
    have hm : min c.length s.next = c.length := by omega
    rw [hm] at this; exact this
  have h2 : s.pending = List.range' c.length (s.next - c.length) := by
    have := congrArg (List.drop c.length) hall
    rw [List.drop_left] at this
    rw [this, List.range_eq_range', List.drop_range']
    simp
  exact ⟨h1, h2, by simp only [Node.init]; exact h1.symm⟩

/-- **bounded for any traffic**: once the listener call has cleared the flag, the caching thread takes at
most two more steps (the poll it may be in, then the look at the flag) in every schedule, however many
events arrive in between -/
theorem handover_bounded_for_any_traffic (s s' : Handover.St) (acts : List Handover.Act)
    (hf : s.flag = false) (hr : Handover.run s acts = some s') : acts.count .cache ≤ 2 := by
  have := Handover.run_remaining acts s s' hf hr
  have : remaining s ≤ 2 := by unfold remaining; split <;> omega
  omega

/-- … and no schedule blocks: while the listener call waits in `join()`, either the caching thread can
step or `join()` returns -/
theorem handover_no_deadlock (s : Handover.St) (hl : s.lpc = .cleared) :
    (∃ s', Handover.step s .cache = some s') ∨ (∃ s', Handover.step s .join = some s') := by
  cases hc : s.cpc with
  | check => exact .inl (by simp [Handover.step, hc])
  | poll => exact .inl (by simp [Handover.step, hc])
  | done => exact .inr (by simp [Handover.step, hc, hl])

/-- the contrast (a caching thread that polls again whenever a poll was answered): for every `n` there is
a schedule in which it takes `n` steps after the flag was cleared and is still polling — with steady
traffic the listener call never gets the poller -/
theorem until_timeout_variant_can_starve (n : Nat) (s : Handover.St) (hp : s.cpc = .poll) :
    ∃ acts s', acts.count .cache = n ∧ Handover.runUntil s acts = some s' ∧ s'.cpc = .poll ∧
      s'.flag = s.flag := by
  induction n generalizing s with
  | zero => exact ⟨[], s, rfl, rfl, hp, rfl⟩
  | succ n ih =>
    let s1 : Handover.St := { s with pending := s.pending ++ [s.next], next := s.next + 1 }
    let s2 : Handover.St := { s1 with cache := s1.cache ++ s1.pending, pending := [] }
    obtain ⟨acts, s', h1, h2, h3, h4⟩ := ih s2 hp
    refine ⟨.arrive :: .cache :: acts, s', ?_, ?_, h3, h4⟩
    · simp [h1]
    · have e1 : Handover.stepUntil s .arrive = some s1 := rfl
      have e2 : Handover.stepUntil s1 .cache = some s2 := by
        simp [Handover.stepUntil, s1, s2, hp]
      simp only [Handover.runUntil, e1, e2, h2]

/-! Non-vacuity: two events occur, the caching thread polls them, a third occurs, the listener call is
made while the thread is inside a poll; a fourth arrives; the thread finishes its poll, sees the flag,
returns; `join()` hands over `[0, 1, 2, 3]`… -/
example : ∃ s, Handover.run {} [.arrive, .arrive, .cache, .cache, .arrive, .cache, .call, .arrive, .cache,
    .cache, .join, .arrive] = some s ∧ s.taken = some [0, 1, 2, 3] ∧ s.pending = [4] := ⟨_, rfl, rfl, rfl⟩

end handover

end Mio.C15
