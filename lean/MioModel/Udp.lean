import MioModel.Bytes
import MioModel.Generated
/-! # M8 — UDP: adapter send/receive loops, driver event construction, an abstract datagram kernel

What is the library's (transcribed from `src/adapters/udp.rs`, `src/network/driver.rs`,
`src/network/endpoint.rs`):

* `sendPacket`  — `send_packet`: the size check against `MAX_LOCAL_PAYLOAD_LEN` (regenerated), the
  mapping of the kernel's answers to `SendStatus`;
* `send`        — `Driver::send`: a `Local` id sends with `send_to(endpoint.addr())`, a `Remote` id with
  `send` on its connected socket (the endpoint's address is not consulted);
* `recvLoop`    — the loop of `RemoteResource::receive` / `LocalResource::accept`: `recv`/`recv_from`
  into a buffer of `MAX_LOCAL_PAYLOAD_LEN` bytes until `WouldBlock`, one callback per datagram;
* `evOf`        — the event the driver builds: `Message(Endpoint(listener id, sender address), data)` for
  a listener, `Message(Endpoint(id, peer address), data)` for a connected socket;
* `fromListener` — `Endpoint::from_listener`: only local ids of non connection-oriented transports.

What is the environment (assumed, stated in the trusted base): the kernel's datagram service on an idle
loopback — a datagram of at most `kmax` bytes (65507 over IPv4, 65527 over IPv6) sent to a bound socket is queued there whole, with its
source address, unless that socket is connected to somebody else; `recv` hands over the oldest queued
datagram cut to the caller's buffer; nothing else ever enters a queue.  Addresses are socket indices
(never reused). -/
namespace Mio.Udp

/-- largest UDP payload the kernel accepts: over IPv4 65535 − 20 − 8; over IPv6 the 40-byte header is
not counted in the 16-bit length, so 65535 − 8 -/
def kMax4 : Nat := 65507
def kMax6 : Nat := 65527

structure Dgram where
  src : Nat
  data : Bytes
deriving DecidableEq, Repr

inductive Kind
  | listener                 -- message-io `Local` resource
  | connected (peer : Nat)   -- message-io `Remote` resource
  | raw                      -- a foreign, unconnected socket
deriving DecidableEq, Repr

structure Endpoint where
  rid : Nat
  addr : Nat
deriving DecidableEq, Repr

/-- `NetEvent::Message(endpoint, data)`; for a foreign socket: what `recv_from` returned -/
structure Ev where
  ep : Endpoint
  data : Bytes
deriving DecidableEq, Repr

structure Sock where
  kind : Kind
  queue : List Dgram := []      -- kernel receive queue
  accepted : List Dgram := []   -- ghost: everything the kernel ever queued here
  events : List Ev := []        -- what was reported to the user so far
  alive : Bool := true          -- false: the socket was closed (a foreign peer that went away); its address stays reserved
  err : Bool := false           -- a connected socket only: an ICMP port-unreachable is pending (ECONNREFUSED)
deriving Repr

inductive Status | sent | maxPacketSizeExceeded | resourceNotFound
deriving DecidableEq, Repr

/-- one record per send call: who, to which address, what, the status returned, and whether a socket
was bound at the destination at that moment -/
structure SendRec where
  src : Nat
  dst : Nat
  data : Bytes
  status : Status
  bound : Bool
  viaLibrary : Bool             -- the call went through the library's `send` (not a foreign socket)
deriving Repr

structure World where
  kmax : Nat := kMax4           -- the address family of this world's sockets: `kMax4` or `kMax6`
  socks : List Sock := []
  log : List SendRec := []      -- ghost: the history of send calls
deriving Repr

/-! ## the kernel (environment) -/

def kAccepts : Kind → Nat → Bool
  | .connected p, src => p == src
  | _, _ => true

def enqueue (socks : List Sock) (dst : Nat) (d : Dgram) : List Sock :=
  socks.modify dst (fun s =>
    if s.alive && kAccepts s.kind d.src then { s with queue := s.queue ++ [d], accepted := s.accepted ++ [d] } else s)

/-- is a socket bound (and open) at this address right now? -/
def deliverable (socks : List Sock) (dst : Nat) : Bool :=
  match socks[dst]? with
  | some s => s.alive
  | none => false

def setErr (socks : List Sock) (i : Nat) (b : Bool) : List Sock := socks.modify i (fun s => { s with err := b })

def hasErr (socks : List Sock) (i : Nat) : Bool :=
  match socks[i]? with
  | some s => s.err
  | none => false

inductive KRes | ok | emsgsize | refused
deriving DecidableEq, Repr

/-- `send_to` on an unconnected socket (a listener, a foreign peer): ICMP errors are not reported to it -/
def kSend (kmax : Nat) (socks : List Sock) (src dst : Nat) (data : Bytes) : List Sock × KRes :=
  if data.length > kmax then (socks, .emsgsize) else (enqueue socks dst ⟨src, data⟩, .ok)

/-- `send` on a connected socket (Linux): a pending ICMP error is reported by the next send, which then
transmits nothing; a datagram for an address where nobody is bound is dropped and bounces -/
def kSendConn (kmax : Nat) (socks : List Sock) (src dst : Nat) (data : Bytes) : List Sock × KRes :=
  if data.length > kmax then (socks, .emsgsize)
  else if hasErr socks src then (setErr socks src false, .refused)
  else if deliverable socks dst then (enqueue socks dst ⟨src, data⟩, .ok)
  else (setErr (enqueue socks dst ⟨src, data⟩) src true, .ok)

/-- `recv(buf)`: the datagram cut to the buffer -/
def kRecv (buf : Nat) (d : Dgram) : Dgram := { d with data := d.data.take buf }

/-! ## the adapter and the driver -/

def maxLen : Nat := Generated.udpMaxLocalPayloadLen
/-- size of the stack buffer in `receive` / `accept` (`[u8; MAX_LOCAL_PAYLOAD_LEN]`) -/
def bufLen : Nat := Generated.udpMaxLocalPayloadLen

/-- `send_packet`: `conn` = the call is `socket.send` on a connected socket, else `socket.send_to` -/
def sendPacket (conn : Bool) (kmax : Nat) (socks : List Sock) (src dst : Nat) (data : Bytes) : List Sock × Status :=
  if data.length > maxLen then (socks, .maxPacketSizeExceeded)
  else match (if conn then kSendConn kmax socks src dst data else kSend kmax socks src dst data) with
    | (s', .ok) => (s', .sent)
    | (s', .emsgsize) => (s', .maxPacketSizeExceeded)
    | (s', .refused) => (s', .resourceNotFound)     -- `ConnectionRefused => ResourceNotFound`

def record (w : World) (src dst : Nat) (data : Bytes) (r : List Sock × Status) : World × Status :=
  ({ w with socks := r.1, log := w.log ++ [⟨src, dst, data, r.2, deliverable w.socks dst, true⟩] }, r.2)

/-- `Driver::send(endpoint, data)` -/
def send (w : World) (ep : Endpoint) (data : Bytes) : World × Status :=
  match w.socks[ep.rid]? with
  | none => (w, .resourceNotFound)
  | some s =>
    match s.kind with
    | .listener => record w ep.rid ep.addr data (sendPacket false w.kmax w.socks ep.rid ep.addr data)
    | .connected p => record w ep.rid p data (sendPacket true w.kmax w.socks ep.rid p data)
    | .raw => (w, .resourceNotFound)

/-- a foreign socket's `send_to` -/
def rawSend (w : World) (i dst : Nat) (data : Bytes) : World :=
  match w.socks[i]? with
  | none => w
  | some _ =>
    let r := kSend w.kmax w.socks i dst data
    { w with socks := r.1, log := w.log ++ [⟨i, dst, data, if r.2 = .ok then .sent else .maxPacketSizeExceeded,
                                             deliverable w.socks dst, false⟩] }

/-- the event built for one received datagram -/
def evOf (i : Nat) (k : Kind) (d : Dgram) : Ev :=
  match k with
  | .connected p => ⟨⟨i, p⟩, d.data⟩
  | _ => ⟨⟨i, d.src⟩, d.data⟩

/-- what the reader's `recv` makes of a queued datagram: the library reads into its `bufLen` buffer; a
foreign socket is assumed to read with a buffer large enough for anything -/
def cutK (k : Kind) (d : Dgram) : Dgram :=
  match k with
  | .raw => d
  | _ => kRecv bufLen d

/-- the receive loop: one `recv` per iteration until the queue is empty (`WouldBlock`) -/
def recvLoop (i : Nat) (k : Kind) : List Dgram → List Ev
  | [] => []
  | d :: q => evOf i k (cutK k d) :: recvLoop i k q

/-! ### the adapter's contract towards the driver (what M5 assumes of a Udp resource)

`RemoteResource::receive` line by line, over the answers of `recv`: a datagram is handed to the
callback and the loop goes on; `WouldBlock` ends the event; `ConnectionRefused` (an ICMP port-unreachable
left pending by an earlier send to an absent peer) and any other error end the event as well — none of
them reports a disconnection: a Udp resource ends only by `remove()`. -/

inductive RecvAns
  | dgram (d : Dgram)
  | wouldBlock
  | refused
  | otherError
deriving Repr

inductive UdpReadStatus | waitNextEvent | disconnected
deriving DecidableEq, Repr

inductive UdpPending | ready | incomplete | disconnected
deriving DecidableEq, Repr

def remoteReceive (i : Nat) (k : Kind) : List RecvAns → List Ev × UdpReadStatus
  | [] => ([], .waitNextEvent)
  | .dgram d :: rest =>
    let r := remoteReceive i k rest
    (evOf i k (cutK k d) :: r.1, r.2)
  | .wouldBlock :: _ => ([], .waitNextEvent)
  | .refused :: _ => ([], .waitNextEvent)
  | .otherError :: _ => ([], .waitNextEvent)

/-- `RemoteResource::pending`: a Udp "connection" is usable at once -/
def remotePending : UdpPending := .ready

/-- a readiness event for socket `i` (or a foreign socket reading everything it has) -/
def poll (w : World) (i : Nat) : World :=
  { w with socks := w.socks.modify i (fun s =>
      { s with queue := [], events := s.events ++ recvLoop i s.kind s.queue }) }

/-- `Endpoint::from_listener(id, addr)`; `none` = the assertion fails -/
def fromListener (w : World) (id addr : Nat) : Option Endpoint :=
  match w.socks[id]? with
  | some s => if s.kind = .listener then some ⟨id, addr⟩ else none
  | none => none

/-- the two assertions of `from_listener`, on the id's resource type and the transport's row -/
def fromListenerGuard (isLocal connectionOriented : Bool) : Bool := isLocal && !connectionOriented

/-- a socket is closed by its owner after reading what it had (a foreign peer going away) -/
def close (w : World) (i : Nat) : World :=
  let w := poll w i
  { w with socks := w.socks.modify i (fun s => { s with alive := false }) }

/-- … and bound again at the same address (the peer restarts) -/
def reopen (w : World) (i : Nat) : World :=
  { w with socks := w.socks.modify i (fun s => { s with alive := true }) }

inductive Act
  | openListener
  | openConnected (peer : Nat)
  | openRaw
  | send (ep : Endpoint) (data : Bytes)
  | rawSend (i dst : Nat) (data : Bytes)
  | poll (i : Nat)
  | close (i : Nat)
  | reopen (i : Nat)
deriving Repr

def step (w : World) : Act → World
  | .openListener => { w with socks := w.socks ++ [{ kind := .listener }] }
  | .openConnected p => { w with socks := w.socks ++ [{ kind := .connected p }] }
  | .openRaw => { w with socks := w.socks ++ [{ kind := .raw }] }
  | .send ep data => (send w ep data).1
  | .rawSend i dst data => rawSend w i dst data
  | .poll i => poll w i
  | .close i => close w i
  | .reopen i => reopen w i

def run (w : World) (acts : List Act) : World := acts.foldl step w

/-- the two worlds: all sockets IPv4, or all sockets IPv6 -/
def init (v6 : Bool) : World := { kmax := if v6 then kMax6 else kMax4 }

def Reachable (w : World) : Prop := ∃ v6 acts, run (init v6) acts = w

end Mio.Udp
