/-! # M4h — the hand-over of the poller from the caching thread to the listener call

Transcribed from `src/node.rs`: `NodeListener::new` spawns the *cache thread*

    while cache_running.load() { network_processor.process_poll_event(Some(SAMPLING_TIMEOUT), |e| cache.push_back(e)) }
    (network_processor, cache)

and `for_each` / `for_each_async` / `enqueue` begin with

    self.cache_running.store(false);  let (network_processor, cache) = self.network_cache_thread.join();

One step of a thread is one line that touches shared state.  `process_poll_event` is one call of the
poller: it returns after handing over whatever readiness was waiting (or after the sampling timeout with
nothing) — it does not loop.  The environment produces network events at any moment (`arrive`); they
wait in the poller (`pending`) until some thread polls.  Events are numbered in the order they occur.
What `M4` (`Node.lean`) starts from — `c` events in the cache, the rest still to come — is what this
model ends with. -/
namespace Mio.Handover

inductive CPc
  | check     -- `while cache_running.load()`
  | poll      -- `process_poll_event(timeout, push_back)`
  | done      -- the thread returned `(network_processor, cache)`
deriving DecidableEq, Repr

inductive LPc
  | idle      -- the listener call was not made yet
  | cleared   -- `cache_running.store(false)` done; blocked in `join()`
  | joined    -- `join()` returned: the caller owns the processor and the cache
deriving DecidableEq, Repr

structure St where
  flag : Bool := true
  cpc : CPc := .check
  lpc : LPc := .idle
  cache : List Nat := []
  pending : List Nat := []          -- occurred, not yet polled
  next : Nat := 0                   -- number of the next network event
  taken : Option (List Nat) := none -- the cache as the listener call received it
deriving Repr

inductive Act
  | arrive      -- environment: a network event occurs
  | cache       -- one step of the cache thread
  | call        -- the listener call stores `false` into the flag
  | join        -- `join()` returns
deriving DecidableEq, Repr

/-- `none`: the action is not enabled in this state -/
def step (s : St) : Act → Option St
  | .arrive => some { s with pending := s.pending ++ [s.next], next := s.next + 1 }
  | .cache =>
    match s.cpc with
    | .check => some { s with cpc := if s.flag then .poll else .done }
    | .poll => some { s with cache := s.cache ++ s.pending, pending := [], cpc := .check }
    | .done => none
  | .call => if s.lpc = .idle then some { s with flag := false, lpc := .cleared } else none
  | .join => if s.lpc = .cleared ∧ s.cpc = .done then some { s with lpc := .joined, taken := some s.cache } else none

def run (s : St) : List Act → Option St
  | [] => some s
  | a :: as => match step s a with
    | some s' => run s' as
    | none => none

def Reachable (s : St) : Prop := ∃ acts, run {} acts = some s

/-- steps the cache thread can still take once the flag is cleared -/
def remaining (s : St) : Nat :=
  match s.cpc with
  | .done => 0
  | .check => 1
  | .poll => 2

/-! ### a contrast: the cache thread built on `process_poll_events_until_timeout`

(that helper polls again as long as a poll was answered before the timeout; it is what a seeded change
put here) — kept to state precisely what the hand-over above excludes. -/
def stepUntil (s : St) : Act → Option St
  | .cache =>
    match s.cpc with
    | .poll => if s.pending = [] then some { s with cpc := .check }
               else some { s with cache := s.cache ++ s.pending, pending := [] }
    | _ => step s .cache
  | a => step s a

def runUntil (s : St) : List Act → Option St
  | [] => some s
  | a :: as => match stepUntil s a with
    | some s' => runUntil s' as
    | none => none

end Mio.Handover
