/-! # M2w — the WebSocket adapter's handshake state machine (`adapters/ws.rs`, `RemoteResource::pending`)

`RemoteState` is `WebSocket(_) | Handshake(Option<PendingHandshake>) | Error(_)`; `pending()` takes the
`PendingHandshake` out of the option (`pending.take().unwrap()`), runs one step of the TCP / WebSocket
handshake and must put a state back on every path.  `send`, `receive` and `pending` contain
`unreachable!()` arms for the states they must never be called in; `none` below is such a panic.
What tungstenite and the TCP readiness probe answer is the environment (`HsAns`). -/
namespace Mio.WsHs

inductive Phase
  | connect      -- `PendingHandshake::Connect(url, stream)`: TCP connect in progress / client handshake not started
  | accept       -- `PendingHandshake::Accept(stream)`: server handshake not started
  | client       -- `PendingHandshake::Client(mid)`: client handshake interrupted by `WouldBlock`
  | server       -- `PendingHandshake::Server(mid)`
deriving DecidableEq, Repr

inductive St
  | webSocket
  | handshake (p : Option Phase)     -- `none` = the moved-from placeholder left by `take()`
  | error
deriving DecidableEq, Repr

inductive Pending | ready | incomplete | disconnected
deriving DecidableEq, Repr

/-- what the step of the handshake answers -/
inductive HsAns
  | tcpIncomplete | tcpDisconnected      -- `check_stream_ready` (Connect only): not `Ready`
  | ok                                    -- the WebSocket handshake completed
  | interrupted                           -- `HandshakeError::Interrupted(mid)`
  | failure                               -- `HandshakeError::Failure(_)`
deriving DecidableEq, Repr

/-- `pending()`; `none` = `unreachable!()` / `unwrap()` on `None` -/
def pending (s : St) (a : HsAns) : Option (St × Pending) :=
  match s with
  | .webSocket => some (.webSocket, .ready)
  | .error => none
  | .handshake none => none
  | .handshake (some p) =>
    match p, a with
    | .connect, .tcpIncomplete => some (.handshake (some .connect), .incomplete)
    | .connect, .tcpDisconnected => some (.handshake (some .connect), .disconnected)
    | _, .tcpIncomplete => none      -- not an answer of this phase
    | _, .tcpDisconnected => none
    | _, .ok => some (.webSocket, .ready)
    | .connect, .interrupted => some (.handshake (some .client), .incomplete)
    | .client, .interrupted => some (.handshake (some .client), .incomplete)
    | .accept, .interrupted => some (.handshake (some .server), .incomplete)
    | .server, .interrupted => some (.handshake (some .server), .incomplete)
    | _, .failure => some (.error, .disconnected)

/-- answers a phase can get -/
def LegalAns : Phase → HsAns → Prop
  | .connect, _ => True
  | _, .tcpIncomplete => False
  | _, .tcpDisconnected => False
  | _, _ => True

/-- `receive` / `send`: only on an established WebSocket (`none` = `unreachable!()`) -/
def usable (s : St) : Option Unit :=
  match s with
  | .webSocket => some ()
  | _ => none

end Mio.WsHs
