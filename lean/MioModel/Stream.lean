import MioModel.Decoder
/-! M2 — the adapters' I/O loops over an abstract non-blocking socket.

`src/adapters/tcp.rs:162-211` (raw Tcp `receive`/`send`), `framed_tcp.rs:108-170` (FramedTcp
`receive`/`send`, the send lock), `ws.rs:126-185` (WebSocket `receive`/`send`).

The kernel is the environment: every `write`/`read` call consumes one *answer* from a schedule.
Theorems are stated for all schedules that are *legal* for the socket state (`WouldBlock` only when
nothing is readable, `Ok(0)` only after the peer's FIN with nothing left, a read returns between 1
and `min cap available` bytes, a write accepts at most what it was given). -/
namespace Mio.Stream
open Mio Mio.Generated

inductive SendStatus where
  | sent | maxPacketSizeExceeded | resourceNotFound | resourceNotAvailable
deriving DecidableEq, Repr

inductive ReadStatus where
  | disconnected | waitNextEvent
deriving DecidableEq, Repr

/-- answer of the kernel to one `write(buf)` -/
inductive WAns where
  | wouldBlock
  | accept (k : Nat)        -- `Ok(k)`: the first k bytes of buf were taken
  | error                   -- any other error (connection reset, broken pipe …)
deriving DecidableEq, Repr

/-- answer of the kernel to one `read(buf)` -/
inductive RAns where
  | wouldBlock
  | interrupted
  | take (k : Nat)          -- `Ok(k)`, k ≥ 1
  | eof                     -- `Ok(0)`
  | reset                   -- `ConnectionReset`
  | error                   -- any other error
deriving DecidableEq, Repr

/-! ### send loops -/

/-- result of a send loop: `none` status = the schedule ended while the loop is still spinning -/
structure SendResult where
  status : Option SendStatus
  wire : Bytes               -- bytes the kernel accepted during this call, in order
deriving DecidableEq, Repr

/-- `tcp::RemoteResource::send` (tcp.rs:185-211): `write(&data[total_bytes_sent..])` until all sent -/
def tcpSendLoop (data : Bytes) : (sent : Nat) → List WAns → SendResult
  | _, [] => { status := none, wire := [] }
  | sent, a :: as =>
    match a with
    | .wouldBlock => tcpSendLoop data sent as
    | .error => { status := some .resourceNotFound, wire := [] }
    | .accept k =>
      let buf := data.drop sent
      let k := min k buf.length                      -- the kernel cannot take more than it is given
      let sent' := sent + k
      if sent' = data.length then { status := some .sent, wire := buf.take k }
      else
        let r := tcpSendLoop data sent' as
        { r with wire := buf.take k ++ r.wire }

def tcpSend (data : Bytes) (sched : List WAns) : SendResult := tcpSendLoop data 0 sched

/-- `framed_tcp::RemoteResource::send` (framed_tcp.rs:140-170): the size prefix, then the payload,
selected by `total_bytes_sent` on every iteration -/
def framedSendLoop (pre data : Bytes) : (sent : Nat) → List WAns → SendResult
  | _, [] => { status := none, wire := [] }
  | sent, a :: as =>
    match a with
    | .wouldBlock => framedSendLoop pre data sent as
    | .error => { status := some .resourceNotFound, wire := [] }
    | .accept k =>
      let buf := if sent < pre.length then pre.drop sent else data.drop (sent - pre.length)
      let k := min k buf.length
      let sent' := sent + k
      if sent' = pre.length + data.length then { status := some .sent, wire := buf.take k }
      else
        let r := framedSendLoop pre data sent' as
        { r with wire := buf.take k ++ r.wire }

def framedSend (data : Bytes) (sched : List WAns) : SendResult :=
  framedSendLoop (encodeVar data.length) data 0 sched

/-! ### receive loops -/

structure RecvResult (σ : Type) where
  st : σ
  outs : List Bytes              -- the `process_data` callbacks, in order
  status : Option ReadStatus     -- `none`: schedule exhausted (still looping) or the consumer panicked
  rx : Bytes                     -- what is still readable afterwards
  panicked : Bool := false

/-- the common shape of `tcp::receive` and `framed_tcp::receive`: read into a buffer of `cap` bytes,
hand every chunk to `consume` (which may call back several times), until the kernel says stop -/
def recvLoop {σ : Type} (cap : Nat) (consume : σ → Bytes → Option (σ × List Bytes)) :
    σ → Bytes → List RAns → RecvResult σ
  | st, rx, [] => { st, outs := [], status := none, rx }
  | st, rx, a :: as =>
    match a with
    | .interrupted => recvLoop cap consume st rx as
    | .wouldBlock => { st, outs := [], status := some .waitNextEvent, rx }
    | .eof => { st, outs := [], status := some .disconnected, rx }
    | .reset => { st, outs := [], status := some .disconnected, rx }
    | .error => { st, outs := [], status := some .disconnected, rx }
    | .take k =>
      let k := min k (min cap rx.length)
      match consume st (rx.take k) with
      | none => { st, outs := [], status := none, rx := rx.drop k, panicked := true }
      | some (st', outs) =>
        let r := recvLoop cap consume st' (rx.drop k) as
        { r with outs := outs ++ r.outs }

/-- raw Tcp: every chunk is one callback -/
def tcpReceive (rx : Bytes) (sched : List RAns) : RecvResult Unit :=
  recvLoop tcpInputBufferSize (fun _ c => some ((), [c])) () rx sched

/-- FramedTcp: every chunk goes through the decoder (state = its buffer); the private read-buffer
size of framed_tcp.rs is not exported, the model uses Tcp's (the theorems do not depend on it) -/
def framedReceive (dec : Bytes) (rx : Bytes) (sched : List RAns) : RecvResult Bytes :=
  recvLoop tcpInputBufferSize (fun st c => decode st c) dec rx sched

/-- a read schedule is legal for what is readable (`rx`) and whether the peer has closed (`fin`) -/
def LegalR (cap : Nat) : Bytes → Bool → List RAns → Prop
  | _, _, [] => True
  | rx, fin, a :: as =>
    match a with
    | .interrupted => LegalR cap rx fin as
    | .wouldBlock => rx = []
    | .eof => rx = [] ∧ fin = true
    | .reset => True
    | .error => True
    | .take k => 1 ≤ k ∧ k ≤ min cap rx.length ∧ LegalR cap (rx.drop k) fin as

/-! ### a connection over several poll events -/

/-- one poll event: `arrived` bytes were delivered by the kernel since the last one, then the receive
loop runs once with the given read schedule -/
structure PollEv where
  arrived : Bytes
  sched : List RAns

structure ConnSt (σ : Type) where
  st : σ
  rx : Bytes := []
  outs : List Bytes := []
  lastStatus : Option ReadStatus := some .waitNextEvent
  panicked : Bool := false

def session {σ : Type} (cap : Nat) (consume : σ → Bytes → Option (σ × List Bytes)) :
    ConnSt σ → List PollEv → ConnSt σ
  | c, [] => c
  | c, e :: es =>
    let r := recvLoop cap consume c.st (c.rx ++ e.arrived) e.sched
    session cap consume
      { st := r.st, rx := r.rx, outs := c.outs ++ r.outs, lastStatus := r.status,
        panicked := c.panicked || r.panicked } es

/-! ### WebSocket: the adapter loop around an ideal message codec with read-ahead

tungstenite is an assumption (DESIGN §5): `read()` returns a complete buffered message without
touching the socket when it has one; otherwise it reads the socket once — possibly taking several
messages into its buffer — and returns the first, or reports `WouldBlock` when the socket has
nothing.  Only what matters to the adapter's loop is kept: *messages* that have fully arrived on the
socket (`sock`) and messages already inside the codec (`buf`). -/

/-- a complete WebSocket message as `read()` returns it: `some data` = `Message::Binary(data)`, which
is handed to the user; `none` = a Ping, Pong or Text message, which the adapter skips (`_ => continue`) -/
abbrev WsMsg := Option Bytes

structure WsConn where
  sock : List WsMsg := []       -- complete messages readable from the socket, oldest first
  buf : List WsMsg := []        -- complete messages already buffered inside the codec
deriving DecidableEq, Repr

/-- answer of the environment to one socket access made by `web_socket.read()` -/
inductive WsAns where
  | wouldBlock
  | fill (k : Nat)              -- the read took the first k ≥ 1 messages into the codec buffer
  | close                       -- a Close frame / EOF / reset
deriving DecidableEq, Repr

structure WsRecv where
  conn : WsConn
  outs : List Bytes
  status : Option ReadStatus

/-- `ws::RemoteResource::receive` (ws.rs:126-160): call `web_socket.read()` until it reports
`WouldBlock` (after the repair of F7 there is no other way out of the loop for an open connection) -/
def wsReceive : WsConn → List WsAns → Nat → WsRecv
  | c, _, 0 => { conn := c, outs := [], status := none }
  | c, sched, fuel + 1 =>
    match c.buf with
    | m :: ms =>
      -- a buffered message is returned without touching the socket; Binary goes to the user, anything
      -- else is skipped and the loop goes on
      let r := wsReceive { c with buf := ms } sched fuel
      match m with
      | some data => { r with outs := data :: r.outs }
      | none => r
    | [] =>
      match sched with
      | [] => { conn := c, outs := [], status := none }
      | .wouldBlock :: _ => { conn := c, outs := [], status := some .waitNextEvent }
      | .close :: _ => { conn := c, outs := [], status := some .disconnected }
      | .fill k :: as =>
        let k := max 1 (min k c.sock.length)
        match c.sock.take k with
        | [] => { conn := c, outs := [], status := none }     -- illegal answer: nothing to read
        | m :: ms =>
          let r := wsReceive { sock := c.sock.drop k, buf := ms } as fuel
          match m with
          | some data => { r with outs := data :: r.outs }
          | none => r

def LegalWs : WsConn → List WsAns → Prop
  | _, [] => True
  | c, a :: as =>
    match a with
    | .wouldBlock => c.sock = []
    | .close => True
    | .fill k => 1 ≤ k ∧ k ≤ c.sock.length ∧ LegalWs { sock := c.sock.drop k, buf := [] } as

/-- `ws::RemoteResource::send` (ws.rs:162-187): size check, then one message under the state mutex;
`flushOk = false` models a fatal error while flushing -/
def wsSend (data : Bytes) (flushOk : Bool) : SendStatus × List Bytes :=
  if data.length > wsMaxPayloadLen then (.maxPacketSizeExceeded, [])
  else if flushOk then (.sent, [data]) else (.resourceNotFound, [])

end Mio.Stream

namespace Mio.Stream
open Mio Mio.Generated

/-- WebSocket connection over several poll events: `arrived` complete messages since the last one -/
structure WsPollEv where
  arrived : List WsMsg
  sched : List WsAns

structure WsSt where
  conn : WsConn := {}
  outs : List Bytes := []
  lastStatus : Option ReadStatus := some .waitNextEvent

def wsSession : WsSt → List WsPollEv → WsSt
  | s, [] => s
  | s, e :: es =>
    let c := { s.conn with sock := s.conn.sock ++ e.arrived }
    let r := wsReceive c e.sched (c.sock.length + c.buf.length + e.sched.length + 1)
    wsSession { conn := r.conn, outs := s.outs ++ r.outs, lastStatus := r.status } es

/-- one FramedTcp `send` call made while holding the connection's send lock: the whole frame is one
critical section (framed_tcp.rs:146-148) -/
structure Section where
  thread : Nat
  data : Bytes
  sched : List WAns

/-- what ends up on the wire when the sections run one after the other (lock order) -/
def sectionsWire (ss : List Section) : Bytes := (ss.map fun s => (framedSend s.data s.sched).wire).flatten

end Mio.Stream
