/-! Bytes and the textual codec used by the line protocol (model side).

A *chunk* is written as `-` (empty) or as `.`-separated tokens, each token either an even-length
lowercase hex string or a run `R<hh>*<n>` (n copies of byte hh).  The same syntax is produced and
parsed by the Rust harness (`harness/src/lib.rs`). -/
namespace Mio

abbrev Bytes := List UInt8

def hexVal (c : Char) : Option Nat :=
  if '0' ≤ c ∧ c ≤ '9' then some (c.toNat - '0'.toNat)
  else if 'a' ≤ c ∧ c ≤ 'f' then some (c.toNat - 'a'.toNat + 10)
  else none

def parseHexAux : List Char → Bytes → Option Bytes
  | [], acc => some acc.reverse
  | [_], _ => none
  | a :: b :: rest, acc =>
    match hexVal a, hexVal b with
    | some x, some y => parseHexAux rest (UInt8.ofNat (x * 16 + y) :: acc)
    | _, _ => none

def parseHex (s : String) : Option Bytes := parseHexAux s.toList []

def parseToken (t : String) : Option Bytes :=
  match t.toList with
  | 'R' :: a :: b :: '*' :: n =>
    match hexVal a, hexVal b, (String.ofList n).toNat? with
    | some x, some y, some k => some (List.replicate k (UInt8.ofNat (x * 16 + y)))
    | _, _, _ => none
  | _ => parseHex t

def parseChunk (s : String) : Option Bytes :=
  if s = "-" then some []
  else
    (s.splitOn ".").foldl (fun acc t =>
      match acc, parseToken t with
      | some a, some b => some (a ++ b)
      | _, _ => none) (some [])

def hexDigit (n : Nat) : Char :=
  if n < 10 then Char.ofNat (n + '0'.toNat) else Char.ofNat (n - 10 + 'a'.toNat)

def toHex (bs : Bytes) : String :=
  String.ofList (bs.foldr (fun b acc => hexDigit (b.toNat / 16) :: hexDigit (b.toNat % 16) :: acc) [])

/-- FNV-1a, 64 bit: used only to print long payloads compactly. -/
def fnv1a (bs : Bytes) : UInt64 :=
  bs.foldl (fun h b => (h ^^^ b.toUInt64) * 0x100000001b3) 0xcbf29ce484222325

/-- canonical rendering of a payload: short ones in hex, long ones as length + hash. -/
def showPayload (bs : Bytes) : String :=
  if bs.length ≤ 32 then s!"{bs.length}:{toHex bs}" else s!"{bs.length}:#{(fnv1a bs).toNat}"

end Mio
