/-! # M2a — the listeners' accept loop

Transcribed from `Local::accept` of `adapters/tcp.rs`, `framed_tcp.rs` and `ws.rs` (the three are the
same loop):

    loop { match self.listener.accept() {
        Ok((stream, addr)) => accept_remote(Remote(addr, …)),
        Err(WouldBlock)    => break,
        Err(Interrupted)   => continue,
        Err(err)           => break log::error!(…),
    } }

over the list of answers the kernel gives to the successive `accept()` calls of one readiness event.
The driver (M5, `pollLocal`) assumes that this call returns, with finitely many accepted peers. -/
namespace Mio.Accept

inductive AAns
  | conn (peer : Nat)
  | wouldBlock
  | interrupted
  | error          -- anything else: EMFILE, ENFILE, ENOMEM, ECONNABORTED, …
deriving DecidableEq, Repr

structure Res where
  accepted : List Nat     -- peers handed to the callback, in order
  consumed : Nat          -- `accept()` calls made
  ended : Bool            -- the loop left through a `break` (false: the answers ran out first)
deriving DecidableEq, Repr

def acceptLoop : List AAns → Res
  | [] => ⟨[], 0, false⟩
  | .conn p :: rest => let r := acceptLoop rest; ⟨p :: r.accepted, r.consumed + 1, r.ended⟩
  | .interrupted :: rest => let r := acceptLoop rest; ⟨r.accepted, r.consumed + 1, r.ended⟩
  | .wouldBlock :: _ => ⟨[], 1, true⟩
  | .error :: _ => ⟨[], 1, true⟩

def isStop : AAns → Bool
  | .wouldBlock | .error => true
  | _ => false

def peers : List AAns → List Nat
  | [] => []
  | .conn p :: rest => p :: peers rest
  | _ :: rest => peers rest

end Mio.Accept
