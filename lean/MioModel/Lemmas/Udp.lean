import MioModel.Udp
/-! Invariant of the UDP model M8: per socket, `reported events ++ still queued = accepted by the kernel =
what the send history says was sent to it`, byte for byte and in order. -/
namespace Mio.Udp

/-- the datagram an event stands for: source address as reported in the endpoint, payload -/
def evDgram (e : Ev) : Dgram := ⟨e.ep.addr, e.data⟩

/-- what the history of send calls says socket `j` (of kind `k`) must have been given -/
def expected (log : List SendRec) (j : Nat) (k : Kind) : List Dgram :=
  (log.filter (fun r => decide (r.dst = j) && decide (r.status = .sent) && r.bound && kAccepts k r.src)).map
    (fun r => ⟨r.src, r.data⟩)

/-- what `recv` into the adapter's buffer makes of a queued datagram -/
def cut (d : Dgram) : Dgram := kRecv bufLen d

theorem cutK_src (k : Kind) (d : Dgram) : (cutK k d).src = d.src := by
  cases k <;> rfl

theorem cutK_lib (k : Kind) (hk : k ≠ .raw) (d : Dgram) : cutK k d = cut d := by
  cases k <;> first | rfl | exact absurd rfl hk

structure SockInv (w : World) (j : Nat) (s : Sock) : Prop where
  peer : ∀ p, s.kind = .connected p → ∀ d ∈ s.accepted, d.src = p
  split : s.events.map evDgram ++ s.queue.map (cutK s.kind) = s.accepted.map (cutK s.kind)
  queued : ∀ d ∈ s.queue, d ∈ s.accepted
  rid : ∀ e ∈ s.events, e.ep.rid = j
  exp : s.accepted = expected w.log j s.kind
  srcs : ∀ d ∈ s.accepted, d.src < w.socks.length

structure Inv (w : World) : Prop where
  socks : ∀ j s, w.socks[j]? = some s → SockInv w j s
  bound : ∀ r ∈ w.log, r.bound = true → r.dst < w.socks.length
  kmaxGe : maxLen ≤ w.kmax
  libSmall : ∀ r ∈ w.log, r.viaLibrary = true → r.status = .sent → r.data.length ≤ maxLen

theorem maxLen_le4 : maxLen ≤ kMax4 := by decide
theorem maxLen_le6 : maxLen ≤ kMax6 := by decide
theorem maxLen_le_buf : maxLen ≤ bufLen := by decide

theorem inv_init (v6 : Bool) : Inv (init v6) :=
  ⟨by intro j s h; simp [init] at h, by intro r h; simp [init] at h,
   by cases v6 <;> simp [init, maxLen_le4, maxLen_le6], by intro r h; simp [init] at h⟩

theorem expected_append (log : List SendRec) (r : SendRec) (j : Nat) (k : Kind) :
    expected (log ++ [r]) j k =
      expected log j k ++ (if decide (r.dst = j) && decide (r.status = .sent) && r.bound && kAccepts k r.src
        then [⟨r.src, r.data⟩] else []) := by
  unfold expected
  rw [List.filter_append, List.map_append]
  congr 1
  by_cases h : (decide (r.dst = j) && decide (r.status = .sent) && r.bound && kAccepts k r.src) = true
  · simp [List.filter_cons, h]
  · simp [List.filter_cons, h]

theorem getElem?_enqueue (socks : List Sock) (dst : Nat) (d : Dgram) (j : Nat) :
    (enqueue socks dst d)[j]? =
      if dst = j then (socks[j]?).map (fun s =>
        if s.alive && kAccepts s.kind d.src then { s with queue := s.queue ++ [d], accepted := s.accepted ++ [d] } else s)
      else socks[j]? := by
  unfold enqueue
  rw [List.getElem?_modify]
  by_cases h : dst = j
  · subst h; cases socks[dst]? <;> simp
  · cases socks[j]? <;> simp [h]

theorem length_enqueue (socks : List Sock) (dst : Nat) (d : Dgram) :
    (enqueue socks dst d).length = socks.length := by
  unfold enqueue; simp

theorem deliverable_lt (socks : List Sock) (dst : Nat) (h : deliverable socks dst = true) : dst < socks.length := by
  unfold deliverable at h
  cases hs : socks[dst]? with
  | none => simp [hs] at h
  | some s => exact (List.getElem?_eq_some_iff.mp hs).1

/-- opening a socket -/
theorem inv_open (w : World) (k : Kind) (h : Inv w) :
    Inv { w with socks := w.socks ++ [{ kind := k }] } := by
  constructor
  · intro j s hj
    simp only at hj
    by_cases hlt : j < w.socks.length
    · rw [List.getElem?_append_left hlt] at hj
      have hs := h.socks j s hj
      exact ⟨hs.peer, hs.split, hs.queued, hs.rid, hs.exp, fun d hd => by
        have := hs.srcs d hd; simp only [List.length_append, List.length_cons, List.length_nil]; omega⟩
    · have hge : w.socks.length ≤ j := Nat.le_of_not_lt hlt
      rw [List.getElem?_append_right hge] at hj
      have hj0 : j - w.socks.length = 0 := by
        cases hjj : j - w.socks.length with
        | zero => rfl
        | succ n => rw [hjj] at hj; simp at hj
      rw [hj0] at hj
      simp only [List.getElem?_cons_zero, Option.some.injEq] at hj
      subst hj
      have hjeq : j = w.socks.length := by omega
      refine ⟨by simp, by simp, by simp, by simp, ?_, by simp⟩
      simp only
      unfold expected
      have : w.log.filter (fun r => decide (r.dst = j) && decide (r.status = .sent) && r.bound && kAccepts k r.src) = [] := by
        rw [List.filter_eq_nil_iff]
        intro r hr
        by_cases hb : r.bound = true
        · have := h.bound r hr hb
          have hne : r.dst ≠ j := by omega
          simp [hne]
        · simp [hb]
      rw [this]; rfl
  · intro r hr hb
    have := h.bound r hr hb
    simp only [List.length_append, List.length_cons, List.length_nil]; omega
  · exact h.kmaxGe
  · exact h.libSmall

/-- a send call that reached the kernel and was taken -/
theorem inv_sent (w : World) (src dst : Nat) (data : Bytes) (lib : Bool) (h : Inv w) (hsrc : src < w.socks.length)
    (hlen : lib = true → data.length ≤ maxLen) :
    Inv { w with socks := enqueue w.socks dst ⟨src, data⟩,
                 log := w.log ++ [⟨src, dst, data, .sent, deliverable w.socks dst, lib⟩] } := by
  refine ⟨?_, ?_, h.kmaxGe, ?_⟩
  rotate_left 2
  · intro r hr hl hst
    rcases List.mem_append.mp hr with hr | hr
    · exact h.libSmall r hr hl hst
    · simp only [List.mem_singleton] at hr; subst hr; exact hlen hl
  · intro j s hj
    simp only at hj
    rw [getElem?_enqueue] at hj
    by_cases hd : dst = j
    · subst hd
      simp only [if_true] at hj
      cases hs0 : w.socks[dst]? with
      | none => rw [hs0] at hj; simp at hj
      | some s0 =>
        rw [hs0] at hj
        simp only [Option.map_some, Option.some.injEq] at hj
        have hs := h.socks dst s0 hs0
        have hdlt : dst < w.socks.length := by
          have := List.getElem?_eq_some_iff.mp hs0; exact this.1
        have hdel : deliverable w.socks dst = s0.alive := by simp [deliverable, hs0]
        by_cases hacc : (s0.alive && kAccepts s0.kind src) = true
        · have hal : s0.alive = true := by
            cases ha : s0.alive <;> simp [ha] at hacc ⊢
          have hacc' : kAccepts s0.kind src = true := by
            cases ha : kAccepts s0.kind src <;> simp [ha] at hacc ⊢
          simp only [hacc, if_true] at hj
          subst hj
          refine ⟨?_, ?_, ?_, hs.rid, ?_, ?_⟩
          · intro p hp d hd
            rcases List.mem_append.mp hd with hd | hd
            · exact hs.peer p hp d hd
            · simp only [List.mem_singleton] at hd; subst hd
              simp only at hp
              rw [hp] at hacc'
              simp only [kAccepts, beq_iff_eq] at hacc'
              exact hacc'.symm
          · simp only [List.map_append]; rw [← List.append_assoc, hs.split]
          · intro d hd
            rcases List.mem_append.mp hd with hd | hd
            · exact List.mem_append_left _ (hs.queued d hd)
            · exact List.mem_append_right _ hd
          · simp only
            rw [expected_append, ← hs.exp]
            simp [hdel, hal, hacc']
          · intro d hd
            simp only [length_enqueue]
            rcases List.mem_append.mp hd with hd | hd
            · exact hs.srcs d hd
            · simp only [List.mem_singleton] at hd; subst hd; exact hsrc
        · simp only [hacc] at hj
          simp only [Bool.false_eq_true, if_false] at hj
          subst hj
          refine ⟨hs.peer, hs.split, hs.queued, hs.rid, ?_, ?_⟩
          · simp only
            rw [expected_append, ← hs.exp]
            have : (s0.alive && kAccepts s0.kind src) = false := by simpa using hacc
            simp [hdel, this]
          · intro d hd; simp only [length_enqueue]; exact hs.srcs d hd
    · simp only [hd, if_false] at hj
      have hs := h.socks j s hj
      refine ⟨hs.peer, hs.split, hs.queued, hs.rid, ?_, ?_⟩
      · simp only
        rw [expected_append, ← hs.exp]
        simp [hd]
      · intro d hd'; simp only [length_enqueue]; exact hs.srcs d hd'
  · intro r hr hb
    simp only [length_enqueue]
    rcases List.mem_append.mp hr with hr | hr
    · exact h.bound r hr hb
    · simp only [List.mem_singleton] at hr; subst hr
      exact deliverable_lt _ _ hb

/-- a send call refused before anything was transmitted -/
theorem inv_refused (w : World) (src dst : Nat) (data : Bytes) (st : Status) (lib : Bool) (h : Inv w)
    (hst : st ≠ .sent) :
    Inv { w with socks := w.socks, log := w.log ++ [⟨src, dst, data, st, deliverable w.socks dst, lib⟩] } := by
  refine ⟨?_, ?_, h.kmaxGe, ?_⟩
  rotate_left 2
  · intro r hr hl hs'
    rcases List.mem_append.mp hr with hr | hr
    · exact h.libSmall r hr hl hs'
    · simp only [List.mem_singleton] at hr; subst hr; exact absurd hs' hst
  · intro j s hj
    have hs := h.socks j s hj
    refine ⟨hs.peer, hs.split, hs.queued, hs.rid, ?_, hs.srcs⟩
    simp only
    rw [expected_append, ← hs.exp]
    simp [hst]
  · intro r hr hb
    rcases List.mem_append.mp hr with hr | hr
    · exact h.bound r hr hb
    · simp only [List.mem_singleton] at hr; subst hr
      exact deliverable_lt _ _ hb

/-- a datagram within the declared maximum fits the buffer: nothing is cut -/
theorem cut_of_small (d : Dgram) (h : d.data.length ≤ maxLen) : cut d = d := by
  unfold cut kRecv
  have : d.data.take bufLen = d.data := List.take_of_length_le (Nat.le_trans h maxLen_le_buf)
  rw [this]

theorem recvLoop_map (i : Nat) (k : Kind) (q : List Dgram) :
    recvLoop i k q = q.map (fun d => evOf i k (cutK k d)) := by
  induction q with
  | nil => rfl
  | cons d q ih => simp [recvLoop, ih]

theorem evDgram_evOf (i : Nat) (k : Kind) (d : Dgram) (hp : ∀ p, k = .connected p → d.src = p) :
    evDgram (evOf i k d) = d := by
  cases k with
  | connected p => have := hp p rfl; subst this; rfl
  | listener => rfl
  | raw => rfl

theorem recvLoop_dgrams (i : Nat) (k : Kind) (q : List Dgram)
    (hp : ∀ p, k = .connected p → ∀ d ∈ q, d.src = p) : (recvLoop i k q).map evDgram = q.map (cutK k) := by
  induction q with
  | nil => rfl
  | cons d q ih =>
    rw [recvLoop, List.map_cons, List.map_cons]
    rw [evDgram_evOf i k (cutK k d) (fun p hk => by rw [cutK_src]; exact hp p hk d (List.mem_cons_self ..)),
      ih (fun p hk x hx => hp p hk x (List.mem_cons_of_mem _ hx))]

theorem recvLoop_rid (i : Nat) (k : Kind) (q : List Dgram) : ∀ e ∈ recvLoop i k q, e.ep.rid = i := by
  induction q with
  | nil => intro e he; simp [recvLoop] at he
  | cons d q ih =>
    intro e he
    simp only [recvLoop, List.mem_cons] at he
    rcases he with he | he
    · subst he; cases k <;> rfl
    · exact ih e he

theorem inv_poll (w : World) (i : Nat) (h : Inv w) : Inv (poll w i) := by
  constructor
  · intro j s hj
    unfold poll at hj
    simp only at hj
    rw [List.getElem?_modify] at hj
    cases hs0 : w.socks[j]? with
    | none => rw [hs0] at hj; simp at hj
    | some s0 =>
      rw [hs0] at hj
      simp only [Option.map_eq_map, Option.map_some, Option.some.injEq] at hj
      have hs := h.socks j s0 hs0
      have hlen : (poll w i).socks.length = w.socks.length := by unfold poll; simp
      by_cases hij : i = j
      · subst hij
        simp only [if_true] at hj
        subst hj
        have hq : ∀ d ∈ s0.queue, d ∈ s0.accepted := hs.queued
        refine ⟨hs.peer, ?_, by simp, ?_, hs.exp, fun d hd => by rw [hlen]; exact hs.srcs d hd⟩
        · simp only [List.map_append, List.map_nil, List.append_nil]
          rw [recvLoop_dgrams i s0.kind s0.queue (fun p hk d hd => hs.peer p hk d (hq d hd))]
          exact hs.split
        · intro e he
          rcases List.mem_append.mp he with he | he
          · exact hs.rid e he
          · exact recvLoop_rid i s0.kind s0.queue e he
      · simp only [hij, if_false] at hj
        subst hj
        exact ⟨hs.peer, hs.split, hs.queued, hs.rid, hs.exp, fun d hd => by rw [hlen]; exact hs.srcs d hd⟩
  · intro r hr hb
    have : (poll w i).socks.length = w.socks.length := by unfold poll; simp
    rw [this]; exact h.bound r hr hb
  · exact h.kmaxGe
  · exact h.libSmall

/-- flags that the invariant does not speak about (`alive`, `err`) may change freely -/
theorem inv_flags (w : World) (i : Nat) (f : Sock → Sock)
    (hf : ∀ s, (f s).kind = s.kind ∧ (f s).queue = s.queue ∧ (f s).accepted = s.accepted ∧ (f s).events = s.events)
    (h : Inv w) : Inv { w with socks := w.socks.modify i f } := by
  refine ⟨?_, ?_, h.kmaxGe, h.libSmall⟩
  · intro j s hj
    simp only at hj
    rw [List.getElem?_modify] at hj
    cases hs0 : w.socks[j]? with
    | none => rw [hs0] at hj; simp at hj
    | some s0 =>
      rw [hs0] at hj
      simp only [Option.map_eq_map, Option.map_some, Option.some.injEq] at hj
      have hs := h.socks j s0 hs0
      have key : s.kind = s0.kind ∧ s.queue = s0.queue ∧ s.accepted = s0.accepted ∧ s.events = s0.events := by
        by_cases hij : i = j
        · simp only [hij, if_true] at hj; subst hj; exact hf s0
        · simp only [hij, if_false] at hj; subst hj; exact ⟨rfl, rfl, rfl, rfl⟩
      obtain ⟨k1, k2, k3, k4⟩ := key
      refine ⟨?_, ?_, ?_, ?_, ?_, ?_⟩
      · rw [k1, k3]; exact hs.peer
      · rw [k1, k2, k3, k4]; exact hs.split
      · rw [k2, k3]; exact hs.queued
      · rw [k4]; exact hs.rid
      · rw [k1, k3]; exact hs.exp
      · rw [k3]; intro d hd; simp only [List.length_modify]; exact hs.srcs d hd
  · intro r hr hb
    simp only [List.length_modify]
    exact h.bound r hr hb

theorem deliverable_enqueue_false (socks : List Sock) (dst : Nat) (d : Dgram) (h : deliverable socks dst = false) :
    enqueue socks dst d = socks := by
  unfold enqueue
  unfold deliverable at h
  cases hs : socks[dst]? with
  | none =>
    apply List.ext_getElem?
    intro j
    rw [List.getElem?_modify]
    by_cases hj : dst = j
    · subst hj; simp [hs]
    · cases socks[j]? <;> simp [hj]
  | some s0 =>
    simp only [hs] at h
    apply List.ext_getElem?
    intro j
    rw [List.getElem?_modify]
    by_cases hj : dst = j
    · subst hj; simp [hs, h]
    · cases socks[j]? <;> simp [hj]

theorem inv_sendPacket (conn : Bool) (w : World) (src dst : Nat) (data : Bytes) (h : Inv w) (hsrc : src < w.socks.length) :
    Inv (record w src dst data (sendPacket conn w.kmax w.socks src dst data)).1 := by
  unfold record sendPacket
  by_cases hlen : data.length > maxLen
  · simp only [hlen, if_true]
    exact inv_refused w src dst data .maxPacketSizeExceeded true h (by decide)
  · have hk : ¬ data.length > w.kmax := by have := h.kmaxGe; omega
    simp only [hlen, if_false]
    cases conn with
    | false =>
      simp only [Bool.false_eq_true, if_false, kSend, hk]
      exact inv_sent w src dst data true h hsrc (fun _ => by omega)
    | true =>
      simp only [if_true, kSendConn, hk, if_false]
      by_cases he : hasErr w.socks src = true
      · simp only [he, if_true]
        have h1 := inv_refused w src dst data .resourceNotFound true h (by decide)
        exact inv_flags _ src (fun s => { s with err := false }) (fun s => ⟨rfl, rfl, rfl, rfl⟩) h1
      · simp only [he, Bool.false_eq_true, if_false]
        by_cases hd : deliverable w.socks dst = true
        · simp only [hd, if_true]
          have h1 := inv_sent w src dst data true h hsrc (fun _ => by omega)
          simp only [hd] at h1
          exact h1
        · have hd' : deliverable w.socks dst = false := by simpa using hd
          simp only [hd', Bool.false_eq_true, if_false]
          have h1 := inv_sent w src dst data true h hsrc (fun _ => by omega)
          simp only [hd'] at h1
          exact inv_flags _ src (fun s => { s with err := true }) (fun s => ⟨rfl, rfl, rfl, rfl⟩) h1

theorem inv_send (w : World) (ep : Endpoint) (data : Bytes) (h : Inv w) : Inv (send w ep data).1 := by
  unfold send
  cases hs : w.socks[ep.rid]? with
  | none => exact h
  | some s =>
    have hlt : ep.rid < w.socks.length := (List.getElem?_eq_some_iff.mp hs).1
    simp only
    cases hk : s.kind with
    | listener => simp only; exact inv_sendPacket false w ep.rid ep.addr data h hlt
    | connected p => simp only; exact inv_sendPacket true w ep.rid p data h hlt
    | raw => simp only; exact h

theorem inv_rawSend (w : World) (i dst : Nat) (data : Bytes) (h : Inv w) : Inv (rawSend w i dst data) := by
  unfold rawSend
  cases hs : w.socks[i]? with
  | none => exact h
  | some s =>
    have hlt : i < w.socks.length := (List.getElem?_eq_some_iff.mp hs).1
    simp only [kSend]
    by_cases hlen : data.length > w.kmax
    · simp only [hlen, if_true]
      exact inv_refused w i dst data .maxPacketSizeExceeded false h (by decide)
    · simp only [hlen, if_false]
      exact inv_sent w i dst data false h hlt (fun hf => by simp at hf)

theorem inv_step (w : World) (a : Act) (h : Inv w) : Inv (step w a) := by
  cases a with
  | openListener => exact inv_open w .listener h
  | openConnected p => exact inv_open w (.connected p) h
  | openRaw => exact inv_open w .raw h
  | send ep data => exact inv_send w ep data h
  | rawSend i dst data => exact inv_rawSend w i dst data h
  | poll i => exact inv_poll w i h
  | close i =>
    exact inv_flags _ i (fun s => { s with alive := false }) (fun s => ⟨rfl, rfl, rfl, rfl⟩) (inv_poll w i h)
  | reopen i =>
    exact inv_flags _ i (fun s => { s with alive := true }) (fun s => ⟨rfl, rfl, rfl, rfl⟩) h

theorem inv_run (acts : List Act) : ∀ (w : World), Inv w → Inv (run w acts) := by
  induction acts with
  | nil => intro w h; exact h
  | cons a as ih => intro w h; exact ih _ (inv_step w a h)

theorem reachable_inv (w : World) (h : Reachable w) : Inv w := by
  obtain ⟨v6, acts, rfl⟩ := h
  exact inv_run acts _ (inv_init v6)

end Mio.Udp
