import MioModel.Lemmas.Node
/-! Order of the network events handed to the callback (C15). -/
namespace Mio.Node

/-- `up`: events in the pipeline; `nl`: number of the next event to be produced; `lg`: events already
handed to the callback; `chk`: the network thread has tested `is_running()` and is about to call back -/
def OCore (up : List Nat) (nl : Nat) (lg : List Nat) (running chk : Bool) : Prop :=
  up.length ≤ nl ∧ up = List.range' (nl - up.length) up.length ∧ lg = List.range lg.length ∧
  lg.length ≤ nl - up.length ∧ (running = true → lg.length = nl - up.length) ∧
  (chk = true → lg.length = nl - up.length)

theorem OCore_same (up : List Nat) (nl : Nat) (lg : List Nat) (r c r' c' : Bool) (h : OCore up nl lg r c)
    (hr : r' = true → r = true) (hc : c' = true → r = true ∨ c = true) : OCore up nl lg r' c' := by
  obtain ⟨h1, h2, h3, h4, h5, h6⟩ := h
  refine ⟨h1, h2, h3, h4, fun x => h5 (hr x), fun x => ?_⟩
  rcases hc x with y | y
  · exact h5 y
  · exact h6 y

theorem OCore_skip (x : Nat) (up : List Nat) (nl : Nat) (lg : List Nat) (c : Bool)
    (h : OCore (x :: up) nl lg false c) : OCore up nl lg false false := by
  obtain ⟨h1, h2, h3, h4, _, _⟩ := h
  simp only [List.length_cons] at h1 h2 h4
  have e : nl - (up.length + 1) + 1 = nl - up.length := by omega
  rw [List.range'_succ] at h2
  simp only [List.cons.injEq] at h2
  refine ⟨by omega, ?_, h3, by omega, by simp, by simp⟩
  rw [← e]; exact h2.2

theorem OCore_log (x : Nat) (up : List Nat) (nl : Nat) (lg : List Nat) (r : Bool)
    (h : OCore (x :: up) nl lg r true) : OCore up nl (lg ++ [x]) r false := by
  obtain ⟨h1, h2, h3, h4, _, h6⟩ := h
  simp only [List.length_cons] at h1 h2 h4 h6
  have hl := h6 trivial
  have e : nl - (up.length + 1) + 1 = nl - up.length := by omega
  rw [List.range'_succ] at h2
  simp only [List.cons.injEq] at h2
  have hx : x = lg.length := by rw [h2.1, hl]
  refine ⟨by omega, ?_, ?_, ?_, ?_, by simp⟩
  · rw [← e]; exact h2.2
  · simp only [List.length_append, List.length_singleton]
    rw [List.range_succ, ← h3, hx]
  · simp only [List.length_append, List.length_singleton]; omega
  · intro _; simp only [List.length_append, List.length_singleton]; omega

theorem OCore_poll (nl : Nat) (lg : List Nat) (r c : Bool) (k : Nat) (h : OCore [] nl lg r c) :
    OCore ((List.range k).map (· + nl)) (nl + k) lg r false := by
  obtain ⟨_, _, h3, h4, h5, _⟩ := h
  simp only [List.length_nil, Nat.sub_zero] at h4 h5
  have hlen : ((List.range k).map (· + nl)).length = k := by simp
  refine ⟨by rw [hlen]; omega, ?_, h3, ?_, ?_, by simp⟩
  · rw [hlen]
    have : nl + k - k = nl := by omega
    rw [this]
    apply List.ext_getElem
    · simp
    · intro i h1 h2
      simp [List.getElem_range', Nat.add_comm]
  · rw [hlen]; omega
  · intro hr; rw [hlen]; have := h5 hr; omega

structure OInv (s : St) : Prop where
  core : OCore (upcoming s) s.nextLive (netLog s) s.running (isChecked s.pcN)

theorem netLog_append_net (log : List (Owner × Item)) (o : Owner) (e : Nat) :
    (log ++ [(o, Item.net e)]).filterMap netOf = log.filterMap netOf ++ [e] := by
  simp [List.filterMap_append, netOf]

theorem netLog_append_sig (log : List (Owner × Item)) (o : Owner) (e : Nat) :
    (log ++ [(o, Item.sig e)]).filterMap netOf = log.filterMap netOf := by
  simp [List.filterMap_append, netOf]

theorem OInv_init (mode : Mode) (c : Nat) : OInv (init mode c) := by
  constructor
  have hl : (List.range c).length = c := List.length_range
  simp only [upcoming, init, heldN, netLog, List.nil_append, List.append_nil, List.filterMap_nil,
    List.length_nil, isChecked]
  have hn : ([] : List Nat).length = 0 := rfl
  refine ⟨by omega, ?_, rfl, by omega, by intro _; omega, by simp⟩
  rw [hl, Nat.sub_self, List.range_eq_range']

/-- only the network thread moves network events; the signal thread appends signal items -/
theorem oinv_sig (s s' : St) (arrives : Bool) (h : OInv s) (hst : Struct s) (hs : step s (.sig arrives) = some s') :
    OInv s' := by
  have hcore := h.core
  have hso := hst.sigOnlyS
  simp only [step, stepSig] at hs
  cases hpc : s.pcS <;> simp only [hpc] at hs hso
  all_goals (try (simp at hs; done))
  all_goals (
    (repeat' (split at hs)) <;>
    (first
      | (simp at hs; done)
      | (simp only [Option.some.injEq] at hs; subst hs; exact ⟨by simpa [upcoming, netLog] using hcore⟩)
      | skip))
  -- the one step that appends to the log: `checked e → inCb e` with a signal item
  all_goals (
    rename_i e
    cases e with
    | net n => simp [sigOnly, isNet] at hso
    | sig n =>
      simp only [Option.some.injEq] at hs; subst hs
      constructor
      simp only [upcoming, netLog]
      rw [netLog_append_sig]
      exact hcore)

theorem oinv_net (s s' : St) (poll : Nat) (h : OInv s) (hst : Struct s) (hs : step s (.net poll) = some s') :
    OInv s' := by
  have hcore : OCore (heldN s.pcN ++ s.cache ++ s.pending) s.nextLive (s.log.filterMap netOf) s.running
      (isChecked s.pcN) := h.core
  obtain ⟨hno, _, hlc, hrp, _⟩ := hst
  simp only [step, stepNet] at hs
  cases hpc : s.pcN with
  | notStarted => simp [hpc] at hs
  | done => simp [hpc] at hs
  | rTop =>
    simp only [hpc] at hs
    have hpend : s.pending = [] := hrp (by simp [hpc, inReplay])
    rw [hpc, hpend] at hcore
    simp only [heldN, List.nil_append, List.append_nil, isChecked] at hcore
    cases hc : s.cache with
    | nil =>
      simp only [hc] at hs hcore
      cases hm : s.mode <;> simp only [hm, Option.some.injEq] at hs <;> subst hs <;>
        exact ⟨by simpa [upcoming, heldN, hc, hpend, netLog, isChecked] using hcore⟩
    | cons e rest =>
      simp only [hc] at hs hcore
      cases hm : s.mode with
      | sync =>
        simp only [hm] at hs
        by_cases hr : s.running = true
        · simp only [hr, if_true, Option.some.injEq] at hs; subst hs
          refine ⟨?_⟩
          simp only [upcoming, heldN, netLog, isChecked, hpend, List.append_nil, List.singleton_append]
          exact OCore_same _ _ _ _ _ _ _ hcore (fun _ => hr) (fun _ => Or.inl hr)
        · have hr' : s.running = false := by simpa using hr
          simp only [hr', Bool.false_eq_true, if_false, Option.some.injEq] at hs; subst hs
          refine ⟨?_⟩
          simp only [upcoming, heldN, netLog, isChecked, hpend, List.append_nil, List.nil_append, hr']
          rw [hr'] at hcore
          exact OCore_skip e rest _ _ _ hcore
      | async =>
        simp only [hm, Option.some.injEq] at hs; subst hs
        refine ⟨?_⟩
        simp only [upcoming, heldN, netLog, isChecked, hpend, List.append_nil, List.singleton_append]
        exact OCore_same _ _ _ _ _ _ _ hcore (fun x => x) (fun x => by simp at x)
  | rWant e =>
    simp only [hpc] at hs
    split at hs
    · simp only [Option.some.injEq] at hs; subst hs
      rw [hpc] at hcore
      exact ⟨by simpa [upcoming, heldN, netLog, isChecked] using hcore⟩
    · simp at hs
  | rLocked e =>
    simp only [hpc] at hs
    rw [hpc] at hcore
    simp only [heldN, isChecked, List.singleton_append, List.cons_append, List.nil_append] at hcore
    by_cases hr : s.running = true
    · simp only [hr, if_true, Option.some.injEq] at hs; subst hs
      refine ⟨?_⟩
      simp only [upcoming, heldN, netLog, isChecked, List.singleton_append, List.cons_append, List.nil_append]
      exact OCore_same _ _ _ _ _ _ _ hcore (fun _ => hr) (fun _ => Or.inl hr)
    · have hr' : s.running = false := by simpa using hr
      simp only [hr', Bool.false_eq_true, if_false, Option.some.injEq] at hs; subst hs
      refine ⟨?_⟩
      simp only [upcoming, heldN, netLog, isChecked, List.nil_append, hr']
      rw [hr'] at hcore
      exact OCore_skip e _ _ _ _ hcore
  | rChecked e =>
    simp only [hpc, Option.some.injEq] at hs; subst hs
    rw [hpc] at hcore
    simp only [heldN, isChecked, List.singleton_append, List.cons_append, List.nil_append] at hcore
    refine ⟨?_⟩
    simp only [upcoming, heldN, netLog, isChecked, List.nil_append]
    rw [netLog_append_net]
    exact OCore_log e _ _ _ _ hcore
  | rInCb e =>
    simp only [hpc] at hs
    rw [hpc] at hcore
    cases hm : s.mode <;> simp only [hm, Option.some.injEq] at hs <;> subst hs <;>
      exact ⟨by simpa [upcoming, heldN, netLog, isChecked] using hcore⟩
  | idle =>
    simp only [hpc] at hs
    rw [hpc] at hcore
    split at hs <;> (simp only [Option.some.injEq] at hs; subst hs
                     exact ⟨by simpa [upcoming, heldN, netLog, isChecked] using hcore⟩)
  | fetch =>
    simp only [hpc] at hs
    have hcache : s.cache = [] := hlc (by simp [hpc, inLoop])
    rw [hpc, hcache] at hcore
    simp only [heldN, isChecked, List.nil_append] at hcore
    cases hp : s.pending with
    | cons e rest =>
      simp only [hp, Option.some.injEq] at hs; subst hs
      rw [hp] at hcore
      refine ⟨?_⟩
      simp only [upcoming, heldN, netLog, isChecked, hcache, List.nil_append, List.append_nil, List.singleton_append]
      exact OCore_same _ _ _ _ _ _ _ hcore (fun x => x) (fun x => by simp at x)
    | nil =>
      simp only [hp] at hs hcore
      by_cases hz : poll = 0
      · simp only [hz, if_true, Option.some.injEq] at hs; subst hs
        exact ⟨by simpa [upcoming, heldN, netLog, isChecked, hcache, hp] using hcore⟩
      · simp only [hz, if_false] at hs
        have hpoll := OCore_poll s.nextLive (s.log.filterMap netOf) s.running false poll hcore
        cases hb : (List.range poll).map (· + s.nextLive) with
        | nil =>
          have : ((List.range poll).map (· + s.nextLive)).length = poll := by simp
          rw [hb] at this; simp at this; omega
        | cons e rest =>
          simp only [hb, Option.some.injEq] at hs; subst hs
          rw [hb] at hpoll
          refine ⟨?_⟩
          simp only [upcoming, heldN, netLog, isChecked, hcache, List.nil_append, List.singleton_append]
          exact hpoll
  | want e =>
    simp only [hpc] at hs
    split at hs
    · simp only [Option.some.injEq] at hs; subst hs
      rw [hpc] at hcore
      cases e <;> exact ⟨by simpa [upcoming, heldN, netLog, isChecked] using hcore⟩
    · simp at hs
  | locked e =>
    simp only [hpc] at hs
    rw [hpc] at hcore hno
    cases e with
    | sig n => simp [netOnly, isNet] at hno
    | net n =>
      simp only [heldN, isChecked, List.singleton_append, List.cons_append, List.nil_append] at hcore
      by_cases hr : s.running = true
      · simp only [hr, if_true, Option.some.injEq] at hs; subst hs
        refine ⟨?_⟩
        simp only [upcoming, heldN, netLog, isChecked, List.singleton_append, List.cons_append, List.nil_append]
        exact OCore_same _ _ _ _ _ _ _ hcore (fun _ => hr) (fun _ => Or.inl hr)
      · have hr' : s.running = false := by simpa using hr
        simp only [hr', Bool.false_eq_true, if_false, Option.some.injEq] at hs; subst hs
        rw [hr'] at hcore
        have hskip := OCore_skip n _ _ _ _ hcore
        refine ⟨?_⟩
        split <;> simpa [upcoming, heldN, netLog, isChecked, hr'] using hskip
  | checked e =>
    simp only [hpc, Option.some.injEq] at hs; subst hs
    rw [hpc] at hcore hno
    cases e with
    | sig n => simp [netOnly, isNet] at hno
    | net n =>
      simp only [heldN, isChecked, List.singleton_append, List.cons_append, List.nil_append] at hcore
      refine ⟨?_⟩
      simp only [upcoming, heldN, netLog, isChecked, List.nil_append]
      rw [netLog_append_net]
      exact OCore_log n _ _ _ _ hcore
  | inCb e =>
    simp only [hpc, Option.some.injEq] at hs; subst hs
    rw [hpc] at hcore
    refine ⟨?_⟩
    split <;> simpa [upcoming, heldN, netLog, isChecked] using hcore

theorem step_oinv (s s' : St) (a : Act) (h : OInv s) (hst : Struct s) (hs : step s a = some s') : OInv s' := by
  cases a with
  | start =>
    simp only [step] at hs
    split at hs
    · rename_i hns
      have hcore := h.core
      cases hm : s.mode <;> simp only [hm, Option.some.injEq] at hs <;> subst hs <;>
        exact ⟨by simpa [upcoming, heldN, hns, netLog, isChecked] using hcore⟩
    · simp at hs
  | callerRelease =>
    simp only [step] at hs
    split at hs
    · simp only [Option.some.injEq] at hs; subst hs; exact ⟨h.core⟩
    · simp at hs
  | net poll => exact oinv_net s s' poll h hst hs
  | sig arrives => exact oinv_sig s s' arrives h hst hs
  | stopIn t =>
    cases t <;> simp only [step] at hs <;>
      (split at hs
       · simp only [Option.some.injEq] at hs; subst hs
         exact ⟨OCore_same _ _ _ _ _ _ _ h.core (by simp) (fun x => Or.inr x)⟩
       · simp at hs)
  | stopExt =>
    simp only [step, Option.some.injEq] at hs; subst hs
    exact ⟨OCore_same _ _ _ _ _ _ _ h.core (by simp) (fun x => Or.inr x)⟩

theorem reachable_oinv (mode : Mode) (c : Nat) (s : St) (h : Reachable mode c s) : OInv s := by
  obtain ⟨acts, hr⟩ := h
  have : OInv s ∧ Struct s := by
    refine run_preserves (P := fun s => OInv s ∧ Struct s) ?_ acts _ s ⟨OInv_init mode c, Struct_init mode c⟩ hr
    intro s s' a ⟨h1, h2⟩ hs
    exact ⟨step_oinv s s' a h1 h2 hs, step_struct s s' a h2 hs⟩
  exact this.1

end Mio.Node
