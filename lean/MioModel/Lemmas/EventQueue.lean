import MioModel.EventQueue
/-! Helper lemmas for M3: key order, the sorted timer map, folding of timer commands. -/
namespace Mio.EvQ
variable {E : Type}

theorem Key.lt_iff (a b : Key) :
    a.lt b = true ↔ a.deadline < b.deadline ∨ (a.deadline = b.deadline ∧ a.seq < b.seq) := by
  simp [Key.lt]

theorem Key.lt_irrefl (a : Key) : a.lt a = false := by
  cases h : a.lt a
  · rfl
  · rw [Key.lt_iff] at h; omega

theorem Key.lt_trans {a b c : Key} (h1 : a.lt b = true) (h2 : b.lt c = true) : a.lt c = true := by
  rw [Key.lt_iff] at *; omega

theorem Key.lt_asymm {a b : Key} (h1 : a.lt b = true) : b.lt a = false := by
  cases h : b.lt a
  · rfl
  · rw [Key.lt_iff] at *; omega

theorem Key.ext' {a b : Key} (h1 : a.deadline = b.deadline) (h2 : a.seq = b.seq) : a = b := by
  cases a; cases b; simp_all

theorem Key.lt_total {a b : Key} (h : a ≠ b) : a.lt b = true ∨ b.lt a = true := by
  rw [Key.lt_iff, Key.lt_iff]
  by_cases h1 : a.deadline = b.deadline
  · by_cases h2 : a.seq = b.seq
    · exact absurd (Key.ext' h1 h2) h
    · omega
  · omega

theorem Key.lt_deadline_le {a b : Key} (h : a.lt b = true) : a.deadline ≤ b.deadline := by
  rw [Key.lt_iff] at h; omega

/-- the timer map is strictly sorted by key (what a `BTreeMap` iterates as) -/
def Sorted (ts : List (Key × E)) : Prop := List.Pairwise (fun a b => a.1.lt b.1 = true) ts

theorem Sorted_nil : Sorted ([] : List (Key × E)) := List.Pairwise.nil

theorem mem_insert_weak (k : Key) (e : E) : ∀ (ts : List (Key × E)) (p : Key × E),
    p ∈ insert k e ts → p = (k, e) ∨ p ∈ ts := by
  intro ts
  induction ts with
  | nil => intro p h; simp [insert] at h; exact Or.inl h
  | cons t ts ih =>
    intro p h
    obtain ⟨k', e'⟩ := t
    simp only [insert] at h
    split at h
    · rcases List.mem_cons.mp h with h | h
      · exact Or.inl h
      · exact Or.inr (List.mem_cons_of_mem _ h)
    · split at h
      · rcases List.mem_cons.mp h with h | h
        · exact Or.inl h
        · exact Or.inr h
      · rcases List.mem_cons.mp h with h | h
        · exact Or.inr (by rw [h]; exact List.mem_cons_self)
        · rcases ih p h with h | h
          · exact Or.inl h
          · exact Or.inr (List.mem_cons_of_mem _ h)

theorem mem_insert_self (k : Key) (e : E) : ∀ (ts : List (Key × E)), (k, e) ∈ insert k e ts := by
  intro ts
  induction ts with
  | nil => simp [insert]
  | cons t ts ih =>
    obtain ⟨k', e'⟩ := t
    simp only [insert]
    split
    · exact List.mem_cons_self
    · split
      · exact List.mem_cons_self
      · exact List.mem_cons_of_mem _ ih

theorem mem_insert_of_ne (k : Key) (e : E) : ∀ (ts : List (Key × E)) (p : Key × E),
    p ∈ ts → p.1 ≠ k → p ∈ insert k e ts := by
  intro ts
  induction ts with
  | nil => intro p h; simp at h
  | cons t ts ih =>
    intro p h hne
    obtain ⟨k', e'⟩ := t
    simp only [insert]
    split
    · rename_i hk
      rcases List.mem_cons.mp h with h | h
      · subst h; exact absurd hk.symm hne
      · exact List.mem_cons_of_mem _ h
    · split
      · exact List.mem_cons_of_mem _ h
      · rcases List.mem_cons.mp h with h | h
        · rw [h]; exact List.mem_cons_self
        · exact List.mem_cons_of_mem _ (ih p h hne)

theorem insert_sorted (k : Key) (e : E) : ∀ (ts : List (Key × E)), Sorted ts → Sorted (insert k e ts) := by
  intro ts
  induction ts with
  | nil => intro _; simp [insert, Sorted]
  | cons t ts ih =>
    intro hs
    obtain ⟨k', e'⟩ := t
    unfold Sorted at hs
    rw [List.pairwise_cons] at hs
    obtain ⟨hhead, htail⟩ := hs
    simp only [insert]
    split
    · rename_i hk
      subst hk
      unfold Sorted; rw [List.pairwise_cons]; exact ⟨hhead, htail⟩
    · rename_i hk
      split
      · rename_i hlt
        unfold Sorted; rw [List.pairwise_cons]
        refine ⟨?_, List.pairwise_cons.mpr ⟨hhead, htail⟩⟩
        intro p hp
        rcases List.mem_cons.mp hp with hp | hp
        · rw [hp]; exact hlt
        · exact Key.lt_trans hlt (hhead p hp)
      · rename_i hnlt
        have hlt' : k'.lt k = true := by
          rcases Key.lt_total hk with h | h
          · exact absurd h hnlt
          · exact h
        unfold Sorted; rw [List.pairwise_cons]
        refine ⟨?_, ih htail⟩
        intro p hp
        rcases mem_insert_weak k e ts p hp with hp | hp
        · rw [hp]; exact hlt'
        · exact hhead p hp

theorem remove_sorted (k : Key) (ts : List (Key × E)) (h : Sorted ts) : Sorted (remove k ts) :=
  List.Pairwise.filter _ h

theorem mem_remove (k : Key) (ts : List (Key × E)) (p : Key × E) :
    p ∈ remove k ts ↔ p ∈ ts ∧ p.1 ≠ k := by
  simp [remove]

theorem applyCmd_sorted (ts : List (Key × E)) (c : Key × Cmd E) (h : Sorted ts) :
    Sorted (applyCmd ts c) := by
  unfold applyCmd
  split
  · exact insert_sorted _ _ _ h
  · exact remove_sorted _ _ h

theorem foldCmds_sorted : ∀ (cs : List (Key × Cmd E)) (ts : List (Key × E)), Sorted ts →
    Sorted (foldCmds ts cs) := by
  intro cs
  induction cs with
  | nil => intro ts h; exact h
  | cons c cs ih => intro ts h; exact ih _ (applyCmd_sorted ts c h)

theorem foldCmds_append (ts : List (Key × E)) (a b : List (Key × Cmd E)) :
    foldCmds ts (a ++ b) = foldCmds (foldCmds ts a) b := by
  simp [foldCmds, List.foldl_append]

/-- the head of the sorted map has the smallest key -/
theorem head_min (k : Key) (e : E) (ts : List (Key × E)) (h : Sorted ((k, e) :: ts)) :
    ∀ p ∈ (k, e) :: ts, p.1 = k ∨ k.lt p.1 = true := by
  unfold Sorted at h
  rw [List.pairwise_cons] at h
  intro p hp
  rcases List.mem_cons.mp hp with hp | hp
  · exact Or.inl (by rw [hp])
  · exact Or.inr (h.1 p hp)

theorem head_deadline_min (k : Key) (e : E) (ts : List (Key × E)) (h : Sorted ((k, e) :: ts)) :
    ∀ p ∈ (k, e) :: ts, k.deadline ≤ p.1.deadline := by
  intro p hp
  rcases head_min k e ts h p hp with h | h
  · rw [h]; exact Nat.le_refl _
  · exact Key.lt_deadline_le h

theorem sorted_tail (t : Key × E) (ts : List (Key × E)) (h : Sorted (t :: ts)) : Sorted ts := by
  unfold Sorted at *; exact (List.pairwise_cons.mp h).2

end Mio.EvQ
