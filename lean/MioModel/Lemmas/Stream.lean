import MioModel.Stream
import MioModel.Lemmas.Decoder
/-! Helper lemmas for M2 (send loops, receive loops, sessions, the WebSocket loop). -/
namespace Mio.Stream
open Mio Mio.Generated

/-! ### send loops -/

theorem take_min_prefix {α} (l : List α) (k : Nat) : l.take (min k l.length) = l.take k := by
  by_cases h : k ≤ l.length
  · rw [Nat.min_eq_left h]
  · rw [Nat.min_eq_right (by omega), List.take_length, List.take_of_length_le (by omega)]

theorem tcpSendLoop_wire (data : Bytes) : ∀ (sched : List WAns) (sent : Nat), sent ≤ data.length →
    (tcpSendLoop data sent sched).wire <+: data.drop sent ∧
    ((tcpSendLoop data sent sched).status = some .sent → (tcpSendLoop data sent sched).wire = data.drop sent) := by
  intro sched
  induction sched with
  | nil => intro sent _; simp [tcpSendLoop]
  | cons a as ih =>
    intro sent hs
    cases a with
    | wouldBlock => simpa [tcpSendLoop] using ih sent hs
    | error => simp [tcpSendLoop]
    | accept k =>
      simp only [tcpSendLoop]
      have hlen : (data.drop sent).length = data.length - sent := by simp
      split
      · rename_i heq
        rw [hlen] at heq ⊢
        have hk : min k (data.length - sent) = data.length - sent := by omega
        refine ⟨?_, fun _ => ?_⟩ <;> simp only [hk] <;> rw [← hlen, List.take_length]
        exact List.prefix_refl _
      · rename_i hne
        rw [hlen] at hne
        generalize hk' : min k (data.drop sent).length = k' at *
        have hk'le : k' ≤ data.length - sent := by rw [← hk', hlen]; omega
        have hle : sent + k' ≤ data.length := by omega
        obtain ⟨h1, h2⟩ := ih (sent + k') hle
        have hb : data.drop (sent + k') = (data.drop sent).drop k' := by rw [List.drop_drop]
        constructor
        · simp only
          rw [hb] at h1
          have := (List.prefix_append_right_inj ((data.drop sent).take k')).mpr h1
          rwa [List.take_append_drop] at this
        · intro hst
          simp only at hst ⊢
          rw [h2 hst, hb, List.take_append_drop]

/-- the slice `framed_tcp::send` hands to `write` is the head of what is left of `prefix ++ data` -/
theorem framed_buf (pre data : Bytes) (sent k : Nat) (hs : sent ≤ pre.length + data.length) :
    let buf := if sent < pre.length then pre.drop sent else data.drop (sent - pre.length)
    buf.take (min k buf.length) = ((pre ++ data).drop sent).take (min k buf.length) ∧
      min k buf.length ≤ (pre ++ data).length - sent := by
  simp only
  split
  · rename_i hlt
    constructor
    · rw [List.drop_append_of_le_length (by omega), List.take_append_of_le_length (by simp; omega)]
    · simp; omega
  · rename_i hge
    have : (pre ++ data).drop sent = data.drop (sent - pre.length) := by
      rw [List.drop_append]
      have : pre.drop sent = [] := List.drop_eq_nil_of_le (by omega)
      rw [this]; simp
    constructor
    · rw [this]
    · simp; omega

theorem framedSendLoop_wire (pre data : Bytes) : ∀ (sched : List WAns) (sent : Nat),
    sent ≤ pre.length + data.length →
    (framedSendLoop pre data sent sched).wire <+: (pre ++ data).drop sent ∧
    ((framedSendLoop pre data sent sched).status = some .sent →
      (framedSendLoop pre data sent sched).wire = (pre ++ data).drop sent) := by
  intro sched
  induction sched with
  | nil => intro sent _; simp [framedSendLoop]
  | cons a as ih =>
    intro sent hs
    cases a with
    | wouldBlock => simpa [framedSendLoop] using ih sent hs
    | error => simp [framedSendLoop]
    | accept k =>
      simp only [framedSendLoop]
      obtain ⟨hb1, hb2⟩ := framed_buf pre data sent k hs
      generalize hbuf : (if sent < pre.length then pre.drop sent else data.drop (sent - pre.length)) = buf at *
      generalize hk' : min k buf.length = k' at *
      have htl : (pre ++ data).length = pre.length + data.length := by simp
      split
      · rename_i heq
        have hk : k' = (pre ++ data).length - sent := by omega
        have hfull : ((pre ++ data).drop sent).take k' = (pre ++ data).drop sent := by
          rw [hk]; apply List.take_of_length_le; simp
        rw [hb1, hfull]
        exact ⟨List.prefix_refl _, fun _ => rfl⟩
      · rename_i hne
        have hle : sent + k' ≤ pre.length + data.length := by omega
        obtain ⟨h1, h2⟩ := ih (sent + k') hle
        have hb : (pre ++ data).drop (sent + k') = ((pre ++ data).drop sent).drop k' := by
          rw [List.drop_drop]
        constructor
        · simp only
          rw [hb] at h1
          have := (List.prefix_append_right_inj (((pre ++ data).drop sent).take k')).mpr h1
          rw [List.take_append_drop] at this
          rw [hb1]; exact this
        · intro hst
          simp only at hst ⊢
          rw [h2 hst, hb, hb1, List.take_append_drop]

/-! ### receive loops -/

theorem recvLoop_conservation {σ : Type} (cap : Nat) (consume : σ → Bytes → Option (σ × List Bytes))
    (hcons : ∀ st c st' outs, consume st c = some (st', outs) → True) :
    True := trivial

/-- raw Tcp: the callbacks are exactly the consumed bytes, cut into non-empty pieces of at most the
buffer size -/
theorem tcp_recv_chunks (cap : Nat) : ∀ (sched : List RAns) (rx : Bytes) (fin : Bool),
    LegalR cap rx fin sched →
    let r := recvLoop cap (fun (_ : Unit) c => some ((), [c])) () rx sched
    r.outs.flatten ++ r.rx = rx ∧ (∀ o ∈ r.outs, 1 ≤ o.length ∧ o.length ≤ cap) ∧ r.panicked = false := by
  intro sched
  induction sched with
  | nil => intro rx fin _; simp [recvLoop]
  | cons a as ih =>
    intro rx fin hl
    cases a with
    | interrupted => simpa [recvLoop] using ih rx fin (by simpa [LegalR] using hl)
    | wouldBlock => simp [recvLoop]
    | eof => simp [recvLoop]
    | reset => simp [recvLoop]
    | error => simp [recvLoop]
    | take k =>
      simp only [LegalR] at hl
      obtain ⟨h1, h2, h3⟩ := hl
      have hk : min k (min cap rx.length) = k := by omega
      simp only [recvLoop, hk]
      obtain ⟨i1, i2, i3⟩ := ih (rx.drop k) fin h3
      refine ⟨?_, ?_, i3⟩
      · simp only [List.singleton_append, List.flatten_cons, List.append_assoc]
        rw [i1, List.take_append_drop]
      · intro o ho
        simp only [List.singleton_append, List.mem_cons] at ho
        rcases ho with ho | ho
        · subst ho; simp; omega
        · exact i2 o ho

/-- an edge-triggered read event is never left half-consumed: `WaitNextEvent` means the socket was
read until nothing was left (for every consumer) -/
theorem recv_drains {σ : Type} (cap : Nat) (consume : σ → Bytes → Option (σ × List Bytes)) :
    ∀ (sched : List RAns) (st : σ) (rx : Bytes) (fin : Bool), LegalR cap rx fin sched →
    (recvLoop cap consume st rx sched).status = some .waitNextEvent →
    (recvLoop cap consume st rx sched).rx = [] := by
  intro sched
  induction sched with
  | nil => intro st rx fin _ h; simp [recvLoop] at h
  | cons a as ih =>
    intro st rx fin hl h
    cases a with
    | interrupted =>
      simp only [recvLoop] at h ⊢
      exact ih st rx fin (by simpa [LegalR] using hl) h
    | wouldBlock => simp only [LegalR] at hl; simp [recvLoop, hl]
    | eof => simp [recvLoop] at h
    | reset => simp [recvLoop] at h
    | error => simp [recvLoop] at h
    | take k =>
      simp only [LegalR] at hl
      obtain ⟨h1, h2, h3⟩ := hl
      have hk : min k (min cap rx.length) = k := by omega
      simp only [recvLoop, hk] at h ⊢
      cases hc : consume st (rx.take k) with
      | none => simp [hc] at h
      | some p =>
        obtain ⟨st', outs⟩ := p
        simp only [hc] at h ⊢
        exact ih st' (rx.drop k) fin h3 h

/-- FramedTcp: whatever the read schedule, the decoder is fed the consumed bytes in order, cut into
chunks, and never panics on a state satisfying the decoder invariant -/
theorem framed_recv_feed (cap : Nat) : ∀ (sched : List RAns) (dec rx : Bytes) (fin : Bool),
    LegalR cap rx fin sched → DecInv dec →
    let r := recvLoop cap (fun st c => decode st c) dec rx sched
    r.panicked = false ∧ DecInv r.st ∧
      ∃ chunks, chunks.flatten ++ r.rx = rx ∧ feed dec chunks = some (r.st, r.outs) := by
  intro sched
  induction sched with
  | nil => intro dec rx fin _ hi; exact ⟨rfl, hi, [], by simp [recvLoop], by simp [recvLoop, feed]⟩
  | cons a as ih =>
    intro dec rx fin hl hi
    cases a with
    | interrupted => simpa [recvLoop] using ih dec rx fin (by simpa [LegalR] using hl) hi
    | wouldBlock => exact ⟨rfl, hi, [], by simp [recvLoop], by simp [recvLoop, feed]⟩
    | eof => exact ⟨rfl, hi, [], by simp [recvLoop], by simp [recvLoop, feed]⟩
    | reset => exact ⟨rfl, hi, [], by simp [recvLoop], by simp [recvLoop, feed]⟩
    | error => exact ⟨rfl, hi, [], by simp [recvLoop], by simp [recvLoop, feed]⟩
    | take k =>
      simp only [LegalR] at hl
      obtain ⟨h1, h2, h3⟩ := hl
      have hk : min k (min cap rx.length) = k := by omega
      obtain ⟨st', outs, hd, hi'⟩ := decode_total dec (rx.take k) hi
      obtain ⟨i1, i2, chunks, i3, i4⟩ := ih st' (rx.drop k) fin h3 hi'
      simp only [recvLoop, hk, hd]
      refine ⟨i1, i2, rx.take k :: chunks, ?_, ?_⟩
      · simp only [List.flatten_cons, List.append_assoc]
        rw [i3, List.take_append_drop]
      · simp only [feed, hd, i4]

theorem feed_append : ∀ (a b : List Bytes) (s s1 s2 : Bytes) (o1 o2 : List Bytes),
    feed s a = some (s1, o1) → feed s1 b = some (s2, o2) → feed s (a ++ b) = some (s2, o1 ++ o2) := by
  intro a
  induction a with
  | nil => intro b s s1 s2 o1 o2 h1 h2; simp [feed] at h1; obtain ⟨rfl, rfl⟩ := h1; simpa using h2
  | cons x xs iha =>
    intro b s s1 s2 o1 o2 h1 h2
    simp only [feed, List.cons_append] at h1 ⊢
    cases hdx : decode s x with
    | none => simp [hdx] at h1
    | some pr =>
      obtain ⟨sx, ox⟩ := pr
      simp only [hdx] at h1 ⊢
      cases hfx : feed sx xs with
      | none => simp [hfx] at h1
      | some pr2 =>
        obtain ⟨sy, oy⟩ := pr2
        simp only [hfx, Option.some.injEq, Prod.mk.injEq] at h1
        obtain ⟨rfl, rfl⟩ := h1
        rw [iha b sx sy s2 oy o2 hfx h2]
        simp

/-! ### sessions -/

/-- every event's schedule is legal for what is readable then, and every event ends `WaitNextEvent`
(the connection stays up) -/
def LegalSession {σ : Type} (cap : Nat) (consume : σ → Bytes → Option (σ × List Bytes)) :
    ConnSt σ → List PollEv → Prop
  | _, [] => True
  | c, e :: es =>
    let r := recvLoop cap consume c.st (c.rx ++ e.arrived) e.sched
    LegalR cap (c.rx ++ e.arrived) false e.sched ∧ r.status = some .waitNextEvent ∧
      LegalSession cap consume
        { st := r.st, rx := r.rx, outs := c.outs ++ r.outs, lastStatus := r.status,
          panicked := c.panicked || r.panicked } es

theorem framed_session (cap : Nat) : ∀ (evs : List PollEv) (c : ConnSt Bytes),
    LegalSession cap (fun st ch => decode st ch) c evs → DecInv c.st → c.rx = [] →
    let f := session cap (fun st ch => decode st ch) c evs
    f.rx = [] ∧ f.panicked = c.panicked ∧
      ∃ chunks outs, chunks.flatten = (evs.map (·.arrived)).flatten ∧ f.outs = c.outs ++ outs ∧
        feed c.st chunks = some (f.st, outs) := by
  intro evs
  induction evs with
  | nil => intro c _ _ hrx; exact ⟨hrx, rfl, [], [], by simp, by simp [session], by simp [session, feed]⟩
  | cons e es ih =>
    intro c hl hi hrx
    simp only [LegalSession] at hl
    obtain ⟨hl1, hl2, hl3⟩ := hl
    obtain ⟨p1, p2, chunks, p3, p4⟩ := framed_recv_feed cap e.sched c.st (c.rx ++ e.arrived) false hl1 hi
    have hdr := recv_drains cap (fun st ch => decode st ch) e.sched c.st (c.rx ++ e.arrived) false hl1 hl2
    obtain ⟨q1, q2, chunks2, outs2, q3, q4, q5⟩ := ih _ hl3 p2 hdr
    refine ⟨by simpa [session] using q1, ?_, chunks ++ chunks2,
      (recvLoop cap (fun st ch => decode st ch) c.st (c.rx ++ e.arrived) e.sched).outs ++ outs2, ?_, ?_, ?_⟩
    · simp only [session]; rw [q2, p1]; simp
    · rw [hdr] at p3
      simp only [List.append_nil] at p3
      rw [hrx] at p3
      simp only [List.flatten_append, List.map_cons, List.flatten_cons, q3]
      rw [p3]; simp
    · simp only [session]; rw [q4, List.append_assoc]
    · exact feed_append chunks chunks2 c.st _ _ _ _ p4 q5

/-! ### the WebSocket loop -/

/-- the user-visible payloads of a list of WebSocket messages (control messages carry none) -/
def binaries (ms : List WsMsg) : List Bytes := ms.filterMap id

theorem binaries_append (a b : List WsMsg) : binaries (a ++ b) = binaries a ++ binaries b := by
  simp [binaries, List.filterMap_append]

/-- no message is lost, duplicated or reordered by the loop, for every schedule (legal or not): what
was handed to the user followed by the payloads still waiting is what the payloads of everything that
arrived -/
theorem wsReceive_order : ∀ (fuel : Nat) (c : WsConn) (sched : List WsAns),
    (wsReceive c sched fuel).outs ++ binaries ((wsReceive c sched fuel).conn.buf ++ (wsReceive c sched fuel).conn.sock)
      = binaries (c.buf ++ c.sock) := by
  intro fuel
  induction fuel with
  | zero => intro c sched; simp [wsReceive]
  | succ fuel ih =>
    intro c sched
    cases hb : c.buf with
    | cons m ms =>
      have := ih { c with buf := ms } sched
      cases m with
      | some data =>
        simp only [wsReceive, hb, List.cons_append] at this ⊢
        rw [this]; simp [binaries]
      | none =>
        simp only [wsReceive, hb, List.cons_append] at this ⊢
        rw [this]; simp [binaries]
    | nil =>
      cases sched with
      | nil => simp [wsReceive, hb]
      | cons a as =>
        cases a with
        | wouldBlock => simp [wsReceive, hb]
        | close => simp [wsReceive, hb]
        | fill k =>
          simp only [wsReceive, hb]
          cases ht : c.sock.take (max 1 (min k c.sock.length)) with
          | nil => simp [hb]
          | cons m ms =>
            have := ih { sock := c.sock.drop (max 1 (min k c.sock.length)), buf := ms } as
            have hsplit : c.sock = (m :: ms) ++ c.sock.drop (max 1 (min k c.sock.length)) := by
              rw [← ht, List.take_append_drop]
            cases m with
            | some data =>
              simp only [List.cons_append, List.nil_append] at this ⊢
              rw [this]
              conv => rhs; rw [hsplit]
              simp [binaries]
            | none =>
              simp only [List.nil_append] at this ⊢
              rw [this]
              conv => rhs; rw [hsplit]
              simp [binaries]

/-- `WaitNextEvent` means nothing deliverable is left anywhere: neither on the socket nor inside
the codec's buffer -/
theorem wsReceive_drains : ∀ (fuel : Nat) (c : WsConn) (sched : List WsAns),
    LegalWs { c with buf := [] } sched →
    (wsReceive c sched fuel).status = some .waitNextEvent →
    (wsReceive c sched fuel).conn.sock = [] ∧ (wsReceive c sched fuel).conn.buf = [] := by
  intro fuel
  induction fuel with
  | zero => intro c sched _ h; simp [wsReceive] at h
  | succ fuel ih =>
    intro c sched hl h
    cases hb : c.buf with
    | cons m ms =>
      cases m <;> simp only [wsReceive, hb] at h ⊢ <;>
        exact ih { c with buf := ms } sched (by simpa using hl) h
    | nil =>
      cases sched with
      | nil => simp [wsReceive, hb] at h
      | cons a as =>
        cases a with
        | wouldBlock =>
          simp only [LegalWs] at hl
          simp [wsReceive, hb, hl]
        | close => simp [wsReceive, hb] at h
        | fill k =>
          simp only [LegalWs] at hl
          obtain ⟨h1, h2, h3⟩ := hl
          have hk : max 1 (min k c.sock.length) = k := by omega
          simp only [wsReceive, hb, hk] at h ⊢
          cases ht : c.sock.take k with
          | nil => simp [ht] at h
          | cons m ms =>
            cases m <;> simp only [ht] at h ⊢ <;>
              exact ih { sock := c.sock.drop k, buf := ms } as (by simpa using h3) h

end Mio.Stream
