import MioModel.Stream
/-! The send loops never give up: `WouldBlock` is invisible, and only a kernel error ends a send that has
not written everything. -/
namespace Mio.Stream
open Mio

/-- removing the `WouldBlock` answers from a schedule changes nothing -/
theorem tcpSendLoop_wouldBlock_transparent (data : Bytes) : ∀ (sched : List WAns) (sent : Nat),
    tcpSendLoop data sent (sched.filter (fun a => a != .wouldBlock)) = tcpSendLoop data sent sched := by
  intro sched
  induction sched with
  | nil => intro sent; rfl
  | cons a as ih =>
    intro sent
    cases a with
    | wouldBlock => simpa [tcpSendLoop] using ih sent
    | error => simp [tcpSendLoop]
    | accept k =>
      have hf : (WAns.accept k :: as).filter (fun a => a != .wouldBlock)
          = WAns.accept k :: as.filter (fun a => a != .wouldBlock) := by simp
      rw [hf]
      simp only [tcpSendLoop, ih]

theorem framedSendLoop_wouldBlock_transparent (pre data : Bytes) : ∀ (sched : List WAns) (sent : Nat),
    framedSendLoop pre data sent (sched.filter (fun a => a != .wouldBlock)) = framedSendLoop pre data sent sched := by
  intro sched
  induction sched with
  | nil => intro sent; rfl
  | cons a as ih =>
    intro sent
    cases a with
    | wouldBlock => simpa [framedSendLoop] using ih sent
    | error => simp [framedSendLoop]
    | accept k =>
      have hf : (WAns.accept k :: as).filter (fun a => a != .wouldBlock)
          = WAns.accept k :: as.filter (fun a => a != .wouldBlock) := by simp
      rw [hf]
      simp only [framedSendLoop, ih]

/-- without a kernel error the loop is either still running (answers exhausted) or has sent everything -/
theorem tcpSendLoop_no_error (data : Bytes) : ∀ (sched : List WAns) (sent : Nat),
    (∀ a ∈ sched, a ≠ WAns.error) →
    (tcpSendLoop data sent sched).status = none ∨ (tcpSendLoop data sent sched).status = some .sent := by
  intro sched
  induction sched with
  | nil => intro sent _; left; rfl
  | cons a as ih =>
    intro sent h
    have h' : ∀ x ∈ as, x ≠ WAns.error := fun x hx => h x (List.mem_cons_of_mem _ hx)
    cases a with
    | wouldBlock => simpa [tcpSendLoop] using ih sent h'
    | error => exact absurd rfl (h _ (List.mem_cons_self ..))
    | accept k =>
      simp only [tcpSendLoop]
      split
      · right; rfl
      · exact ih _ h'

theorem framedSendLoop_no_error (pre data : Bytes) : ∀ (sched : List WAns) (sent : Nat),
    (∀ a ∈ sched, a ≠ WAns.error) →
    (framedSendLoop pre data sent sched).status = none ∨ (framedSendLoop pre data sent sched).status = some .sent := by
  intro sched
  induction sched with
  | nil => intro sent _; left; rfl
  | cons a as ih =>
    intro sent h
    have h' : ∀ x ∈ as, x ≠ WAns.error := fun x hx => h x (List.mem_cons_of_mem _ hx)
    cases a with
    | wouldBlock => simpa [framedSendLoop] using ih sent h'
    | error => exact absurd rfl (h _ (List.mem_cons_self ..))
    | accept k =>
      simp only [framedSendLoop]
      generalize (if sent < pre.length then pre.drop sent else data.drop (sent - pre.length)) = buf
      split
      · right; rfl
      · exact ih _ h'

/-- the status is `Sent` or `ResourceNotFound` or the loop still runs: `ResourceNotAvailable` and
`MaxPacketSizeExceeded` are never produced by these loops -/
theorem tcpSendLoop_statuses (data : Bytes) : ∀ (sched : List WAns) (sent : Nat),
    (tcpSendLoop data sent sched).status = none ∨ (tcpSendLoop data sent sched).status = some .sent ∨
    (tcpSendLoop data sent sched).status = some .resourceNotFound := by
  intro sched
  induction sched with
  | nil => intro sent; left; rfl
  | cons a as ih =>
    intro sent
    cases a with
    | wouldBlock => simpa [tcpSendLoop] using ih sent
    | error => right; right; rfl
    | accept k =>
      simp only [tcpSendLoop]
      split
      · right; left; rfl
      · exact ih _

theorem framedSendLoop_statuses (pre data : Bytes) : ∀ (sched : List WAns) (sent : Nat),
    (framedSendLoop pre data sent sched).status = none ∨ (framedSendLoop pre data sent sched).status = some .sent ∨
    (framedSendLoop pre data sent sched).status = some .resourceNotFound := by
  intro sched
  induction sched with
  | nil => intro sent; left; rfl
  | cons a as ih =>
    intro sent
    cases a with
    | wouldBlock => simpa [framedSendLoop] using ih sent
    | error => right; right; rfl
    | accept k =>
      simp only [framedSendLoop]
      generalize (if sent < pre.length then pre.drop sent else data.drop (sent - pre.length)) = buf
      split
      · right; left; rfl
      · exact ih _

end Mio.Stream
