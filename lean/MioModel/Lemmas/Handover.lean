import MioModel.Handover
namespace Mio.Handover

structure Inv (s : St) : Prop where
  all : s.cache ++ s.pending = List.range s.next
  taken : ∀ c, s.taken = some c → c = s.cache ∧ s.cpc = .done ∧ s.lpc = .joined
  flag : s.flag = true ↔ s.lpc = .idle
  joined : s.lpc = .joined → s.cpc = .done ∧ s.taken = some s.cache

theorem inv_init : Inv {} := by
  constructor <;> simp

theorem step_inv (s s' : St) (a : Act) (h : Inv s) (hs : step s a = some s') : Inv s' := by
  obtain ⟨hall, htk, hfl, hj⟩ := h
  cases a with
  | arrive =>
    simp only [step, Option.some.injEq] at hs; subst hs
    refine ⟨?_, htk, hfl, hj⟩
    simp only [← List.append_assoc, hall, List.range_succ]
  | cache =>
    simp only [step] at hs
    split at hs
    · simp only [Option.some.injEq] at hs; subst hs
      refine ⟨hall, ?_, hfl, ?_⟩
      · intro c hc; have := htk c hc; simp_all
      · intro hl; have := hj hl; simp_all
    · simp only [Option.some.injEq] at hs; subst hs
      refine ⟨by simpa using hall, ?_, hfl, ?_⟩
      · intro c hc; have := htk c hc; simp_all
      · intro hl; have := hj hl; simp_all
    · cases hs
  | call =>
    simp only [step] at hs
    split at hs
    · rename_i hidle
      simp only [Option.some.injEq] at hs; subst hs
      refine ⟨hall, ?_, by simp, by simp⟩
      intro c hc; have := htk c hc; simp_all
    · cases hs
  | join =>
    simp only [step] at hs
    split at hs
    · rename_i hc
      simp only [Option.some.injEq] at hs; subst hs
      refine ⟨hall, ?_, ?_, ?_⟩
      · intro c hc'; simp only [Option.some.injEq] at hc'; exact ⟨hc'.symm, hc.2, rfl⟩
      · simp only [reduceCtorEq, iff_false]
        intro hf; have := hfl.mp hf; simp_all
      · intro _; exact ⟨hc.2, rfl⟩
    · cases hs

theorem run_inv : ∀ (acts : List Act) (s s' : St), Inv s → run s acts = some s' → Inv s'
  | [], s, s', h, hr => by simp only [run, Option.some.injEq] at hr; subst hr; exact h
  | a :: as, s, s', h, hr => by
    simp only [run] at hr
    split at hr
    · rename_i s1 hs1; exact run_inv as s1 s' (step_inv s s1 a h hs1) hr
    · cases hr

theorem reachable_inv (s : St) (h : Reachable s) : Inv s := by
  obtain ⟨acts, hr⟩ := h
  exact run_inv acts {} s inv_init hr

/-- once the flag is cleared it stays cleared -/
theorem step_flag (s s' : St) (a : Act) (hf : s.flag = false) (hs : step s a = some s') : s'.flag = false := by
  cases a with
  | arrive => simp only [step, Option.some.injEq] at hs; subst hs; exact hf
  | cache =>
    simp only [step] at hs
    split at hs <;> first | (simp only [Option.some.injEq] at hs; subst hs; exact hf) | cases hs
  | call =>
    simp only [step] at hs
    split at hs <;> first | (simp only [Option.some.injEq] at hs; subst hs; rfl) | cases hs
  | join =>
    simp only [step] at hs
    split at hs <;> first | (simp only [Option.some.injEq] at hs; subst hs; exact hf) | cases hs

/-- with the flag cleared, a step of the cache thread strictly decreases `remaining`, and no other
action (in particular no number of arriving events) changes it -/
theorem step_remaining (s s' : St) (a : Act) (hf : s.flag = false) (hs : step s a = some s') :
    remaining s' + (if a = .cache then 1 else 0) = remaining s := by
  cases a with
  | arrive => simp only [step, Option.some.injEq] at hs; subst hs; simp [remaining]
  | cache =>
    simp only [step] at hs
    split at hs
    · rename_i hc
      simp only [Option.some.injEq] at hs; subst hs; simp [remaining, hc, hf]
    · rename_i hc
      simp only [Option.some.injEq] at hs; subst hs; simp [remaining, hc]
    · cases hs
  | call =>
    simp only [step] at hs
    split at hs <;> first | (simp only [Option.some.injEq] at hs; subst hs; simp [remaining]) | cases hs
  | join =>
    simp only [step] at hs
    split at hs <;> first | (simp only [Option.some.injEq] at hs; subst hs; simp [remaining]) | cases hs

theorem run_remaining : ∀ (acts : List Act) (s s' : St), s.flag = false → run s acts = some s' →
    remaining s' + acts.count .cache = remaining s
  | [], s, s', _, hr => by simp only [run, Option.some.injEq] at hr; subst hr; simp
  | a :: as, s, s', hf, hr => by
    simp only [run] at hr
    split at hr
    · rename_i s1 hs1
      have h1 := step_remaining s s1 a hf hs1
      have h2 := run_remaining as s1 s' (step_flag s s1 a hf hs1) hr
      by_cases ha : a = .cache
      · subst ha; simp only [if_true] at h1; simp only [List.count_cons_self]; omega
      · simp only [ha, if_false] at h1
        rw [List.count_cons_of_ne ha]; omega
    · cases hr

end Mio.Handover
