import MioModel.Net
/-! Invariants of the driver model M5. -/
namespace Mio.Net

/-! ### freshness: ids are never reused -/

structure Fresh (s : St) : Prop where
  regsLt : ∀ r ∈ s.regs, r.id < s.nextRemote
  regsNodup : (s.regs.map (·.id)).Nodup
  liveReg : ∀ id ∈ s.live, ∃ r ∈ s.regs, r.id = id
  liveNodup : s.live.Nodup
  deregNot : ∀ x ∈ s.dereg, x.1 ∉ s.live ∧ x.1 < s.nextRemote
  deregNodup : (s.dereg.map (·.1)).Nodup
  localsLt : ∀ l ∈ s.locals, l < s.nextLocal

theorem Fresh_init : Fresh {} := by constructor <;> simp

theorem setReady_ids (regs : List Reg) (id : Nat) : (setReady regs id).map (·.id) = regs.map (·.id) := by
  unfold setReady
  rw [List.map_map]
  apply List.map_congr_left
  intro r _
  simp only [Function.comp]
  split <;> rfl

theorem mem_setReady (regs : List Reg) (id : Nat) (r : Reg) (h : r ∈ setReady regs id) :
    ∃ r0 ∈ regs, r0.id = r.id ∧ r0.listener = r.listener ∧ r0.peer = r.peer ∧
      (r.ready = true ∨ r = r0) := by
  unfold setReady at h
  obtain ⟨r0, h0, h1⟩ := List.mem_map.mp h
  refine ⟨r0, h0, ?_⟩
  split at h1 <;> subst h1 <;> simp

theorem deregister_fresh (s : St) (id : Nat) (who : Who) (h : Fresh s) : Fresh (deregister s id who).2 := by
  unfold deregister
  split
  · rename_i hl
    have hmem : id ∈ s.live := by simpa [isLive] using hl
    constructor
    · exact h.regsLt
    · exact h.regsNodup
    · intro x hx; exact h.liveReg x (List.mem_filter.mp hx).1
    · exact h.liveNodup.filter _
    · intro x hx
      simp only at hx ⊢
      rcases List.mem_append.mp hx with hx | hx
      · obtain ⟨h1, h2⟩ := h.deregNot x hx
        exact ⟨fun hm => h1 (List.mem_filter.mp hm).1, h2⟩
      · simp only [List.mem_singleton] at hx; subst hx
        refine ⟨by simp, ?_⟩
        obtain ⟨r, hr, hrid⟩ := h.liveReg id hmem
        have := h.regsLt r hr
        simp only; omega
    · simp only [List.map_append, List.map_cons, List.map_nil]
      rw [List.nodup_append]
      refine ⟨h.deregNodup, by simp, ?_⟩
      intro a ha b hb
      simp only [List.mem_singleton] at hb; subst hb
      intro hab; subst hab
      obtain ⟨x, hx, hxa⟩ := List.mem_map.mp ha
      exact (h.deregNot x hx).1 (hxa ▸ hmem)
    · exact h.localsLt
  · exact h

theorem deregister_live (s : St) (id : Nat) (who : Who) :
    (deregister s id who).2.live = s.live.filter (· ≠ id) ∧ (deregister s id who).2.regs = s.regs ∧
    (deregister s id who).2.log = s.log ∧ (deregister s id who).2.proc = s.proc ∧
    (deregister s id who).2.nextRemote = s.nextRemote ∧ (deregister s id who).2.removeTrue = s.removeTrue ∧
    ((deregister s id who).1 = true ↔ id ∈ s.live) := by
  unfold deregister
  split
  · rename_i hl
    have : id ∈ s.live := by simpa [isLive] using hl
    simp [this]
  · rename_i hl
    have hn : id ∉ s.live := by simpa [isLive] using hl
    refine ⟨?_, rfl, rfl, rfl, rfl, rfl, by simp [hn]⟩
    simp only
    rw [List.filter_eq_self.mpr]
    intro a ha
    simp only [ne_eq, decide_eq_true_eq]
    intro hab; subst hab; exact hn ha

theorem Fresh_of_eq (s s' : St) (h : Fresh s) (h1 : s'.regs.map (·.id) = s.regs.map (·.id))
    (h2 : s'.live = s.live) (h3 : s'.nextRemote = s.nextRemote) (h4 : s'.dereg = s.dereg)
    (h5 : s'.locals = s.locals) (h6 : s'.nextLocal = s.nextLocal) : Fresh s' := by
  have hmem : ∀ id, (∃ r ∈ s'.regs, r.id = id) ↔ (∃ r ∈ s.regs, r.id = id) := by
    intro id
    have : (id ∈ s'.regs.map (·.id)) ↔ (id ∈ s.regs.map (·.id)) := by rw [h1]
    simpa [List.mem_map] using this
  constructor
  · intro r hr
    rw [h3]
    obtain ⟨r0, hr0, hid⟩ := (hmem r.id).mp ⟨r, hr, rfl⟩
    rw [← hid]; exact h.regsLt r0 hr0
  · rw [h1]; exact h.regsNodup
  · intro id hid; rw [h2] at hid; exact (hmem id).mpr (h.liveReg id hid)
  · rw [h2]; exact h.liveNodup
  · rw [h4, h2, h3]; exact h.deregNot
  · rw [h4]; exact h.deregNodup
  · rw [h5, h6]; exact h.localsLt

/-- registering a new remote (by `connect` or by a listener's `accept`) -/
theorem Fresh_register (s s' : St) (h : Fresh s) (r : Reg) (hr : r.id = s.nextRemote)
    (h1 : s'.regs = s.regs ++ [r]) (h2 : s'.live = s.live ++ [r.id]) (h3 : s'.nextRemote = s.nextRemote + 1)
    (h4 : s'.dereg = s.dereg) (h5 : s'.locals = s.locals) (h6 : s'.nextLocal = s.nextLocal) : Fresh s' := by
  have hnotin : r.id ∉ s.regs.map (·.id) := by
    intro hm
    obtain ⟨r0, hr0, hid⟩ := List.mem_map.mp hm
    have := h.regsLt r0 hr0
    rw [hid, hr] at this; omega
  constructor
  · intro x hx
    rw [h1] at hx; rw [h3]
    rcases List.mem_append.mp hx with hx | hx
    · have := h.regsLt x hx; omega
    · simp only [List.mem_singleton] at hx; subst hx; omega
  · rw [h1, List.map_append, List.nodup_append]
    refine ⟨h.regsNodup, by simp, ?_⟩
    intro a ha b hb
    simp only [List.map_cons, List.map_nil, List.mem_singleton] at hb; subst hb
    intro hab; subst hab; exact hnotin ha
  · intro id hid
    rw [h2] at hid; rw [h1]
    rcases List.mem_append.mp hid with hid | hid
    · obtain ⟨r0, hr0, hrid⟩ := h.liveReg id hid
      exact ⟨r0, List.mem_append_left _ hr0, hrid⟩
    · simp only [List.mem_singleton] at hid
      exact ⟨r, List.mem_append_right _ (by simp), hid.symm⟩
  · rw [h2, List.nodup_append]
    refine ⟨h.liveNodup, by simp, ?_⟩
    intro a ha b hb
    simp only [List.mem_singleton] at hb; subst hb
    intro hab; subst hab
    obtain ⟨r0, hr0, hrid⟩ := h.liveReg _ ha
    exact hnotin (List.mem_map.mpr ⟨r0, hr0, hrid⟩)
  · rw [h4, h2, h3]
    intro x hx
    obtain ⟨hx1, hx2⟩ := h.deregNot x hx
    refine ⟨?_, by omega⟩
    intro hm
    rcases List.mem_append.mp hm with hm | hm
    · exact hx1 hm
    · simp only [List.mem_singleton] at hm; rw [hm, hr] at hx2; omega
  · rw [h4]; exact h.deregNodup
  · rw [h5, h6]; exact h.localsLt

theorem step_fresh (s s' : St) (a : Act) (h : Fresh s) (hs : step s a = some s') : Fresh s' := by
  cases a with
  | connect peer =>
    simp only [step, Option.some.injEq] at hs; subst hs
    exact Fresh_register s _ h ⟨s.nextRemote, none, false, peer⟩ rfl rfl rfl rfl rfl rfl rfl
  | listen =>
    simp only [step, Option.some.injEq] at hs; subst hs
    constructor
    · exact h.regsLt
    · exact h.regsNodup
    · exact h.liveReg
    · exact h.liveNodup
    · exact h.deregNot
    · exact h.deregNodup
    · intro l hl
      simp only [record] at hl ⊢
      rcases List.mem_append.mp hl with hl | hl
      · have := h.localsLt l hl; omega
      · simp only [List.mem_singleton] at hl; omega
  | send id adapter =>
    simp only [step] at hs
    split at hs
    · split at hs
      · split at hs <;> (simp only [Option.some.injEq] at hs; subst hs; exact Fresh_of_eq s _ h rfl rfl rfl rfl rfl rfl)
      · simp only [Option.some.injEq] at hs; subst hs; exact Fresh_of_eq s _ h rfl rfl rfl rfl rfl rfl
    · simp only [Option.some.injEq] at hs; subst hs; exact Fresh_of_eq s _ h rfl rfl rfl rfl rfl rfl
  | sendLocal lid adapter =>
    simp only [step] at hs
    split at hs <;> (simp only [Option.some.injEq] at hs; subst hs; exact Fresh_of_eq s _ h rfl rfl rfl rfl rfl rfl)
  | remove id =>
    simp only [step, Option.some.injEq] at hs; subst hs
    have hd := deregister_fresh s id .user h
    split <;> exact Fresh_of_eq _ _ hd rfl rfl rfl rfl rfl rfl
  | removeLocal lid =>
    simp only [step] at hs
    split at hs
    · simp only [Option.some.injEq] at hs; subst hs
      constructor
      · exact h.regsLt
      · exact h.regsNodup
      · exact h.liveReg
      · exact h.liveNodup
      · exact h.deregNot
      · exact h.deregNodup
      · intro l hl; exact h.localsLt l (List.mem_filter.mp hl).1
    · simp only [Option.some.injEq] at hs; subst hs; exact Fresh_of_eq s _ h rfl rfl rfl rfl rfl rfl
  | isReady id =>
    simp only [step] at hs
    split at hs
    · split at hs <;> (simp only [Option.some.injEq] at hs; subst hs; exact Fresh_of_eq s _ h rfl rfl rfl rfl rfl rfl)
    · simp only [Option.some.injEq] at hs; subst hs; exact Fresh_of_eq s _ h rfl rfl rfl rfl rfl rfl
  | pollRemote id read =>
    simp only [step] at hs
    split at hs
    · split at hs <;> (simp only [Option.some.injEq] at hs; subst hs; exact Fresh_of_eq s _ h rfl rfl rfl rfl rfl rfl)
    · simp at hs
  | pending ans =>
    simp only [step] at hs
    split at hs
    · split at hs
      · split at hs
        · simp at hs
        · cases ans with
          | ready =>
            simp only [Option.some.injEq] at hs; subst hs
            exact Fresh_of_eq s _ h (by simp [emit, setReady_ids]) rfl rfl rfl rfl rfl
          | incomplete =>
            simp only [Option.some.injEq] at hs; subst hs
            exact Fresh_of_eq s _ h rfl rfl rfl rfl rfl rfl
          | disconnected =>
            simp only [Option.some.injEq] at hs; subst hs
            have hd := fun id => deregister_fresh s id .procPending h
            split <;> exact Fresh_of_eq _ _ (hd _) rfl rfl rfl rfl rfl rfl
      · simp at hs
    · simp at hs
  | checkReady =>
    simp only [step] at hs
    split at hs
    · split at hs
      · split at hs
        · simp only [Option.some.injEq] at hs; subst hs; exact Fresh_of_eq s _ h rfl rfl rfl rfl rfl rfl
        · simp at hs
      · simp at hs
    · simp at hs
  | beginReceive n disc =>
    simp only [step] at hs
    split at hs
    · split at hs
      · split at hs
        · split at hs <;> (simp only [Option.some.injEq] at hs; subst hs; exact Fresh_of_eq s _ h rfl rfl rfl rfl rfl rfl)
        · split at hs
          · simp only [Option.some.injEq] at hs; subst hs; exact Fresh_of_eq s _ h rfl rfl rfl rfl rfl rfl
          · simp at hs
      · simp at hs
    · simp at hs
  | deliver =>
    simp only [step] at hs
    split at hs
    · simp only [Option.some.injEq] at hs; subst hs; exact Fresh_of_eq s _ h rfl rfl rfl rfl rfl rfl
    · simp at hs
  | endReceive =>
    simp only [step] at hs
    split at hs
    · simp only [Option.some.injEq] at hs; subst hs; exact Fresh_of_eq s _ h rfl rfl rfl rfl rfl rfl
    · simp at hs
  | finish =>
    simp only [step] at hs
    split at hs
    · split at hs
      · simp only [Option.some.injEq] at hs; subst hs
        have hd := fun id => deregister_fresh s id .procRead h
        split <;> exact Fresh_of_eq _ _ (hd _) rfl rfl rfl rfl rfl rfl
      · simp only [Option.some.injEq] at hs; subst hs; exact Fresh_of_eq s _ h rfl rfl rfl rfl rfl rfl
    · simp at hs
  | pollLocal lid remotes datas =>
    simp only [step] at hs
    split at hs
    · split at hs <;> (simp only [Option.some.injEq] at hs; subst hs; exact Fresh_of_eq s _ h rfl rfl rfl rfl rfl rfl)
    · simp at hs
  | acceptOne =>
    simp only [step] at hs
    split at hs
    · rename_i lid peer rest datas _
      simp only [Option.some.injEq] at hs; subst hs
      exact Fresh_register s _ h ⟨s.nextRemote, some lid, false, peer⟩ rfl rfl rfl rfl rfl rfl rfl
    · simp only [Option.some.injEq] at hs; subst hs; exact Fresh_of_eq s _ h rfl rfl rfl rfl rfl rfl
    · simp only [Option.some.injEq] at hs; subst hs; exact Fresh_of_eq s _ h rfl rfl rfl rfl rfl rfl
    · simp at hs

theorem run_preserves {P : St → Prop} (hstep : ∀ s s' a, P s → step s a = some s' → P s') :
    ∀ (acts : List Act) (s s' : St), P s → run s acts = some s' → P s' := by
  intro acts
  induction acts with
  | nil => intro s s' h hr; simp only [run, Option.some.injEq] at hr; subst hr; exact h
  | cons a as ih =>
    intro s s' h hr
    simp only [run] at hr
    split at hr
    · rename_i s1 hs1; exact ih s1 s' (hstep s s1 a h hs1) hr
    · simp at hr

theorem reachable_fresh (s : St) (h : Reachable s) : Fresh s := by
  obtain ⟨acts, hr⟩ := h
  exact run_preserves (P := Fresh) step_fresh acts _ s Fresh_init hr

/-! ### the lifecycle automaton of one endpoint (C03) -/

inductive Phase where
  | init | est | ended | bad
deriving DecidableEq, Repr

/-- `ε | Connected(true) Message* Disconnected? | Connected(false)` for endpoints returned by
`connect()`, `ε | Accepted(listener) Message* Disconnected?` for accepted ones -/
def phaseStep (listener : Option Nat) : Phase → Ev → Phase
  | .init, .connected _ true => if listener = none then .est else .bad
  | .init, .connected _ false => if listener = none then .ended else .bad
  | .init, .accepted _ l => if listener = some l then .est else .bad
  | .est, .message _ => .est
  | .est, .disconnected _ => .ended
  | _, _ => .bad

def proj (id : Nat) (log : List Ev) : List Ev := log.filter (fun e => e.rid = some id)

def phaseOf (r : Reg) (log : List Ev) : Phase := (proj r.id log).foldl (phaseStep r.listener) .init

theorem phaseOf_append (r : Reg) (log : List Ev) (e : Ev) :
    phaseOf r (log ++ [e]) = if e.rid = some r.id then phaseStep r.listener (phaseOf r log) e else phaseOf r log := by
  unfold phaseOf proj
  rw [List.filter_append]
  by_cases h : e.rid = some r.id
  · simp [h, List.foldl_append]
  · simp [h]

/-- what the lifecycle phase of a register says about the rest of the state -/
def GoodCore (ph : Phase) (ready : Bool) (inLive : Bool) (proc : Proc) (rid : Nat) (lnone : Bool) : Prop :=
  (ph = .ended → ready = false → lnone = true) ∧
  ph ≠ .bad ∧ (ph = .init → ready = false) ∧ (ph = .est → ready = true) ∧
  (ph = .ended → inLive = false ∧
    (match proc with
     | .got id _ => id ≠ rid
     | .receiving id _ _ => id ≠ rid
     | .afterReceive id _ => id ≠ rid
     | .readyChecked id _ => id = rid → ready = false
     | _ => True)) ∧
  (match proc with
   | .receiving id _ _ => id = rid → ready = true
   | .afterReceive id _ => id = rid → ready = true
   | _ => True)

def Good (s : St) (r : Reg) : Prop :=
  GoodCore (phaseOf r s.log) r.ready (s.live.contains r.id) s.proc r.id r.listener.isNone

def LogIds (s : St) : Prop := ∀ e ∈ s.log, ∀ id, e.rid = some id → id < s.nextRemote

structure Inv (s : St) : Prop where
  fresh : Fresh s
  logIds : LogIds s
  good : ∀ r ∈ s.regs, Good s r
  procId : ∀ id, procHolds s.proc = some id → id < s.nextRemote

theorem find_unique : ∀ (regs : List Reg) (r : Reg), (regs.map (·.id)).Nodup → r ∈ regs →
    regs.find? (fun x => decide (x.id = r.id)) = some r := by
  intro regs
  induction regs with
  | nil => intro r _ hr; simp at hr
  | cons x xs ih =>
    intro r hnd hr
    simp only [List.map_cons, List.nodup_cons] at hnd
    rcases List.mem_cons.mp hr with hr | hr
    · subst hr; simp [List.find?]
    · have hne : x.id ≠ r.id := by
        intro heq
        exact hnd.1 (heq ▸ List.mem_map.mpr ⟨r, hr, rfl⟩)
      simp only [List.find?, hne, decide_false]
      exact ih r hnd.2 hr

theorem findReg_unique (s : St) (h : Fresh s) (r : Reg) (hr : r ∈ s.regs) : findReg s r.id = some r :=
  find_unique s.regs r h.regsNodup hr

theorem findReg_some (s : St) (id : Nat) (r : Reg) (h : findReg s id = some r) : r ∈ s.regs ∧ r.id = id := by
  unfold findReg at h
  have := List.find?_some h
  exact ⟨List.mem_of_find?_eq_some h, by simpa using this⟩

theorem proj_nil_of_fresh (s : St) (h : LogIds s) (id : Nat) (hid : s.nextRemote ≤ id) : proj id s.log = [] := by
  unfold proj
  rw [List.filter_eq_nil_iff]
  intro e he
  simp only [decide_eq_true_eq]
  intro heq
  have := h e he id heq
  omega

theorem contains_filter_ne (l : List Nat) (a b : Nat) (h : (l.filter (· ≠ a)).contains b = true) :
    l.contains b = true := by
  simp only [List.contains_eq_mem, List.mem_filter, decide_eq_true_eq] at h ⊢
  exact h.1

/-- nothing that `Good` looks at got worse for `r` -/
theorem Good_mono (s s' : St) (r : Reg) (h : Good s r) (hlog : s'.log = s.log) (hproc : s'.proc = s.proc)
    (hlive : s'.live.contains r.id = true → s.live.contains r.id = true) : Good s' r := by
  unfold Good GoodCore at *
  rw [hlog, hproc]
  obtain ⟨h0, h1, h2, h3, h4, h5⟩ := h
  refine ⟨h0, h1, h2, h3, ?_, h5⟩
  intro he
  obtain ⟨h6, h7⟩ := h4 he
  refine ⟨?_, h7⟩
  cases hc : s'.live.contains r.id
  · rfl
  · rw [hlive hc] at h6; exact h6

/-- the processor moves between states that do not concern `r` (or are harmless for it) -/
theorem Good_proc (s s' : St) (r : Reg) (h : Good s r) (hlog : phaseOf r s'.log = phaseOf r s.log)
    (hlive : s'.live.contains r.id = true → s.live.contains r.id = true)
    (hp4 : phaseOf r s.log = .ended →
      (match s'.proc with
       | .got id _ => id ≠ r.id
       | .receiving id _ _ => id ≠ r.id
       | .afterReceive id _ => id ≠ r.id
       | .readyChecked id _ => id = r.id → r.ready = false
       | _ => True))
    (hp5 : (match s'.proc with
       | .receiving id _ _ => id = r.id → r.ready = true
       | .afterReceive id _ => id = r.id → r.ready = true
       | _ => True)) : Good s' r := by
  unfold Good GoodCore at *
  rw [hlog]
  obtain ⟨h0, h1, h2, h3, h4, _⟩ := h
  refine ⟨h0, h1, h2, h3, ?_, hp5⟩
  intro he
  obtain ⟨h6, _⟩ := h4 he
  refine ⟨?_, hp4 he⟩
  cases hc : s'.live.contains r.id
  · rfl
  · rw [hlive hc] at h6; exact h6

theorem LogIds_of (s s' : St) (h : LogIds s) (hlog : s'.log = s.log) (hn : s.nextRemote ≤ s'.nextRemote) :
    LogIds s' := by
  intro e he id hid
  rw [hlog] at he
  have := h e he id hid
  omega

theorem LogIds_emit (s s' : St) (h : LogIds s) (e : Ev) (hlog : s'.log = s.log ++ [e])
    (hn : s'.nextRemote = s.nextRemote) (he : ∀ id, e.rid = some id → id < s.nextRemote) : LogIds s' := by
  intro e' he' id hid
  rw [hlog] at he'
  rw [hn]
  rcases List.mem_append.mp he' with h1 | h1
  · exact h e' h1 id hid
  · simp only [List.mem_singleton] at h1; subst h1; exact he id hid

/-- a freshly registered remote: no event mentions it yet -/
theorem Good_new (s s' : St) (hl : LogIds s) (r : Reg) (hid : r.id = s.nextRemote) (hr : r.ready = false)
    (hlog : s'.log = s.log)
    (hproc : match s'.proc with
      | .receiving id _ _ => id ≠ r.id
      | .afterReceive id _ => id ≠ r.id
      | _ => True) : Good s' r := by
  unfold Good GoodCore
  have hp : phaseOf r s'.log = .init := by
    unfold phaseOf
    rw [hlog, proj_nil_of_fresh s hl r.id (by omega)]
    rfl
  rw [hp]
  refine ⟨by simp, by simp, fun _ => hr, by simp, by simp, ?_⟩
  split <;> simp_all

theorem phaseOf_congr (r r' : Reg) (log : List Ev) (h1 : r.id = r'.id) (h2 : r.listener = r'.listener) :
    phaseOf r log = phaseOf r' log := by
  unfold phaseOf; rw [h1, h2]

theorem phaseOf_emit_other (r : Reg) (log : List Ev) (e : Ev) (h : e.rid ≠ some r.id) :
    phaseOf r (log ++ [e]) = phaseOf r log := by
  rw [phaseOf_append, if_neg h]

theorem Inv_init : Inv {} := by
  constructor
  · exact Fresh_init
  · intro e he; simp at he
  · intro r hr; simp at hr
  · intro id h; simp [procHolds] at h

/-- user calls that only record their result -/
theorem Inv_record (s : St) (h : Inv s) (c : String) (id : Nat) (res : String) : Inv (record s c id res) :=
  ⟨Fresh_of_eq s _ h.fresh rfl rfl rfl rfl rfl rfl, LogIds_of s _ h.logIds rfl (Nat.le_refl _),
    fun r hr => Good_mono s _ r (h.good r hr) rfl rfl (fun x => x), h.procId⟩

theorem step_inv (s s' : St) (a : Act) (h : Inv s) (hs : step s a = some s') : Inv s' := by
  have hf' : Fresh s' := step_fresh s s' a h.fresh hs
  cases a with
  | connect peer =>
    simp only [step, Option.some.injEq] at hs; subst hs
    refine ⟨hf', LogIds_of s _ h.logIds rfl (by simp [record]), ?_, ?_⟩
    · intro r hr
      simp only [record] at hr
      rcases List.mem_append.mp hr with hr | hr
      · refine Good_mono s _ r (h.good r hr) ?_ ?_ ?_
        · rfl
        · rfl
        intro hc
        simp only [record, List.contains_eq_mem, List.mem_append, List.mem_singleton, decide_eq_true_eq] at hc ⊢
        rcases hc with hc | hc
        · exact hc
        · have := h.fresh.regsLt r hr; omega
      · simp only [List.mem_singleton] at hr; subst hr
        refine Good_new s _ h.logIds _ ?_ ?_ ?_ ?_
        · rfl
        · rfl
        · rfl
        have hp := h.procId
        simp only [record]
        split
        · rename_i id l d hpr
          intro heq
          have := hp id (by simp [procHolds, hpr])
          omega
        · rename_i id d hpr
          intro heq
          have := hp id (by simp [procHolds, hpr])
          omega
        · trivial
    · intro id hid; have := h.procId id hid; simp only [record]; omega
  | listen =>
    simp only [step, Option.some.injEq] at hs; subst hs
    exact ⟨hf', LogIds_of s _ h.logIds rfl (Nat.le_refl _),
      fun r hr => Good_mono s _ r (h.good r hr) rfl rfl (fun x => x), h.procId⟩
  | send id adapter =>
    simp only [step] at hs
    split at hs
    · split at hs
      · split at hs
        · simp only [Option.some.injEq] at hs; subst hs
          exact ⟨hf', LogIds_of s _ h.logIds rfl (Nat.le_refl _),
            fun r hr => Good_mono s _ r (h.good r hr) rfl rfl (fun x => x), h.procId⟩
        · simp only [Option.some.injEq] at hs; subst hs; exact Inv_record s h _ _ _
      · simp only [Option.some.injEq] at hs; subst hs; exact Inv_record s h _ _ _
    · simp only [Option.some.injEq] at hs; subst hs; exact Inv_record s h _ _ _
  | sendLocal lid adapter =>
    simp only [step] at hs
    split at hs <;> (simp only [Option.some.injEq] at hs; subst hs; exact Inv_record s h _ _ _)
  | remove id =>
    simp only [step, Option.some.injEq] at hs; subst hs
    obtain ⟨d1, d2, d3, d4, d5, d6, d7⟩ := deregister_live s id .user
    refine ⟨hf', ?_, ?_, ?_⟩
    · split <;> exact LogIds_of s _ h.logIds (by simp [record, d3]) (by simp [record, d5])
    · intro r hr
      have hr' : r ∈ s.regs := by split at hr <;> simpa [record, d2] using hr
      split <;> (refine Good_mono s _ r (h.good r hr') ?_ ?_ ?_
                 · simp [record, d3]
                 · simp [record, d4]
                 · intro hc; simp only [record, d1] at hc; exact contains_filter_ne _ _ _ hc)
    · intro x hx
      have : procHolds s.proc = some x := by split at hx <;> simpa [record, d4] using hx
      have := h.procId x this
      split <;> simp [record, d5] <;> omega
  | removeLocal lid =>
    simp only [step] at hs
    split at hs
    · simp only [Option.some.injEq] at hs; subst hs
      exact ⟨hf', LogIds_of s _ h.logIds rfl (Nat.le_refl _),
        fun r hr => Good_mono s _ r (h.good r hr) rfl rfl (fun x => x), h.procId⟩
    · simp only [Option.some.injEq] at hs; subst hs; exact Inv_record s h _ _ _
  | isReady id =>
    simp only [step] at hs
    split at hs
    · split at hs <;> (simp only [Option.some.injEq] at hs; subst hs; exact Inv_record s h _ _ _)
    · simp only [Option.some.injEq] at hs; subst hs; exact Inv_record s h _ _ _
  | pollRemote id read =>
    simp only [step] at hs
    split at hs
    · rename_i hidle
      split at hs
      · rename_i hlive
        simp only [Option.some.injEq] at hs; subst hs
        have hmem : id ∈ s.live := by simpa [isLive] using hlive
        refine ⟨hf', LogIds_of s _ h.logIds rfl (Nat.le_refl _), ?_, ?_⟩
        · intro r hr
          refine Good_proc s _ r (h.good r hr) ?_ ?_ ?_ ?_
          · rfl
          · exact fun x => x
          · intro he
            simp only
            intro heq; subst heq
            have hg := h.good r hr
            unfold Good GoodCore at hg
            have := (hg.2.2.2.2.1 he).1
            simp [hmem] at this
          · simp
        · intro x hx
          simp only [procHolds, Option.some.injEq] at hx; subst hx
          obtain ⟨r, hr, hrid⟩ := h.fresh.liveReg id hmem
          have := h.fresh.regsLt r hr
          simp only; omega
      · simp only [Option.some.injEq] at hs; subst hs; exact h
    · simp at hs
  | pending ans =>
    simp only [step] at hs
    split at hs
    · rename_i id read hproc
      split at hs
      · rename_i r0 hfind
        obtain ⟨hr0, hr0id⟩ := findReg_some s id r0 hfind
        have hidlt : id < s.nextRemote := h.procId id (by simp [procHolds, hproc])
        have huniq : ∀ r ∈ s.regs, r.id = id → r = r0 := by
          intro r hr hrid
          have := findReg_unique s h.fresh r hr
          rw [hrid, hfind] at this
          exact (Option.some.inj this).symm
        split at hs
        · simp at hs
        · rename_i hnr
          have hnr' : r0.ready = false := by simpa using hnr
          -- the register being resolved is in its initial phase
          have hph0 : phaseOf r0 s.log = .init := by
            have hg := h.good r0 hr0
            unfold Good GoodCore at hg
            obtain ⟨_, g1, g2, g3, g4, _⟩ := hg
            cases hp : phaseOf r0 s.log with
            | init => rfl
            | est => have := g3 hp; simp [hnr'] at this
            | ended =>
              have := (g4 hp).2
              rw [hproc] at this
              exact absurd hr0id.symm this
            | bad => exact absurd hp g1
          cases ans with
          | ready =>
            simp only [Option.some.injEq] at hs; subst hs
            refine ⟨hf', ?_, ?_, ?_⟩
            · refine LogIds_emit s _ h.logIds _ rfl rfl ?_
              intro x hx
              cases hl : r0.listener <;> simp [hl, Ev.rid] at hx <;> omega
            · intro r' hr'
              simp only [emit] at hr'
              obtain ⟨r, hr, hreq⟩ := List.mem_map.mp (by simpa [setReady] using hr')
              by_cases hrid : r.id = id
              · have hrr0 := huniq r hr hrid
                subst hrr0
                have hr'f : r'.id = r.id ∧ r'.listener = r.listener ∧ r'.ready = true := by
                  rw [← hreq, if_pos hrid]; simp
                obtain ⟨e1, e2, e3⟩ := hr'f
                unfold Good GoodCore
                simp only [emit]
                cases hl : r.listener with
                | none =>
                  have hph : phaseOf r' (s.log ++ [Ev.connected id true]) = .est := by
                    rw [phaseOf_congr r' r _ e1 e2, phaseOf_append, hph0]
                    simp [Ev.rid, hrid, phaseStep, hl]
                  rw [hph, e3]
                  simp
                | some l =>
                  have hph : phaseOf r' (s.log ++ [Ev.accepted id l]) = .est := by
                    rw [phaseOf_congr r' r _ e1 e2, phaseOf_append, hph0]
                    simp [Ev.rid, hrid, phaseStep, hl]
                  rw [hph, e3]
                  simp
              · have hreq' : r' = r := by rw [← hreq, if_neg hrid]
                subst hreq'
                refine Good_proc s _ r' (h.good r' hr) ?_ (fun x => x) ?_ ?_
                · simp only [emit]
                  apply phaseOf_emit_other
                  cases r0.listener <;> simp [Ev.rid] <;> exact fun hh => hrid hh.symm
                · intro _; simp only [emit]; intro heq; exact absurd heq.symm hrid
                · simp [emit]
            · intro x hx
              simp only [emit, procHolds, Option.some.injEq] at hx; subst hx
              simpa [emit] using hidlt
          | incomplete =>
            simp only [Option.some.injEq] at hs; subst hs
            refine ⟨hf', LogIds_of s _ h.logIds rfl (Nat.le_refl _), ?_, ?_⟩
            · intro r hr
              refine Good_proc s _ r (h.good r hr) rfl (fun x => x) ?_ ?_
              · intro _; simp only; intro heq
                rw [huniq r hr heq.symm]; exact hnr'
              · simp
            · intro x hx
              simp only [procHolds, Option.some.injEq] at hx; subst hx; exact hidlt
          | disconnected =>
            simp only [Option.some.injEq] at hs; subst hs
            obtain ⟨d1, d2, d3, d4, d5, d6, d7⟩ := deregister_live s id .procPending
            have hnotlive : ((deregister s id .procPending).2.live.contains id) = false := by
              rw [d1]; simp
            refine ⟨hf', ?_, ?_, ?_⟩
            · cases hl : r0.listener with
              | none =>
                simp only [hl]
                refine LogIds_emit s _ h.logIds (.connected id false) (by simp [emit, d3]) (by simp [emit, d5]) ?_
                intro x hx; simp [Ev.rid] at hx; omega
              | some l =>
                simp only [hl]
                exact LogIds_of s _ h.logIds (by simp [d3]) (by simp [d5])
            · intro r hr
              have hr' : r ∈ s.regs := by
                cases hl : r0.listener <;> simp only [hl] at hr <;> simpa [emit, d2] using hr
              by_cases hrid : r.id = id
              · have hrr0 := huniq r hr' hrid
                subst hrr0
                cases hl : r.listener with
                | none =>
                  simp only [hl]
                  unfold Good GoodCore
                  have hph : phaseOf r ((deregister s id .procPending).2.log ++ [Ev.connected id false]) = .ended := by
                    rw [phaseOf_append, d3, hph0]
                    simp [Ev.rid, hrid, phaseStep, hl]
                  simp only [emit]
                  rw [hph, d1]
                  simp [hrid, hnr', hl]
                | some l =>
                  simp only [hl]
                  unfold Good GoodCore
                  simp only [d3, hph0]
                  simp [hnr']
              · refine Good_proc s _ r (h.good r hr') ?_ ?_ ?_ ?_
                · cases hl : r0.listener with
                  | none =>
                    simp only [hl, emit]
                    rw [phaseOf_append, d3]
                    simp [Ev.rid]; intro hh; exact absurd hh.symm hrid
                  | some l => simp only [hl, d3]
                · intro hc
                  have : (deregister s id .procPending).2.live.contains r.id = true := by
                    cases hl : r0.listener <;> simp only [hl] at hc <;> simpa [emit] using hc
                  rw [d1] at this
                  exact contains_filter_ne _ _ _ this
                · intro _
                  cases hl : r0.listener <;> simp only [hl, emit] <;> (intro heq; exact absurd heq.symm hrid)
                · cases hl : r0.listener <;> simp [hl, emit]
            · intro x hx
              have : x = id := by
                cases hl : r0.listener <;> simp only [hl] at hx <;> simpa [emit, procHolds] using hx.symm
              subst this
              cases hl : r0.listener <;> simp [hl, emit, d5] <;> exact hidlt
      · simp at hs
    · simp at hs
  | checkReady =>
    simp only [step] at hs
    split at hs
    · rename_i id read hproc
      split at hs
      · rename_i r0 hfind
        obtain ⟨hr0, hr0id⟩ := findReg_some s id r0 hfind
        split at hs
        · simp only [Option.some.injEq] at hs; subst hs
          refine ⟨hf', LogIds_of s _ h.logIds rfl (Nat.le_refl _), ?_, ?_⟩
          · intro r hr
            refine Good_proc s _ r (h.good r hr) rfl (fun x => x) ?_ ?_
            · intro he
              simp only
              intro heq
              have hg := h.good r hr
              unfold Good GoodCore at hg
              have := (hg.2.2.2.2.1 he).2
              rw [hproc] at this
              exact absurd heq this
            · simp
          · intro x hx
            simp only [procHolds, Option.some.injEq] at hx; subst hx
            exact h.procId id (by simp [procHolds, hproc])
        · simp at hs
      · simp at hs
    · simp at hs
  | beginReceive n disc =>
    simp only [step] at hs
    split at hs
    · rename_i id read hproc
      split at hs
      · rename_i r0 hfind
        obtain ⟨hr0, hr0id⟩ := findReg_some s id r0 hfind
        have huniq : ∀ r ∈ s.regs, r.id = id → r = r0 := by
          intro r hr hrid
          have := findReg_unique s h.fresh r hr
          rw [hrid, hfind] at this
          exact (Option.some.inj this).symm
        have toIdle : Inv { s with proc := .idle } :=
          ⟨Fresh_of_eq s _ h.fresh rfl rfl rfl rfl rfl rfl, LogIds_of s _ h.logIds rfl (Nat.le_refl _),
            fun r hr => Good_proc s _ r (h.good r hr) rfl (fun x => x) (fun _ => trivial) trivial,
            fun x hx => by simp [procHolds] at hx⟩
        split at hs
        · rename_i hready
          split at hs
          · simp only [Option.some.injEq] at hs; subst hs
            refine ⟨hf', LogIds_of s _ h.logIds rfl (Nat.le_refl _), ?_, ?_⟩
            · intro r hr
              refine Good_proc s _ r (h.good r hr) rfl (fun x => x) ?_ ?_
              · intro he
                simp only
                intro heq
                have hrr0 := huniq r hr heq.symm
                subst hrr0
                have hg := h.good r hr
                unfold Good GoodCore at hg
                have := (hg.2.2.2.2.1 he).2
                rw [hproc] at this
                have := this heq
                simp [hready] at this
              · simp only; intro heq
                rw [huniq r hr heq.symm]; exact hready
            · intro x hx
              simp only [procHolds, Option.some.injEq] at hx; subst hx
              exact h.procId id (by simp [procHolds, hproc])
          · simp only [Option.some.injEq] at hs; subst hs; exact toIdle
        · split at hs
          · simp only [Option.some.injEq] at hs; subst hs; exact toIdle
          · simp at hs
      · simp at hs
    · simp at hs
  | deliver =>
    simp only [step] at hs
    split at hs
    · rename_i id left disc hproc
      simp only [Option.some.injEq] at hs; subst hs
      have hidlt : id < s.nextRemote := h.procId id (by simp [procHolds, hproc])
      refine ⟨hf', ?_, ?_, ?_⟩
      · refine LogIds_emit s _ h.logIds (.message id) rfl rfl ?_
        intro x hx; simp [Ev.rid] at hx; omega
      · intro r hr
        simp only [emit] at hr
        have hg := h.good r hr
        by_cases hrid : r.id = id
        · unfold Good GoodCore at hg ⊢
          rw [hproc] at hg
          obtain ⟨_, g1, g2, g3, g4, g5⟩ := hg
          have hready : r.ready = true := g5 hrid.symm
          have hph : phaseOf r s.log = .est := by
            cases hp : phaseOf r s.log with
            | init => have := g2 hp; simp [hready] at this
            | est => rfl
            | ended => exact absurd hrid.symm (g4 hp).2
            | bad => exact absurd hp g1
          simp only [emit]
          rw [phaseOf_append, hph]
          simp [Ev.rid, hrid, phaseStep, hready]
        · refine Good_proc s _ r hg ?_ (fun x => x) ?_ ?_
          · simp only [emit]; rw [phaseOf_append]; simp [Ev.rid]; intro hh; exact absurd hh.symm hrid
          · intro _; simp only [emit]; intro heq; exact absurd heq.symm hrid
          · simp only [emit]; intro heq; exact absurd heq.symm hrid
      · intro x hx
        simp only [emit, procHolds, Option.some.injEq] at hx; subst hx
        simpa [emit] using hidlt
    · simp at hs
  | endReceive =>
    simp only [step] at hs
    split at hs
    · rename_i id disc hproc
      simp only [Option.some.injEq] at hs; subst hs
      refine ⟨hf', LogIds_of s _ h.logIds rfl (Nat.le_refl _), ?_, ?_⟩
      · intro r hr
        have hg := h.good r hr
        refine Good_proc s _ r hg rfl (fun x => x) ?_ ?_
        · intro he
          unfold Good GoodCore at hg
          have := (hg.2.2.2.2.1 he).2
          rw [hproc] at this
          exact this
        · unfold Good GoodCore at hg
          have := hg.2.2.2.2.2
          rw [hproc] at this
          exact this
      · intro x hx
        simp only [procHolds, Option.some.injEq] at hx; subst hx
        exact h.procId id (by simp [procHolds, hproc])
    · simp at hs
  | finish =>
    simp only [step] at hs
    split at hs
    · rename_i id disc hproc
      have hidlt : id < s.nextRemote := h.procId id (by simp [procHolds, hproc])
      have toIdle : Inv { s with proc := .idle } :=
        ⟨Fresh_of_eq s _ h.fresh rfl rfl rfl rfl rfl rfl, LogIds_of s _ h.logIds rfl (Nat.le_refl _),
          fun r hr => Good_proc s _ r (h.good r hr) rfl (fun x => x) (fun _ => trivial) trivial,
          fun x hx => by simp [procHolds] at hx⟩
      split at hs
      · obtain ⟨d1, d2, d3, d4, d5, d6, d7⟩ := deregister_live s id .procRead
        have hest : ∀ r ∈ s.regs, r.id = id → r.ready = true ∧ phaseOf r s.log = .est := by
          intro r hr hrid
          have hg := h.good r hr
          unfold Good GoodCore at hg
          rw [hproc] at hg
          obtain ⟨_, g1, g2, g3, g4, g5⟩ := hg
          have hready : r.ready = true := g5 hrid.symm
          refine ⟨hready, ?_⟩
          cases hp : phaseOf r s.log with
          | init => have := g2 hp; simp [hready] at this
          | est => rfl
          | ended => exact absurd hrid.symm (g4 hp).2
          | bad => exact absurd hp g1
        by_cases hok : (deregister s id Who.procRead).1 = true
        · simp only [hok, if_true, Option.some.injEq] at hs; subst hs
          refine ⟨hf', ?_, ?_, ?_⟩
          · refine LogIds_emit s _ h.logIds (.disconnected id) (by simp [emit, d3]) (by simp [emit, d5]) ?_
            intro x hx; simp [Ev.rid] at hx; omega
          · intro r hr
            have hr' : r ∈ s.regs := by simpa [emit, d2] using hr
            by_cases hrid : r.id = id
            · obtain ⟨hready, hph⟩ := hest r hr' hrid
              unfold Good GoodCore
              simp only [emit]
              rw [phaseOf_append, d3, hph, d1]
              simp [Ev.rid, hrid, phaseStep, hready]
            · refine Good_proc s _ r (h.good r hr') ?_ ?_ (fun _ => trivial) trivial
              · simp only [emit]; rw [d3]; apply phaseOf_emit_other; simp [Ev.rid]; exact fun hh => hrid hh.symm
              · intro hc
                simp only [emit] at hc
                rw [d1] at hc
                exact contains_filter_ne _ _ _ hc
          · intro x hx; simp [emit, procHolds] at hx
        · simp only [hok, if_false, Option.some.injEq] at hs; subst hs
          refine ⟨hf', LogIds_of s _ h.logIds (by simp [d3]) (by simp [d5]), ?_, ?_⟩
          · intro r hr
            have hr' : r ∈ s.regs := by simpa [d2] using hr
            refine Good_proc s _ r (h.good r hr') (by simp [d3]) ?_ (fun _ => trivial) trivial
            intro hc
            rw [d1] at hc
            exact contains_filter_ne _ _ _ hc
          · intro x hx; simp [procHolds] at hx
      · simp only [Option.some.injEq] at hs; subst hs; exact toIdle
    · simp at hs
  | pollLocal lid remotes datas =>
    simp only [step] at hs
    split at hs
    · split at hs
      · simp only [Option.some.injEq] at hs; subst hs
        exact ⟨hf', LogIds_of s _ h.logIds rfl (Nat.le_refl _),
          fun r hr => Good_proc s _ r (h.good r hr) rfl (fun x => x) (fun _ => trivial) trivial,
          fun x hx => by simp [procHolds] at hx⟩
      · simp only [Option.some.injEq] at hs; subst hs; exact h
    · simp at hs
  | acceptOne =>
    simp only [step] at hs
    split at hs
    · rename_i lid peer rest datas hproc
      simp only [Option.some.injEq] at hs; subst hs
      refine ⟨hf', LogIds_of s _ h.logIds rfl (by simp), ?_, ?_⟩
      · intro r hr
        simp only at hr
        rcases List.mem_append.mp hr with hr | hr
        · refine Good_proc s _ r (h.good r hr) rfl ?_ (fun _ => trivial) trivial
          intro hc
          simp only [List.contains_eq_mem, List.mem_append, List.mem_singleton, decide_eq_true_eq] at hc ⊢
          rcases hc with hc | hc
          · exact hc
          · have := h.fresh.regsLt r hr; omega
        · simp only [List.mem_singleton] at hr; subst hr
          exact Good_new s _ h.logIds _ rfl rfl rfl trivial
      · intro x hx; simp [procHolds] at hx
    · simp only [Option.some.injEq] at hs; subst hs
      refine ⟨hf', ?_, ?_, ?_⟩
      · refine LogIds_emit s _ h.logIds _ rfl rfl ?_
        intro x hx; simp [Ev.rid] at hx
      · intro r hr
        refine Good_proc s _ r (h.good r hr) ?_ (fun x => x) (fun _ => trivial) trivial
        simp only [emit]; rw [phaseOf_append]; simp [Ev.rid]
      · intro x hx; simp [emit, procHolds] at hx
    · simp only [Option.some.injEq] at hs; subst hs
      exact ⟨hf', LogIds_of s _ h.logIds rfl (Nat.le_refl _),
        fun r hr => Good_proc s _ r (h.good r hr) rfl (fun x => x) (fun _ => trivial) trivial,
        fun x hx => by simp [procHolds] at hx⟩
    · simp at hs

theorem reachable_inv (s : St) (h : Reachable s) : Inv s := by
  obtain ⟨acts, hr⟩ := h
  exact run_preserves (P := Inv) step_inv acts _ s Inv_init hr

/-! ### how a step changes the registry: it registers one fresh id, or registers nothing -/

inductive Shape (s s' : St) : Prop where
  | same (hn : s'.nextRemote = s.nextRemote) (hl : ∀ x, x ∈ s'.live → x ∈ s.live)
      (hr : s'.regs.map (·.id) = s.regs.map (·.id))
  | reg (r : Reg) (hid : r.id = s.nextRemote) (hn : s'.nextRemote = s.nextRemote + 1)
      (hl : s'.live = s.live ++ [s.nextRemote]) (hr : s'.regs = s.regs ++ [r])

theorem deregister_shape (s : St) (id : Nat) (w : Who) :
    (deregister s id w).2.nextRemote = s.nextRemote ∧ (∀ x, x ∈ (deregister s id w).2.live → x ∈ s.live) ∧
    (deregister s id w).2.regs = s.regs := by
  obtain ⟨d1, d2, d3, d4, d5, d6, d7⟩ := deregister_live s id w
  refine ⟨d5, ?_, d2⟩
  intro x hx; rw [d1] at hx; exact (List.mem_filter.mp hx).1

theorem step_shape (s s' : St) (a : Act) (hs : step s a = some s') : Shape s s' := by
  cases a with
  | connect peer =>
    simp only [step, Option.some.injEq] at hs; subst hs
    exact .reg ⟨s.nextRemote, none, false, peer⟩ rfl rfl rfl rfl
  | listen => simp only [step, Option.some.injEq] at hs; subst hs; exact .same rfl (fun _ h => h) rfl
  | send id adapter =>
    simp only [step] at hs
    split at hs
    · split at hs
      · split at hs <;> (simp only [Option.some.injEq] at hs; subst hs; exact .same rfl (fun _ h => h) rfl)
      · simp only [Option.some.injEq] at hs; subst hs; exact .same rfl (fun _ h => h) rfl
    · simp only [Option.some.injEq] at hs; subst hs; exact .same rfl (fun _ h => h) rfl
  | sendLocal lid adapter =>
    simp only [step] at hs
    split at hs <;> (simp only [Option.some.injEq] at hs; subst hs; exact .same rfl (fun _ h => h) rfl)
  | remove id =>
    simp only [step, Option.some.injEq] at hs; subst hs
    obtain ⟨e1, e2, e3⟩ := deregister_shape s id .user
    split <;> exact .same (by simp [record, e1]) (by simpa [record] using e2) (by simp [record, e3])
  | removeLocal lid =>
    simp only [step] at hs
    split at hs <;> (simp only [Option.some.injEq] at hs; subst hs; exact .same rfl (fun _ h => h) rfl)
  | isReady id =>
    simp only [step] at hs
    split at hs
    · split at hs <;> (simp only [Option.some.injEq] at hs; subst hs; exact .same rfl (fun _ h => h) rfl)
    · simp only [Option.some.injEq] at hs; subst hs; exact .same rfl (fun _ h => h) rfl
  | pollRemote id read =>
    simp only [step] at hs
    split at hs
    · split at hs <;> (simp only [Option.some.injEq] at hs; subst hs; exact .same rfl (fun _ h => h) rfl)
    · simp at hs
  | pending ans =>
    simp only [step] at hs
    split at hs
    · split at hs
      · split at hs
        · simp at hs
        · cases ans with
          | ready =>
            simp only [Option.some.injEq] at hs; subst hs
            exact .same rfl (fun _ h => h) (by simp [emit, setReady_ids])
          | incomplete => simp only [Option.some.injEq] at hs; subst hs; exact .same rfl (fun _ h => h) rfl
          | disconnected =>
            simp only [Option.some.injEq] at hs; subst hs
            have hd := fun id => deregister_shape s id .procPending
            split <;> exact .same (by simp [emit, (hd _).1]) (by simpa [emit] using (hd _).2.1) (by simp [emit, (hd _).2.2])
      · simp at hs
    · simp at hs
  | checkReady =>
    simp only [step] at hs
    split at hs
    · split at hs
      · split at hs
        · simp only [Option.some.injEq] at hs; subst hs; exact .same rfl (fun _ h => h) rfl
        · simp at hs
      · simp at hs
    · simp at hs
  | beginReceive n disc =>
    simp only [step] at hs
    split at hs
    · split at hs
      · split at hs
        · split at hs <;> (simp only [Option.some.injEq] at hs; subst hs; exact .same rfl (fun _ h => h) rfl)
        · split at hs
          · simp only [Option.some.injEq] at hs; subst hs; exact .same rfl (fun _ h => h) rfl
          · simp at hs
      · simp at hs
    · simp at hs
  | deliver =>
    simp only [step] at hs
    split at hs
    · simp only [Option.some.injEq] at hs; subst hs; exact .same rfl (fun _ h => h) rfl
    · simp at hs
  | endReceive =>
    simp only [step] at hs
    split at hs
    · simp only [Option.some.injEq] at hs; subst hs; exact .same rfl (fun _ h => h) rfl
    · simp at hs
  | finish =>
    simp only [step] at hs
    split at hs
    · split at hs
      · simp only [Option.some.injEq] at hs; subst hs
        have hd := fun id => deregister_shape s id .procRead
        split <;> exact .same (by simp [emit, (hd _).1]) (by simpa [emit] using (hd _).2.1) (by simp [emit, (hd _).2.2])
      · simp only [Option.some.injEq] at hs; subst hs; exact .same rfl (fun _ h => h) rfl
    · simp at hs
  | pollLocal lid remotes datas =>
    simp only [step] at hs
    split at hs
    · split at hs <;> (simp only [Option.some.injEq] at hs; subst hs; exact .same rfl (fun _ h => h) rfl)
    · simp at hs
  | acceptOne =>
    simp only [step] at hs
    split at hs
    · rename_i lid peer rest datas _
      simp only [Option.some.injEq] at hs; subst hs
      exact .reg ⟨s.nextRemote, some lid, false, peer⟩ rfl rfl rfl rfl
    · simp only [Option.some.injEq] at hs; subst hs; exact .same rfl (fun _ h => h) rfl
    · simp only [Option.some.injEq] at hs; subst hs; exact .same rfl (fun _ h => h) rfl
    · simp at hs

/-- once an id is out of the registry it never comes back (ids are never reused) -/
theorem run_not_live : ∀ (acts : List Act) (s s' : St) (id : Nat), id < s.nextRemote → id ∉ s.live →
    run s acts = some s' → id ∉ s'.live ∧ id < s'.nextRemote := by
  intro acts
  induction acts with
  | nil => intro s s' id h1 h2 hr; simp only [run, Option.some.injEq] at hr; subst hr; exact ⟨h2, h1⟩
  | cons a as ih =>
    intro s s' id h1 h2 hr
    simp only [run] at hr
    split at hr
    · rename_i s1 hs1
      cases step_shape s s1 a hs1 with
      | same hn hl _ => exact ih s1 s' id (by omega) (fun hm => h2 (hl id hm)) hr
      | reg r hid hn hl _ =>
        refine ih s1 s' id (by omega) ?_ hr
        rw [hl]; intro hm
        rcases List.mem_append.mp hm with hm | hm
        · exact h2 hm
        · simp only [List.mem_singleton] at hm; omega
    · simp at hr

/-- every id handed out so far has a register -/
def RegsAll (s : St) : Prop := ∀ id, id < s.nextRemote → id ∈ s.regs.map (·.id)

theorem reachable_regsAll (s : St) (h : Reachable s) : RegsAll s := by
  obtain ⟨acts, hr⟩ := h
  refine run_preserves (P := RegsAll) ?_ acts _ s (by intro id h; simp at h) hr
  intro s s' a hi hs id hid
  cases step_shape s s' a hs with
  | same hn _ hr => rw [hr]; exact hi id (by omega)
  | reg r hrid hn _ hr =>
    rw [hr, List.map_append]
    by_cases hlt : id < s.nextRemote
    · exact List.mem_append_left _ (hi id hlt)
    · apply List.mem_append_right
      simp only [List.map_cons, List.map_nil, List.mem_singleton]; omega

/-! ### what a step appends to the event log and to the deregistration record (C04) -/

def isDisc : Ev → Bool
  | .disconnected _ => true
  | _ => false

inductive Delta (s s' : St) : Prop where
  | quiet (evs : List Ev) (hlog : s'.log = s.log ++ evs) (hev : ∀ e ∈ evs, isDisc e = false)
      (hd : s'.dereg = s.dereg) (hr : s'.removeTrue = s.removeTrue)
  | userRemove (id : Nat) (hlog : s'.log = s.log) (hd : s'.dereg = s.dereg ++ [(id, .user)])
      (hr : s'.removeTrue = s.removeTrue ++ [id])
  | procDisc (id : Nat) (hlog : s'.log = s.log ++ [.disconnected id])
      (hd : s'.dereg = s.dereg ++ [(id, .procRead)]) (hr : s'.removeTrue = s.removeTrue)
      (hproc : ∃ d, s.proc = .afterReceive id d)
  | pendFail (id : Nat) (evs : List Ev) (hlog : s'.log = s.log ++ evs) (hev : ∀ e ∈ evs, isDisc e = false)
      (hd : s'.dereg = s.dereg ++ [(id, .procPending)]) (hr : s'.removeTrue = s.removeTrue)

theorem deregister_delta (s : St) (id : Nat) (w : Who) :
    ((deregister s id w).1 = true ∧ (deregister s id w).2.dereg = s.dereg ++ [(id, w)]) ∨
    ((deregister s id w).1 = false ∧ (deregister s id w).2.dereg = s.dereg) := by
  unfold deregister
  split <;> simp

theorem step_delta (s s' : St) (a : Act) (hs : step s a = some s') : Delta s s' := by
  have q0 : ∀ t : St, t.log = s.log → t.dereg = s.dereg → t.removeTrue = s.removeTrue → Delta s t :=
    fun t h1 h2 h3 => .quiet [] (by simp [h1]) (by simp) h2 h3
  cases a with
  | connect peer => simp only [step, Option.some.injEq] at hs; subst hs; exact q0 _ rfl rfl rfl
  | listen => simp only [step, Option.some.injEq] at hs; subst hs; exact q0 _ rfl rfl rfl
  | send id adapter =>
    simp only [step] at hs
    split at hs
    · split at hs
      · split at hs <;> (simp only [Option.some.injEq] at hs; subst hs; exact q0 _ rfl rfl rfl)
      · simp only [Option.some.injEq] at hs; subst hs; exact q0 _ rfl rfl rfl
    · simp only [Option.some.injEq] at hs; subst hs; exact q0 _ rfl rfl rfl
  | sendLocal lid adapter =>
    simp only [step] at hs
    split at hs <;> (simp only [Option.some.injEq] at hs; subst hs; exact q0 _ rfl rfl rfl)
  | remove id =>
    simp only [step, Option.some.injEq] at hs; subst hs
    obtain ⟨d1, d2, d3, d4, d5, d6, d7⟩ := deregister_live s id .user
    rcases deregister_delta s id .user with ⟨h1, h2⟩ | ⟨h1, h2⟩
    · simp only [h1, if_true]
      exact .userRemove id (by simp [record, d3]) (by simp [record, h2]) (by simp [record, d6])
    · simp only [h1]
      exact q0 _ (by simp [record, d3]) (by simp [record, h2]) (by simp [record, d6])
  | removeLocal lid =>
    simp only [step] at hs
    split at hs <;> (simp only [Option.some.injEq] at hs; subst hs; exact q0 _ rfl rfl rfl)
  | isReady id =>
    simp only [step] at hs
    split at hs
    · split at hs <;> (simp only [Option.some.injEq] at hs; subst hs; exact q0 _ rfl rfl rfl)
    · simp only [Option.some.injEq] at hs; subst hs; exact q0 _ rfl rfl rfl
  | pollRemote id read =>
    simp only [step] at hs
    split at hs
    · split at hs <;> (simp only [Option.some.injEq] at hs; subst hs; exact q0 _ rfl rfl rfl)
    · simp at hs
  | pending ans =>
    simp only [step] at hs
    split at hs
    · rename_i id read _
      split at hs
      · rename_i r0 _
        split at hs
        · simp at hs
        · cases ans with
          | ready =>
            simp only [Option.some.injEq] at hs; subst hs
            refine .quiet [_] rfl ?_ rfl rfl
            intro e he; simp only [List.mem_singleton] at he; subst he
            cases r0.listener <;> rfl
          | incomplete => simp only [Option.some.injEq] at hs; subst hs; exact q0 _ rfl rfl rfl
          | disconnected =>
            simp only [Option.some.injEq] at hs; subst hs
            obtain ⟨d1, d2, d3, d4, d5, d6, d7⟩ := deregister_live s id .procPending
            rcases deregister_delta s id .procPending with ⟨h1, h2⟩ | ⟨h1, h2⟩
            · cases hl : r0.listener with
              | none =>
                simp only [hl]
                exact .pendFail id [.connected id false] (by simp [emit, d3])
                  (by intro e he; simp only [List.mem_singleton] at he; subst he; rfl) (by simp [emit, h2]) (by simp [emit, d6])
              | some l =>
                simp only [hl]
                exact .pendFail id [] (by simp [d3]) (by simp) (by simp [h2]) (by simp [d6])
            · cases hl : r0.listener with
              | none =>
                simp only [hl]
                exact .quiet [.connected id false] (by simp [emit, d3])
                  (by intro e he; simp only [List.mem_singleton] at he; subst he; rfl) (by simp [emit, h2]) (by simp [emit, d6])
              | some l => simp only [hl]; exact q0 _ (by simp [d3]) (by simp [h2]) (by simp [d6])
      · simp at hs
    · simp at hs
  | checkReady =>
    simp only [step] at hs
    split at hs
    · split at hs
      · split at hs
        · simp only [Option.some.injEq] at hs; subst hs; exact q0 _ rfl rfl rfl
        · simp at hs
      · simp at hs
    · simp at hs
  | beginReceive n disc =>
    simp only [step] at hs
    split at hs
    · split at hs
      · split at hs
        · split at hs <;> (simp only [Option.some.injEq] at hs; subst hs; exact q0 _ rfl rfl rfl)
        · split at hs
          · simp only [Option.some.injEq] at hs; subst hs; exact q0 _ rfl rfl rfl
          · simp at hs
      · simp at hs
    · simp at hs
  | deliver =>
    simp only [step] at hs
    split at hs
    · simp only [Option.some.injEq] at hs; subst hs
      exact .quiet [_] rfl (by intro e he; simp only [List.mem_singleton] at he; subst he; rfl) rfl rfl
    · simp at hs
  | endReceive =>
    simp only [step] at hs
    split at hs
    · simp only [Option.some.injEq] at hs; subst hs; exact q0 _ rfl rfl rfl
    · simp at hs
  | finish =>
    simp only [step] at hs
    split at hs
    · rename_i id disc hproc
      split at hs
      · obtain ⟨d1, d2, d3, d4, d5, d6, d7⟩ := deregister_live s id .procRead
        rcases deregister_delta s id .procRead with ⟨h1, h2⟩ | ⟨h1, h2⟩
        · simp only [h1, if_true, Option.some.injEq] at hs; subst hs
          exact .procDisc id (by simp [emit, d3]) (by simp [emit, h2]) (by simp [emit, d6]) ⟨disc, hproc⟩
        · simp only [h1, Option.some.injEq] at hs
          simp only [Bool.false_eq_true, if_false] at hs; subst hs
          exact q0 _ (by simp [d3]) (by simp [h2]) (by simp [d6])
      · simp only [Option.some.injEq] at hs; subst hs; exact q0 _ rfl rfl rfl
    · simp at hs
  | pollLocal lid remotes datas =>
    simp only [step] at hs
    split at hs
    · split at hs <;> (simp only [Option.some.injEq] at hs; subst hs; exact q0 _ rfl rfl rfl)
    · simp at hs
  | acceptOne =>
    simp only [step] at hs
    split at hs
    · simp only [Option.some.injEq] at hs; subst hs; exact q0 _ rfl rfl rfl
    · simp only [Option.some.injEq] at hs; subst hs
      exact .quiet [_] rfl (by intro e he; simp only [List.mem_singleton] at he; subst he; rfl) rfl rfl
    · simp only [Option.some.injEq] at hs; subst hs; exact q0 _ rfl rfl rfl
    · simp at hs

/-- `Disconnected` events and successful `remove()` calls are exactly the successful
deregistrations by the read path and by the user -/
def CountInv (s : St) : Prop :=
  (∀ id, s.log.count (.disconnected id) = s.dereg.count (id, .procRead)) ∧
  (∀ id, s.removeTrue.count id = s.dereg.count (id, .user))

theorem count_quiet (evs : List Ev) (hev : ∀ e ∈ evs, isDisc e = false) (id : Nat) :
    evs.count (.disconnected id) = 0 := by
  rw [List.count_eq_zero]
  intro hm
  have := hev _ hm
  simp [isDisc] at this

theorem step_countinv (s s' : St) (a : Act) (h : CountInv s) (hs : step s a = some s') : CountInv s' := by
  obtain ⟨h1, h2⟩ := h
  cases step_delta s s' a hs with
  | quiet evs hlog hev hd hr =>
    constructor
    · intro id; rw [hlog, hd, List.count_append, count_quiet evs hev id, h1 id]; simp
    · intro id; rw [hr, hd, h2 id]
  | userRemove id0 hlog hd hr =>
    constructor
    · intro id; rw [hlog, hd, List.count_append, h1 id]; simp
    · intro id
      rw [hr, hd, List.count_append, List.count_append, h2 id]
      by_cases he : id0 = id <;> simp [he]
  | procDisc id0 hlog hd hr _ =>
    constructor
    · intro id
      rw [hlog, hd, List.count_append, List.count_append, h1 id]
      by_cases he : id0 = id <;> simp [he]
    · intro id; rw [hr, hd, List.count_append, h2 id]; simp
  | pendFail id0 evs hlog hev hd hr =>
    constructor
    · intro id; rw [hlog, hd, List.count_append, List.count_append, count_quiet evs hev id, h1 id]; simp
    · intro id; rw [hr, hd, List.count_append, h2 id]; simp

theorem reachable_countinv (s : St) (h : Reachable s) : CountInv s := by
  obtain ⟨acts, hr⟩ := h
  exact run_preserves (P := CountInv) step_countinv acts _ s (by constructor <;> intro id <;> simp) hr

/-- pairs with distinct first components: two pairs with the same first component count at most once -/
theorem count_pair_le_one (l : List (Nat × Who)) (h : (l.map (·.1)).Nodup) (id : Nat) (w1 w2 : Who)
    (hne : w1 ≠ w2) : l.count (id, w1) + l.count (id, w2) ≤ 1 := by
  induction l with
  | nil => simp
  | cons x xs ih =>
    simp only [List.map_cons, List.nodup_cons] at h
    have := ih h.2
    simp only [List.count_cons]
    by_cases hx : x.1 = id
    · have hz : ∀ w, xs.count (id, w) = 0 := by
        intro w
        rw [List.count_eq_zero]
        intro hm
        exact h.1 (hx ▸ List.mem_map.mpr ⟨(id, w), hm, rfl⟩)
      rw [hz w1, hz w2]
      obtain ⟨a, b⟩ := x
      simp only at hx; subst hx
      by_cases hb1 : b = w1
      · subst hb1; simp [hne]
      · by_cases hb2 : b = w2
        · subst hb2; simp [hb1]
        · simp [hb1, hb2]
    · have e1 : (x == (id, w1)) = false := by
        obtain ⟨a, b⟩ := x; simp at hx ⊢; intro h; exact absurd h hx
      have e2 : (x == (id, w2)) = false := by
        obtain ⟨a, b⟩ := x; simp at hx ⊢; intro h; exact absurd h hx
      simp only [e1, e2]
      simpa using this

end Mio.Net
