import MioModel.Net
/-! Invariants of the driver model M5. -/
namespace Mio.Net

/-! ### freshness: ids are never reused -/

structure Fresh (s : St) : Prop where
  regsLt : ∀ r ∈ s.regs, r.id < s.nextRemote
  regsNodup : (s.regs.map (·.id)).Nodup
  liveReg : ∀ id ∈ s.live, ∃ r ∈ s.regs, r.id = id
  liveNodup : s.live.Nodup
  deregNot : ∀ x ∈ s.dereg, x.1 ∉ s.live ∧ x.1 < s.nextRemote
  deregNodup : (s.dereg.map (·.1)).Nodup
  localsLt : ∀ l ∈ s.locals, l < s.nextLocal

theorem Fresh_init : Fresh {} := by constructor <;> simp

theorem setReady_ids (regs : List Reg) (id : Nat) : (setReady regs id).map (·.id) = regs.map (·.id) := by
  unfold setReady
  rw [List.map_map]
  apply List.map_congr_left
  intro r _
  simp only [Function.comp]
  split <;> rfl

theorem mem_setReady (regs : List Reg) (id : Nat) (r : Reg) (h : r ∈ setReady regs id) :
    ∃ r0 ∈ regs, r0.id = r.id ∧ r0.listener = r.listener ∧ r0.peer = r.peer ∧
      (r.ready = true ∨ r = r0) := by
  unfold setReady at h
  obtain ⟨r0, h0, h1⟩ := List.mem_map.mp h
  refine ⟨r0, h0, ?_⟩
  split at h1 <;> subst h1 <;> simp

theorem deregister_fresh (s : St) (id : Nat) (who : Who) (h : Fresh s) : Fresh (deregister s id who).2 := by
  unfold deregister
  split
  · rename_i hl
    have hmem : id ∈ s.live := by simpa [isLive] using hl
    constructor
    · exact h.regsLt
    · exact h.regsNodup
    · intro x hx; exact h.liveReg x (List.mem_filter.mp hx).1
    · exact h.liveNodup.filter _
    · intro x hx
      simp only at hx ⊢
      rcases List.mem_append.mp hx with hx | hx
      · obtain ⟨h1, h2⟩ := h.deregNot x hx
        exact ⟨fun hm => h1 (List.mem_filter.mp hm).1, h2⟩
      · simp only [List.mem_singleton] at hx; subst hx
        refine ⟨by simp, ?_⟩
        obtain ⟨r, hr, hrid⟩ := h.liveReg id hmem
        have := h.regsLt r hr
        simp only; omega
    · simp only [List.map_append, List.map_cons, List.map_nil]
      rw [List.nodup_append]
      refine ⟨h.deregNodup, by simp, ?_⟩
      intro a ha b hb
      simp only [List.mem_singleton] at hb; subst hb
      intro hab; subst hab
      obtain ⟨x, hx, hxa⟩ := List.mem_map.mp ha
      exact (h.deregNot x hx).1 (hxa ▸ hmem)
    · exact h.localsLt
  · exact h

theorem deregister_live (s : St) (id : Nat) (who : Who) :
    (deregister s id who).2.live = s.live.filter (· ≠ id) ∧ (deregister s id who).2.regs = s.regs ∧
    (deregister s id who).2.log = s.log ∧ (deregister s id who).2.proc = s.proc ∧
    (deregister s id who).2.nextRemote = s.nextRemote ∧ (deregister s id who).2.removeTrue = s.removeTrue ∧
    ((deregister s id who).1 = true ↔ id ∈ s.live) := by
  unfold deregister
  split
  · rename_i hl
    have : id ∈ s.live := by simpa [isLive] using hl
    simp [this]
  · rename_i hl
    have hn : id ∉ s.live := by simpa [isLive] using hl
    refine ⟨?_, rfl, rfl, rfl, rfl, rfl, by simp [hn]⟩
    simp only
    rw [List.filter_eq_self.mpr]
    intro a ha
    simp only [ne_eq, decide_eq_true_eq]
    intro hab; subst hab; exact hn ha

theorem Fresh_of_eq (s s' : St) (h : Fresh s) (h1 : s'.regs.map (·.id) = s.regs.map (·.id))
    (h2 : s'.live = s.live) (h3 : s'.nextRemote = s.nextRemote) (h4 : s'.dereg = s.dereg)
    (h5 : s'.locals = s.locals) (h6 : s'.nextLocal = s.nextLocal) : Fresh s' := by
  have hmem : ∀ id, (∃ r ∈ s'.regs, r.id = id) ↔ (∃ r ∈ s.regs, r.id = id) := by
    intro id
    have : (id ∈ s'.regs.map (·.id)) ↔ (id ∈ s.regs.map (·.id)) := by rw [h1]
    simpa [List.mem_map] using this
  constructor
  · intro r hr
    rw [h3]
    obtain ⟨r0, hr0, hid⟩ := (hmem r.id).mp ⟨r, hr, rfl⟩
    rw [← hid]; exact h.regsLt r0 hr0
  · rw [h1]; exact h.regsNodup
  · intro id hid; rw [h2] at hid; exact (hmem id).mpr (h.liveReg id hid)
  · rw [h2]; exact h.liveNodup
  · rw [h4, h2, h3]; exact h.deregNot
  · rw [h4]; exact h.deregNodup
  · rw [h5, h6]; exact h.localsLt

/-- registering a new remote (by `connect` or by a listener's `accept`) -/
theorem Fresh_register (s s' : St) (h : Fresh s) (r : Reg) (hr : r.id = s.nextRemote)
    (h1 : s'.regs = s.regs ++ [r]) (h2 : s'.live = s.live ++ [r.id]) (h3 : s'.nextRemote = s.nextRemote + 1)
    (h4 : s'.dereg = s.dereg) (h5 : s'.locals = s.locals) (h6 : s'.nextLocal = s.nextLocal) : Fresh s' := by
  have hnotin : r.id ∉ s.regs.map (·.id) := by
    intro hm
    obtain ⟨r0, hr0, hid⟩ := List.mem_map.mp hm
    have := h.regsLt r0 hr0
    rw [hid, hr] at this; omega
  constructor
  · intro x hx
    rw [h1] at hx; rw [h3]
    rcases List.mem_append.mp hx with hx | hx
    · have := h.regsLt x hx; omega
    · simp only [List.mem_singleton] at hx; subst hx; omega
  · rw [h1, List.map_append, List.nodup_append]
    refine ⟨h.regsNodup, by simp, ?_⟩
    intro a ha b hb
    simp only [List.map_cons, List.map_nil, List.mem_singleton] at hb; subst hb
    intro hab; subst hab; exact hnotin ha
  · intro id hid
    rw [h2] at hid; rw [h1]
    rcases List.mem_append.mp hid with hid | hid
    · obtain ⟨r0, hr0, hrid⟩ := h.liveReg id hid
      exact ⟨r0, List.mem_append_left _ hr0, hrid⟩
    · simp only [List.mem_singleton] at hid
      exact ⟨r, List.mem_append_right _ (by simp), hid.symm⟩
  · rw [h2, List.nodup_append]
    refine ⟨h.liveNodup, by simp, ?_⟩
    intro a ha b hb
    simp only [List.mem_singleton] at hb; subst hb
    intro hab; subst hab
    obtain ⟨r0, hr0, hrid⟩ := h.liveReg _ ha
    exact hnotin (List.mem_map.mpr ⟨r0, hr0, hrid⟩)
  · rw [h4, h2, h3]
    intro x hx
    obtain ⟨hx1, hx2⟩ := h.deregNot x hx
    refine ⟨?_, by omega⟩
    intro hm
    rcases List.mem_append.mp hm with hm | hm
    · exact hx1 hm
    · simp only [List.mem_singleton] at hm; rw [hm, hr] at hx2; omega
  · rw [h4]; exact h.deregNodup
  · rw [h5, h6]; exact h.localsLt

theorem step_fresh (s s' : St) (a : Act) (h : Fresh s) (hs : step s a = some s') : Fresh s' := by
  cases a with
  | connect peer =>
    simp only [step, Option.some.injEq] at hs; subst hs
    exact Fresh_register s _ h ⟨s.nextRemote, none, false, peer⟩ rfl rfl rfl rfl rfl rfl rfl
  | listen =>
    simp only [step, Option.some.injEq] at hs; subst hs
    constructor
    · exact h.regsLt
    · exact h.regsNodup
    · exact h.liveReg
    · exact h.liveNodup
    · exact h.deregNot
    · exact h.deregNodup
    · intro l hl
      simp only [record] at hl ⊢
      rcases List.mem_append.mp hl with hl | hl
      · have := h.localsLt l hl; omega
      · simp only [List.mem_singleton] at hl; omega
  | send id adapter =>
    simp only [step] at hs
    split at hs
    · split at hs
      · split at hs <;> (simp only [Option.some.injEq] at hs; subst hs; exact Fresh_of_eq s _ h rfl rfl rfl rfl rfl rfl)
      · simp only [Option.some.injEq] at hs; subst hs; exact Fresh_of_eq s _ h rfl rfl rfl rfl rfl rfl
    · simp only [Option.some.injEq] at hs; subst hs; exact Fresh_of_eq s _ h rfl rfl rfl rfl rfl rfl
  | remove id =>
    simp only [step, Option.some.injEq] at hs; subst hs
    have hd := deregister_fresh s id .user h
    split <;> exact Fresh_of_eq _ _ hd rfl rfl rfl rfl rfl rfl
  | removeLocal lid =>
    simp only [step] at hs
    split at hs
    · simp only [Option.some.injEq] at hs; subst hs
      constructor
      · exact h.regsLt
      · exact h.regsNodup
      · exact h.liveReg
      · exact h.liveNodup
      · exact h.deregNot
      · exact h.deregNodup
      · intro l hl; exact h.localsLt l (List.mem_filter.mp hl).1
    · simp only [Option.some.injEq] at hs; subst hs; exact Fresh_of_eq s _ h rfl rfl rfl rfl rfl rfl
  | isReady id =>
    simp only [step] at hs
    split at hs
    · split at hs <;> (simp only [Option.some.injEq] at hs; subst hs; exact Fresh_of_eq s _ h rfl rfl rfl rfl rfl rfl)
    · simp only [Option.some.injEq] at hs; subst hs; exact Fresh_of_eq s _ h rfl rfl rfl rfl rfl rfl
  | pollRemote id read =>
    simp only [step] at hs
    split at hs
    · split at hs <;> (simp only [Option.some.injEq] at hs; subst hs; exact Fresh_of_eq s _ h rfl rfl rfl rfl rfl rfl)
    · simp at hs
  | pending ans =>
    simp only [step] at hs
    split at hs
    · split at hs
      · split at hs
        · simp at hs
        · cases ans with
          | ready =>
            simp only [Option.some.injEq] at hs; subst hs
            exact Fresh_of_eq s _ h (by simp [emit, setReady_ids]) rfl rfl rfl rfl rfl
          | incomplete =>
            simp only [Option.some.injEq] at hs; subst hs
            exact Fresh_of_eq s _ h rfl rfl rfl rfl rfl rfl
          | disconnected =>
            simp only [Option.some.injEq] at hs; subst hs
            have hd := fun id => deregister_fresh s id .procPending h
            split <;> exact Fresh_of_eq _ _ (hd _) rfl rfl rfl rfl rfl rfl
      · simp at hs
    · simp at hs
  | checkReady =>
    simp only [step] at hs
    split at hs
    · split at hs
      · split at hs
        · simp only [Option.some.injEq] at hs; subst hs; exact Fresh_of_eq s _ h rfl rfl rfl rfl rfl rfl
        · simp at hs
      · simp at hs
    · simp at hs
  | beginReceive n disc =>
    simp only [step] at hs
    split at hs
    · split at hs
      · split at hs
        · split at hs <;> (simp only [Option.some.injEq] at hs; subst hs; exact Fresh_of_eq s _ h rfl rfl rfl rfl rfl rfl)
        · split at hs
          · simp only [Option.some.injEq] at hs; subst hs; exact Fresh_of_eq s _ h rfl rfl rfl rfl rfl rfl
          · simp at hs
      · simp at hs
    · simp at hs
  | deliver =>
    simp only [step] at hs
    split at hs
    · simp only [Option.some.injEq] at hs; subst hs; exact Fresh_of_eq s _ h rfl rfl rfl rfl rfl rfl
    · simp at hs
  | endReceive =>
    simp only [step] at hs
    split at hs
    · simp only [Option.some.injEq] at hs; subst hs; exact Fresh_of_eq s _ h rfl rfl rfl rfl rfl rfl
    · simp at hs
  | finish =>
    simp only [step] at hs
    split at hs
    · split at hs
      · simp only [Option.some.injEq] at hs; subst hs
        have hd := fun id => deregister_fresh s id .procRead h
        split <;> exact Fresh_of_eq _ _ (hd _) rfl rfl rfl rfl rfl rfl
      · simp only [Option.some.injEq] at hs; subst hs; exact Fresh_of_eq s _ h rfl rfl rfl rfl rfl rfl
    · simp at hs
  | pollLocal lid remotes datas =>
    simp only [step] at hs
    split at hs
    · split at hs <;> (simp only [Option.some.injEq] at hs; subst hs; exact Fresh_of_eq s _ h rfl rfl rfl rfl rfl rfl)
    · simp at hs
  | acceptOne =>
    simp only [step] at hs
    split at hs
    · rename_i lid peer rest datas _
      simp only [Option.some.injEq] at hs; subst hs
      exact Fresh_register s _ h ⟨s.nextRemote, some lid, false, peer⟩ rfl rfl rfl rfl rfl rfl rfl
    · simp only [Option.some.injEq] at hs; subst hs; exact Fresh_of_eq s _ h rfl rfl rfl rfl rfl rfl
    · simp only [Option.some.injEq] at hs; subst hs; exact Fresh_of_eq s _ h rfl rfl rfl rfl rfl rfl
    · simp at hs

theorem run_preserves {P : St → Prop} (hstep : ∀ s s' a, P s → step s a = some s' → P s') :
    ∀ (acts : List Act) (s s' : St), P s → run s acts = some s' → P s' := by
  intro acts
  induction acts with
  | nil => intro s s' h hr; simp only [run, Option.some.injEq] at hr; subst hr; exact h
  | cons a as ih =>
    intro s s' h hr
    simp only [run] at hr
    split at hr
    · rename_i s1 hs1; exact ih s1 s' (hstep s s1 a h hs1) hr
    · simp at hr

theorem reachable_fresh (s : St) (h : Reachable s) : Fresh s := by
  obtain ⟨acts, hr⟩ := h
  exact run_preserves (P := Fresh) step_fresh acts _ s Fresh_init hr

/-! ### the lifecycle automaton of one endpoint (C03) -/

inductive Phase where
  | init | est | ended | bad
deriving DecidableEq, Repr

/-- `ε | Connected(true) Message* Disconnected? | Connected(false)` for endpoints returned by
`connect()`, `ε | Accepted(listener) Message* Disconnected?` for accepted ones -/
def phaseStep (listener : Option Nat) : Phase → Ev → Phase
  | .init, .connected _ true => if listener = none then .est else .bad
  | .init, .connected _ false => if listener = none then .ended else .bad
  | .init, .accepted _ l => if listener = some l then .est else .bad
  | .est, .message _ => .est
  | .est, .disconnected _ => .ended
  | _, _ => .bad

def proj (id : Nat) (log : List Ev) : List Ev := log.filter (fun e => e.rid = some id)

def phaseOf (r : Reg) (log : List Ev) : Phase := (proj r.id log).foldl (phaseStep r.listener) .init

theorem phaseOf_append (r : Reg) (log : List Ev) (e : Ev) :
    phaseOf r (log ++ [e]) = if e.rid = some r.id then phaseStep r.listener (phaseOf r log) e else phaseOf r log := by
  unfold phaseOf proj
  rw [List.filter_append]
  by_cases h : e.rid = some r.id
  · simp [h, List.foldl_append]
  · simp [h]

/-- what the lifecycle phase of a register says about the rest of the state -/
def GoodCore (ph : Phase) (ready : Bool) (inLive : Bool) (proc : Proc) (rid : Nat) : Prop :=
  ph ≠ .bad ∧ (ph = .init → ready = false) ∧ (ph = .est → ready = true) ∧
  (ph = .ended → inLive = false ∧
    (match proc with
     | .got id _ => id ≠ rid
     | .receiving id _ _ => id ≠ rid
     | .afterReceive id _ => id ≠ rid
     | .readyChecked id _ => id = rid → ready = false
     | _ => True)) ∧
  (match proc with
   | .receiving id _ _ => id = rid → ready = true
   | .afterReceive id _ => id = rid → ready = true
   | _ => True)

def Good (s : St) (r : Reg) : Prop := GoodCore (phaseOf r s.log) r.ready (s.live.contains r.id) s.proc r.id

def LogIds (s : St) : Prop := ∀ e ∈ s.log, ∀ id, e.rid = some id → id < s.nextRemote

structure Inv (s : St) : Prop where
  fresh : Fresh s
  logIds : LogIds s
  good : ∀ r ∈ s.regs, Good s r

theorem find_unique : ∀ (regs : List Reg) (r : Reg), (regs.map (·.id)).Nodup → r ∈ regs →
    regs.find? (fun x => decide (x.id = r.id)) = some r := by
  intro regs
  induction regs with
  | nil => intro r _ hr; simp at hr
  | cons x xs ih =>
    intro r hnd hr
    simp only [List.map_cons, List.nodup_cons] at hnd
    rcases List.mem_cons.mp hr with hr | hr
    · subst hr; simp [List.find?]
    · have hne : x.id ≠ r.id := by
        intro heq
        exact hnd.1 (heq ▸ List.mem_map.mpr ⟨r, hr, rfl⟩)
      simp only [List.find?, hne, decide_false]
      exact ih r hnd.2 hr

theorem findReg_unique (s : St) (h : Fresh s) (r : Reg) (hr : r ∈ s.regs) : findReg s r.id = some r :=
  find_unique s.regs r h.regsNodup hr

theorem findReg_some (s : St) (id : Nat) (r : Reg) (h : findReg s id = some r) : r ∈ s.regs ∧ r.id = id := by
  unfold findReg at h
  have := List.find?_some h
  exact ⟨List.mem_of_find?_eq_some h, by simpa using this⟩

theorem proj_nil_of_fresh (s : St) (h : LogIds s) (id : Nat) (hid : s.nextRemote ≤ id) : proj id s.log = [] := by
  unfold proj
  rw [List.filter_eq_nil_iff]
  intro e he
  simp only [decide_eq_true_eq]
  intro heq
  have := h e he id heq
  omega

end Mio.Net
