import MioModel.ResourceId
/-! Arithmetic normal forms of the bit operations of M6 (core Lean only). -/
namespace Mio.Rid
open Mio.Generated

theorem and_mask7 (raw : Nat) : raw &&& 0x7f = raw % 128 :=
  Nat.and_two_pow_sub_one_eq_mod raw 7

theorem and_bit7 (raw : Nat) : raw &&& 128 = 128 * ((raw / 128) % 2) := by
  have h1 : (raw &&& 128) / 2 ^ 7 = (raw / 128) % 2 := by
    rw [Nat.and_div_two_pow]
    exact Nat.and_two_pow_sub_one_eq_mod (raw / 2 ^ 7) 1
  have h2 : (raw &&& 128) % 2 ^ 7 = 0 := by
    rw [Nat.and_mod_two_pow]
    simp
  have := Nat.div_add_mod (raw &&& 128) (2 ^ 7)
  omega

theorem and_baseMask (raw : Nat) (h : raw < 2 ^ 64) :
    (raw &&& 0xFFFFFFFFFFFFFF00) >>> 8 = raw / 256 := by
  rw [Nat.shiftRight_eq_div_pow, Nat.and_div_two_pow]
  have : (0xFFFFFFFFFFFFFF00 : Nat) / 2 ^ 8 = 2 ^ 56 - 1 := by decide
  rw [this, Nat.and_two_pow_sub_one_eq_mod]
  have : raw / 2 ^ 8 < 2 ^ 56 := by omega
  rw [Nat.mod_eq_of_lt this]

theorem or3 (a t b : Nat) (ha : a < 128) (ht : t < 2) :
    (a ||| t <<< 7 ||| b <<< 8) = a + 128 * t + 256 * b := by
  have h1 : t <<< 7 + a = t <<< 7 ||| a := Nat.shiftLeft_add_eq_or_of_lt (by omega) t
  have h2 : a ||| t <<< 7 = a + 128 * t := by
    rw [Nat.or_comm, ← h1, Nat.shiftLeft_eq]; omega
  rw [h2]
  have h3 : b <<< 8 + (a + 128 * t) = b <<< 8 ||| (a + 128 * t) :=
    Nat.shiftLeft_add_eq_or_of_lt (by omega) b
  rw [Nat.or_comm, ← h3, Nat.shiftLeft_eq]; omega

theorem tnum_lt (t : RType) : (match t with | .local => 1 | .remote => 0 : Nat) < 2 := by
  cases t <;> simp

/-- arithmetic form of `mk` on its domain -/
theorem mk_eq (a : Nat) (t : RType) (b : Nat) (ha : a ≤ maxAdapterId) (hb : b ≤ maxBaseValue) :
    mk a t b = some (a + 128 * (match t with | .local => 1 | .remote => 0) + 256 * b) := by
  have ha' : a < 128 := by unfold maxAdapterId at ha; omega
  have hb' : b < 2 ^ 56 := by unfold maxBaseValue at hb; omega
  unfold mk
  rw [if_neg (by omega), if_neg (by omega)]
  have hsh : (b <<< baseValuePos) % 2 ^ 64 = b <<< 8 := by
    unfold baseValuePos
    rw [Nat.shiftLeft_eq]; apply Nat.mod_eq_of_lt; omega
  simp only [hsh, adapterIdPos, resourceTypePos, Nat.shiftLeft_zero]
  cases t
  · have := or3 a 1 b ha' (by omega); simpa using this
  · have := or3 a 0 b ha' (by omega); simpa using this

theorem adapterId_eq (raw : Nat) : adapterId raw = raw % 128 := by
  unfold adapterId adapterIdMask adapterIdPos
  rw [and_mask7, Nat.shiftRight_zero]; omega

theorem resourceType_eq (raw : Nat) :
    resourceType raw = if (raw / 128) % 2 = 1 then .local else .remote := by
  unfold resourceType resourceTypePos
  have : (1 <<< 7 : Nat) = 128 := by decide
  rw [this, and_bit7]
  have h := Nat.mod_two_eq_zero_or_one (raw / 128)
  rcases h with h | h <;> simp [h]

theorem baseValue_eq (raw : Nat) (h : raw < 2 ^ 64) : baseValue raw = raw / 256 := by
  unfold baseValue baseValueMask baseValuePos
  exact and_baseMask raw h

theorem toToken_eq (raw : Nat) (h : raw < 2 ^ 63) : toToken raw = 2 * raw + 1 := by
  unfold toToken
  have h1 : (raw <<< 1) % 2 ^ 64 = raw <<< 1 := by
    rw [Nat.shiftLeft_eq]; apply Nat.mod_eq_of_lt; omega
  rw [h1, ← Nat.shiftLeft_add_eq_or_of_lt (by omega : 1 < 2 ^ 1) raw, Nat.shiftLeft_eq]; omega

theorem ofToken_eq (t : Nat) : ofToken t = t / 2 := by
  unfold ofToken; rw [Nat.shiftRight_eq_div_pow]

end Mio.Rid
