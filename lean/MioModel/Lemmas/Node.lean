import MioModel.Node
/-! Invariants of the node model M4. -/
namespace Mio.Node

def isChecked : Pc → Bool
  | .rChecked _ | .checked _ => true
  | _ => false

def inReplay : Pc → Bool
  | .notStarted | .rTop | .rWant _ | .rLocked _ | .rChecked _ | .rInCb _ => true
  | _ => false

def asyncPc : Pc → Bool
  | .rWant _ | .rLocked _ => true
  | _ => false

def sigPcOk : Pc → Bool
  | .notStarted | .idle | .fetch | .want _ | .locked _ | .checked _ | .inCb _ | .done => true
  | _ => false

/-- mutual exclusion and the effect of an in-callback / before-start `stop()` -/
structure MInv (s : St) : Prop where
  lockN : s.lock = some .net ↔ holdsLockN s.mode s.pcN = true
  lockS : s.lock = some .sig ↔ holdsLockPc s.pcS = true
  sigOk : sigPcOk s.pcS = true
  asyncOnly : asyncPc s.pcN = true → s.mode = .async
  syncReplay : s.mode = .sync → inReplay s.pcN = true → s.pcS = .notStarted
  notStarted : s.pcN = .notStarted → s.log = [] ∧ s.pcS = .notStarted ∧ s.lock = none
  stopIn : ∀ k, s.stopInCb = some k → s.running = false ∧ s.log.length = k ∧
    isChecked s.pcN = false ∧ isChecked s.pcS = false
  stopBefore : s.stoppedBeforeStart = true → s.running = false ∧ s.log = [] ∧
    isChecked s.pcN = false ∧ isChecked s.pcS = false

theorem MInv_init (mode : Mode) (c : Nat) : MInv (init mode c) := by
  constructor <;> simp [init, holdsLockN, holdsLockPc, sigPcOk, inReplay, isChecked, asyncPc]

macro "node_simp" : tactic =>
  `(tactic| simp_all [holdsLockN, holdsLockPc, sigPcOk, inReplay, isChecked, inCallback, asyncPc])

theorem minv_start (s s' : St) (h : MInv s) (hs : step s .start = some s') : MInv s' := by
  obtain ⟨h1, h2, h3, h8, h4, h5, h6, h7⟩ := h
  simp only [step] at hs
  split at hs
  · rename_i hns
    obtain ⟨e1, e2, e3⟩ := h5 hns
    cases hm : s.mode <;> simp only [hm, Option.some.injEq] at hs <;> subst hs <;>
      constructor <;> node_simp
  · simp at hs

theorem minv_callerRelease (s s' : St) (h : MInv s) (hs : step s .callerRelease = some s') : MInv s' := by
  obtain ⟨h1, h2, h3, h8, h4, h5, h6, h7⟩ := h
  simp only [step] at hs
  split at hs
  · rename_i hl
    simp only [Option.some.injEq] at hs; subst hs
    constructor <;> node_simp
  · simp at hs

set_option maxHeartbeats 1000000 in
theorem minv_net (s s' : St) (poll : Nat) (h : MInv s) (hs : step s (.net poll) = some s') : MInv s' := by
  obtain ⟨h1, h2, h3, h8, h4, h5, h6, h7⟩ := h
  simp only [step, stepNet] at hs
  cases hpc : s.pcN <;> simp only [hpc] at hs h1 h4 h5 h6 h7 h8
  all_goals (try (simp at hs; done))
  all_goals (
    (repeat' (split at hs)) <;>
    (first
      | (simp at hs; done)
      | (simp only [Option.some.injEq] at hs; subst hs; constructor <;> node_simp)))

set_option maxHeartbeats 1000000 in
theorem minv_sig (s s' : St) (arrives : Bool) (h : MInv s) (hs : step s (.sig arrives) = some s') : MInv s' := by
  obtain ⟨h1, h2, h3, h8, h4, h5, h6, h7⟩ := h
  simp only [step, stepSig] at hs
  cases hpc : s.pcS <;> simp only [hpc] at hs h2 h3 h4 h5 h6 h7
  all_goals (try (simp at hs; done))
  all_goals (
    (repeat' (split at hs)) <;>
    (first
      | (simp at hs; done)
      | (simp only [Option.some.injEq] at hs; subst hs; constructor <;> node_simp)))

set_option maxHeartbeats 1000000 in
theorem minv_stopIn_net (s s' : St) (h : MInv s) (hs : step s (.stopIn .net) = some s') : MInv s' := by
  obtain ⟨h1, h2, h3, h8, h4, h5, h6, h7⟩ := h
  simp only [step] at hs
  split at hs
  · rename_i hin
    simp only [Option.some.injEq] at hs; subst hs
    have hlen : s.stopInCb.getD s.log.length = s.log.length := by
      cases hk : s.stopInCb with
      | none => rfl
      | some k => simp [(h6 k hk).2.1]
    cases hpn : s.pcN <;> simp only [hpn, inCallback] at hin <;> (try (simp at hin; done))
    all_goals (cases hps : s.pcS <;> cases hm : s.mode <;> (constructor <;> node_simp))
  · simp at hs

set_option maxHeartbeats 1000000 in
theorem minv_stopIn_sig (s s' : St) (h : MInv s) (hs : step s (.stopIn .sig) = some s') : MInv s' := by
  obtain ⟨h1, h2, h3, h8, h4, h5, h6, h7⟩ := h
  simp only [step] at hs
  split at hs
  · rename_i hin
    simp only [Option.some.injEq] at hs; subst hs
    have hlen : s.stopInCb.getD s.log.length = s.log.length := by
      cases hk : s.stopInCb with
      | none => rfl
      | some k => simp [(h6 k hk).2.1]
    cases hps : s.pcS <;> simp only [hps, inCallback] at hin <;> (try (simp at hin; done))
    all_goals (cases hpn : s.pcN <;> cases hm : s.mode <;> (constructor <;> node_simp))
  · simp at hs

theorem minv_stopExt (s s' : St) (h : MInv s) (hs : step s .stopExt = some s') : MInv s' := by
  obtain ⟨h1, h2, h3, h8, h4, h5, h6, h7⟩ := h
  simp only [step, Option.some.injEq] at hs; subst hs
  refine ⟨h1, h2, h3, h8, h4, h5, ?_, ?_⟩
  · intro k hk
    obtain ⟨e1, e2, e3, e4⟩ := h6 k hk
    exact ⟨rfl, e2, e3, e4⟩
  · intro hb
    simp only [Bool.or_eq_true, beq_iff_eq] at hb
    rcases hb with hb | hb
    · obtain ⟨e1, e2, e3, e4⟩ := h7 hb
      exact ⟨rfl, e2, e3, e4⟩
    · obtain ⟨e1, e2, e3⟩ := h5 hb
      refine ⟨rfl, e1, ?_, ?_⟩ <;> simp [hb, e2, isChecked]

theorem step_minv (s s' : St) (a : Act) (h : MInv s) (hs : step s a = some s') : MInv s' := by
  cases a with
  | start => exact minv_start s s' h hs
  | callerRelease => exact minv_callerRelease s s' h hs
  | net poll => exact minv_net s s' poll h hs
  | sig arrives => exact minv_sig s s' arrives h hs
  | stopIn t =>
    cases t with
    | caller => simp [step, inCallback] at hs
    | net => exact minv_stopIn_net s s' h hs
    | sig => exact minv_stopIn_sig s s' h hs
  | stopExt => exact minv_stopExt s s' h hs

theorem run_preserves {P : St → Prop} (hstep : ∀ s s' a, P s → step s a = some s' → P s') :
    ∀ (acts : List Act) (s s' : St), P s → run s acts = some s' → P s' := by
  intro acts
  induction acts with
  | nil => intro s s' h hr; simp only [run, Option.some.injEq] at hr; subst hr; exact h
  | cons a as ih =>
    intro s s' h hr
    simp only [run] at hr
    split at hr
    · rename_i s1 hs1; exact ih s1 s' (hstep s s1 a h hs1) hr
    · simp at hr

theorem reachable_minv (mode : Mode) (c : Nat) (s : St) (h : Reachable mode c s) : MInv s := by
  obtain ⟨acts, hr⟩ := h
  exact run_preserves (P := MInv) step_minv acts _ s (MInv_init mode c) hr

/-! ### order of the network events handed to the callback (C15) -/

/-- the network event the network thread has fetched but not yet handed to the callback -/
def heldN : Pc → List Nat
  | .rWant e | .rLocked e | .rChecked e => [e]
  | .want (.net e) | .locked (.net e) | .checked (.net e) => [e]
  | _ => []

/-- events in the pipeline, in production order -/
def upcoming (s : St) : List Nat := heldN s.pcN ++ s.cache ++ s.pending

def isNet : Item → Bool
  | .net _ => true
  | .sig _ => false

def netOnly : Pc → Bool
  | .want e | .locked e | .checked e | .inCb e => isNet e
  | _ => true

def sigOnly : Pc → Bool
  | .want e | .locked e | .checked e | .inCb e => !isNet e
  | _ => true

def inLoop : Pc → Bool
  | .idle | .fetch | .want _ | .locked _ | .checked _ | .inCb _ => true
  | _ => false

/-- structure of the network thread's state -/
structure Struct (s : St) : Prop where
  netOnlyN : netOnly s.pcN = true
  sigOnlyS : sigOnly s.pcS = true
  loopCache : inLoop s.pcN = true → s.cache = []
  replayPending : inReplay s.pcN = true → s.pending = []
  doneEmpty : s.pcN = .idle ∨ s.pcN = .done → True

theorem Struct_init (mode : Mode) (c : Nat) : Struct (init mode c) := by
  constructor <;> simp [init, netOnly, sigOnly, inReplay, inLoop]

set_option maxHeartbeats 1000000 in
theorem step_struct (s s' : St) (a : Act) (h : Struct s) (hs : step s a = some s') : Struct s' := by
  obtain ⟨h1, h2, h3, h4, _⟩ := h
  cases a with
  | start =>
    simp only [step] at hs
    split at hs
    · cases hm : s.mode <;> simp only [hm, Option.some.injEq] at hs <;> subst hs <;>
        constructor <;> simp_all [netOnly, sigOnly, inReplay, inLoop, isNet]
    · simp at hs
  | callerRelease =>
    simp only [step] at hs
    split at hs
    · simp only [Option.some.injEq] at hs; subst hs; exact ⟨h1, h2, h3, h4, fun _ => trivial⟩
    · simp at hs
  | net poll =>
    simp only [step, stepNet] at hs
    cases hpc : s.pcN <;> simp only [hpc] at hs h1 h3 h4
    all_goals (try (simp at hs; done))
    all_goals (
      (repeat' (split at hs)) <;>
      (first
        | (simp at hs; done)
        | (simp only [Option.some.injEq] at hs; subst hs; constructor <;> simp_all [netOnly, sigOnly, inReplay, inLoop, isNet])))
  | sig arrives =>
    simp only [step, stepSig] at hs
    cases hpc : s.pcS <;> simp only [hpc] at hs h2
    all_goals (try (simp at hs; done))
    all_goals (
      (repeat' (split at hs)) <;>
      (first
        | (simp at hs; done)
        | (simp only [Option.some.injEq] at hs; subst hs; constructor <;> simp_all [netOnly, sigOnly, inReplay, inLoop, isNet])))
  | stopIn t =>
    cases t <;> simp only [step] at hs <;>
      (split at hs
       · simp only [Option.some.injEq] at hs; subst hs; exact ⟨h1, h2, h3, h4, fun _ => trivial⟩
       · simp at hs)
  | stopExt =>
    simp only [step, Option.some.injEq] at hs; subst hs; exact ⟨h1, h2, h3, h4, fun _ => trivial⟩

theorem reachable_struct (mode : Mode) (c : Nat) (s : St) (h : Reachable mode c s) : Struct s := by
  obtain ⟨acts, hr⟩ := h
  exact run_preserves (P := Struct) step_struct acts _ s (Struct_init mode c) hr

end Mio.Node
