import MioModel.Varint
/-! Helper lemmas about the LEB128 model (core Lean only). -/
namespace Mio

theorem and_7f (x : Nat) : x &&& 0x7f = x % 128 := by
  exact Nat.and_two_pow_sub_one_eq_mod x 7

theorem and_80_eq_zero : ∀ (x : Nat), x < 256 → ((x &&& 0x80 = 0) ↔ x < 128) := by
  decide +kernel

/-- general accumulator lemma -/
theorem decodeVarAux_encode (n : Nat) : ∀ (acc shift : Nat) (rest : Bytes),
    acc < 2 ^ shift → shift % 7 = 0 → n * 2 ^ shift + acc < 2 ^ 64 →
    decodeVarAux (encodeVar n ++ rest) acc shift
      = some (n * 2 ^ shift + acc, shift / 7 + (encodeVar n).length) := by
  induction n using Nat.strongRecOn with
  | _ n ih =>
    intro acc shift rest hacc hs hlt
    rw [encodeVar]
    split
    · rename_i hn
      simp only [List.cons_append, List.nil_append, decodeVarAux]
      have hb : (UInt8.ofNat n).toNat = n := by
        simp [UInt8.toNat_ofNat']; omega
      rw [hb, and_7f]
      have h1 : n % 128 = n := Nat.mod_eq_of_lt hn
      have h2 : (n &&& 0x80 = 0) := (and_80_eq_zero n (by omega)).2 hn
      rw [h1, if_pos h2, Nat.shiftLeft_eq]
      have h3 : n * 2 ^ shift < 2 ^ 64 := by omega
      rw [Nat.mod_eq_of_lt h3]
      have h4 : acc ||| n * 2 ^ shift = n * 2 ^ shift + acc := by
        rw [Nat.or_comm, ← Nat.shiftLeft_eq, Nat.shiftLeft_add_eq_or_of_lt hacc]
      rw [h4]
      simp only [List.length_cons, List.length_nil]
      congr 2
      omega
    · rename_i hn
      simp only [List.cons_append, decodeVarAux]
      have hb : (UInt8.ofNat (n % 128 + 128)).toNat = n % 128 + 128 := by
        simp [UInt8.toNat_ofNat']; omega
      rw [hb, and_7f]
      have h1 : (n % 128 + 128) % 128 = n % 128 := by omega
      have h2 : ¬ ((n % 128 + 128) &&& 0x80 = 0) := by
        rw [and_80_eq_zero _ (by omega)]; omega
      rw [h1, if_neg h2, Nat.shiftLeft_eq]
      have hpow : 2 ^ (shift + 7) = 2 ^ shift * 128 := by rw [Nat.pow_add]
      have hge : 128 * 2 ^ shift ≤ n * 2 ^ shift := Nat.mul_le_mul_right _ (by omega)
      have hshift : ¬ (shift + 7 > 63) := by
        intro hc
        have : 2 ^ 57 ≤ 2 ^ shift := Nat.pow_le_pow_right (by omega) (by omega)
        omega
      rw [if_neg hshift]
      have hm : n % 128 * 2 ^ shift < 2 ^ 64 := by
        have : n % 128 * 2 ^ shift ≤ n * 2 ^ shift := Nat.mul_le_mul_right _ (Nat.mod_le _ _)
        omega
      rw [Nat.mod_eq_of_lt hm]
      have h4 : acc ||| n % 128 * 2 ^ shift = n % 128 * 2 ^ shift + acc := by
        rw [Nat.or_comm, ← Nat.shiftLeft_eq, Nat.shiftLeft_add_eq_or_of_lt hacc]
      rw [h4]
      have hdecomp : n = n / 128 * 128 + n % 128 := by omega
      have key : n / 128 * 2 ^ (shift + 7) + (n % 128 * 2 ^ shift + acc) = n * 2 ^ shift + acc := by
        rw [hpow]
        have : n * 2 ^ shift = (n / 128 * 128 + n % 128) * 2 ^ shift := by rw [← hdecomp]
        rw [this, Nat.add_mul, Nat.mul_assoc, Nat.mul_comm 128]
        omega
      rw [ih (n / 128) (by omega) (n % 128 * 2 ^ shift + acc) (shift + 7) rest
        (by
          rw [hpow]
          have : n % 128 * 2 ^ shift ≤ 127 * 2 ^ shift := Nat.mul_le_mul_right _ (by omega)
          omega)
        (by omega) (by rw [key]; exact hlt)]
      rw [key]
      simp only [List.length_cons]
      congr 2
      omega

theorem decodeVar_encodeVar (n : Nat) (h : n < 2 ^ 64) (rest : Bytes) :
    decodeVar (encodeVar n ++ rest) = some (n, (encodeVar n).length) := by
  have := decodeVarAux_encode n 0 0 rest (by simp) (by simp) (by simpa using h)
  simpa [decodeVar] using this


/-! ### facts about encodeVar -/

theorem encodeVar_ne_nil (n : Nat) : encodeVar n ≠ [] := by
  rw [encodeVar]; split <;> simp

theorem encodeVar_length_pos (n : Nat) : 0 < (encodeVar n).length :=
  List.length_pos_iff.mpr (encodeVar_ne_nil n)

/-- every strict prefix of a varint consists of continuation bytes only -/
theorem encodeVar_prefix_msb (n : Nat) : ∀ (p q : Bytes), encodeVar n = p ++ q → q ≠ [] →
    ∀ b ∈ p, 128 ≤ b.toNat := by
  induction n using Nat.strongRecOn with
  | _ n ih =>
    intro p q h hq b hb
    rw [encodeVar] at h
    split at h
    · -- single byte: p must be []
      cases p with
      | nil => simp at hb
      | cons x xs =>
        simp at h
        obtain ⟨_, h2⟩ := h
        have : xs = [] ∧ q = [] := by
          cases xs <;> simp_all
        exact absurd this.2 hq
    · rename_i hn
      cases p with
      | nil => simp at hb
      | cons x xs =>
        simp only [List.cons_append, List.cons.injEq] at h
        obtain ⟨hx, hrest⟩ := h
        rcases List.mem_cons.mp hb with hb | hb
        · subst hb; rw [← hx]
          simp [UInt8.toNat_ofNat']; omega
        · exact ih (n / 128) (by omega) xs q hrest hq b hb

theorem decodeVarAux_all_msb : ∀ (p : Bytes) (acc shift : Nat),
    (∀ b ∈ p, 128 ≤ b.toNat) → decodeVarAux p acc shift = none := by
  intro p
  induction p with
  | nil => intros; rfl
  | cons b bs ih =>
    intro acc shift h
    simp only [decodeVarAux]
    have hb : 128 ≤ b.toNat := h b (by simp)
    have hlt : b.toNat < 256 := b.toNat_lt
    have : ¬ (b.toNat &&& 0x80 = 0) := by
      rw [and_80_eq_zero _ hlt]; omega
    rw [if_neg this]
    split
    · rfl
    · exact ih _ _ (fun x hx => h x (by simp [hx]))

/-- a strict prefix of a varint does not decode -/
theorem decodeVar_strict_prefix (n : Nat) (p q : Bytes) (h : encodeVar n = p ++ q) (hq : q ≠ []) :
    decodeVar p = none :=
  decodeVarAux_all_msb p 0 0 (encodeVar_prefix_msb n p q h hq)

/-- a varint with a non-empty strict prefix encodes a value ≥ 128 -/
theorem encodeVar_two_bytes (n : Nat) (h : 2 ≤ (encodeVar n).length) : 128 ≤ n := by
  rw [encodeVar] at h
  split at h
  · simp at h
  · omega

theorem encodeVar_length_le (n : Nat) (h : n < 2 ^ 64) : (encodeVar n).length ≤ 10 := by
  have aux : ∀ k n, n < 2 ^ (7 * k) → 0 < k → (encodeVar n).length ≤ k := by
    intro k
    induction k with
    | zero => intro n _ h0; omega
    | succ k ih =>
      intro n hn _
      rw [encodeVar]
      split
      · simp
      · rename_i h128
        simp only [List.length_cons]
        have hk : 0 < k := by
          rcases Nat.eq_zero_or_pos k with h0 | h0
          · subst h0; simp at hn; omega
          · exact h0
        have : n / 128 < 2 ^ (7 * k) := by
          have : 2 ^ (7 * (k + 1)) = 2 ^ (7 * k) * 128 := by
            rw [Nat.mul_add, Nat.pow_add]
          rw [this] at hn
          exact Nat.div_lt_of_lt_mul (by rw [Nat.mul_comm]; exact hn)
        have := ih (n / 128) this hk
        omega
  exact aux 10 n (by omega) (by omega)


/-! ### structure of `decodeVar` results -/

theorem msb_iff (b : UInt8) : ¬ (b.toNat &&& 0x80 = 0) ↔ 128 ≤ b.toNat := by
  rw [and_80_eq_zero _ b.toNat_lt]; omega

/-- a successful size decode is not changed by appending more bytes -/
theorem decodeVarAux_append_some : ∀ (s t : Bytes) (acc sh : Nat) (r : Nat × Nat),
    decodeVarAux s acc sh = some r → decodeVarAux (s ++ t) acc sh = some r := by
  intro s
  induction s with
  | nil => intro t acc sh r h; simp [decodeVarAux] at h
  | cons b bs ih =>
    intro t acc sh r h
    simp only [List.cons_append, decodeVarAux] at h ⊢
    split at h
    · rename_i h0; rw [if_pos h0]; exact h
    · rename_i h0; rw [if_neg h0]
      split at h
      · simp at h
      · rename_i h1; rw [if_neg h1]; exact ih _ _ _ _ h

theorem decodeVar_append_some (s t : Bytes) (r : Nat × Nat) (h : decodeVar s = some r) :
    decodeVar (s ++ t) = some r := decodeVarAux_append_some s t 0 0 r h

/-- a successful decode stops at the first byte without the continuation bit, which is among the
first ten -/
theorem decodeVarAux_some_struct : ∀ (s : Bytes) (acc sh e u : Nat), sh % 7 = 0 →
    decodeVarAux s acc sh = some (e, u) →
    ∃ a x b, s = a ++ x :: b ∧ (∀ y ∈ a, 128 ≤ y.toNat) ∧ x.toNat < 128 ∧
      u = sh / 7 + a.length + 1 ∧ sh + 7 * a.length ≤ 63 + (if a = [] then sh else 0) := by
  intro s
  induction s with
  | nil => intro acc sh e u _ h; simp [decodeVarAux] at h
  | cons c cs ih =>
    intro acc sh e u hsh h
    simp only [decodeVarAux] at h
    split at h
    · rename_i h0
      have hc : c.toNat < 128 := (and_80_eq_zero _ c.toNat_lt).1 h0
      simp only [Option.some.injEq, Prod.mk.injEq] at h
      refine ⟨[], c, cs, rfl, by simp, hc, ?_, by simp⟩
      simp; omega
    · rename_i h0
      have hc : 128 ≤ c.toNat := (msb_iff c).1 h0
      split at h
      · simp at h
      · rename_i h1
        obtain ⟨a, x, b, hs, ha, hx, hu, hbound⟩ := ih _ (sh + 7) e u (by omega) h
        refine ⟨c :: a, x, b, by simp [hs], ?_, hx, ?_, ?_⟩
        · intro y hy
          rcases List.mem_cons.mp hy with h | h
          · subst h; exact hc
          · exact ha y h
        · simp only [List.length_cons]; omega
        · simp only [List.length_cons, List.cons_ne_nil, if_false]
          by_cases hanil : a = []
          · subst hanil; simp at *; omega
          · simp [hanil] at hbound; omega

theorem decodeVar_some_struct (s : Bytes) (e u : Nat) (h : decodeVar s = some (e, u)) :
    ∃ a x b, s = a ++ x :: b ∧ (∀ y ∈ a, 128 ≤ y.toNat) ∧ x.toNat < 128 ∧
      u = a.length + 1 ∧ a.length ≤ 9 := by
  obtain ⟨a, x, b, hs, ha, hx, hu, hb⟩ := decodeVarAux_some_struct s 0 0 e u (by simp) h
  refine ⟨a, x, b, hs, ha, hx, by omega, ?_⟩
  split at hb <;> simp_all <;> omega

theorem decodeVar_used_le (s : Bytes) (e u : Nat) (h : decodeVar s = some (e, u)) :
    1 ≤ u ∧ u ≤ s.length ∧ u ≤ 10 := by
  obtain ⟨a, x, b, hs, _, _, hu, hb⟩ := decodeVar_some_struct s e u h
  subst hs; simp; omega

/-- a failed decode saw only continuation bytes among the first ten -/
theorem decodeVarAux_none_struct : ∀ (s : Bytes) (acc sh : Nat), sh % 7 = 0 → sh ≤ 63 →
    decodeVarAux s acc sh = none → ∀ y ∈ s.take ((70 - sh) / 7), 128 ≤ y.toNat := by
  intro s
  induction s with
  | nil => intro acc sh _ _ _ y hy; simp at hy
  | cons c cs ih =>
    intro acc sh hsh hle h y hy
    simp only [decodeVarAux] at h
    split at h
    · simp at h
    · rename_i h0
      have hc : 128 ≤ c.toNat := (msb_iff c).1 h0
      have hk : (70 - sh) / 7 = (70 - (sh + 7)) / 7 + 1 := by omega
      rw [hk, List.take_succ_cons] at hy
      rcases List.mem_cons.mp hy with hy | hy
      · subst hy; exact hc
      · split at h
        · rename_i h1
          have : (70 - (sh + 7)) / 7 = 0 := by omega
          rw [this] at hy; simp at hy
        · rename_i h1
          exact ih _ (sh + 7) (by omega) (by omega) h y hy

theorem decodeVar_none_struct (s : Bytes) (h : decodeVar s = none) :
    ∀ y ∈ s.take 10, 128 ≤ y.toNat :=
  decodeVarAux_none_struct s 0 0 (by simp) (by simp) h

/-- decoded values fit in seven bits per consumed byte -/
theorem decodeVarAux_value_lt : ∀ (s : Bytes) (acc sh v u : Nat), sh % 7 = 0 → acc < 2 ^ sh →
    decodeVarAux s acc sh = some (v, u) → v < 2 ^ (7 * u) := by
  intro s
  induction s with
  | nil => intro acc sh v u _ _ h; simp [decodeVarAux] at h
  | cons c cs ih =>
    intro acc sh v u hsh hacc h
    simp only [decodeVarAux] at h
    have hstep : acc ||| ((c.toNat &&& 0x7f) <<< sh) % 2 ^ 64 < 2 ^ (sh + 7) := by
      apply Nat.or_lt_two_pow
      · exact Nat.lt_of_lt_of_le hacc (Nat.pow_le_pow_right (by omega) (by omega))
      · apply Nat.lt_of_le_of_lt (Nat.mod_le _ _)
        rw [and_7f, Nat.shiftLeft_eq, Nat.pow_add, Nat.mul_comm]
        exact Nat.mul_lt_mul_of_pos_left (Nat.mod_lt _ (by omega)) (Nat.two_pow_pos sh)
    split at h
    · simp only [Option.some.injEq, Prod.mk.injEq] at h
      obtain ⟨hv, hu⟩ := h
      subst hv; subst hu
      have : 7 * ((sh + 7) / 7) = sh + 7 := by omega
      rw [this]; exact hstep
    · split at h
      · simp at h
      · exact ih _ (sh + 7) v u (by omega) hstep h

theorem encodeVar_length_le_of_lt : ∀ k n, n < 2 ^ (7 * k) → 0 < k → (encodeVar n).length ≤ k := by
  intro k
  induction k with
  | zero => intro n _ h0; omega
  | succ k ih =>
    intro n hn _
    rw [encodeVar]
    split
    · simp
    · rename_i h128
      simp only [List.length_cons]
      have hk : 0 < k := by
        rcases Nat.eq_zero_or_pos k with h0 | h0
        · subst h0; simp at hn; omega
        · exact h0
      have : n / 128 < 2 ^ (7 * k) := by
        have : 2 ^ (7 * (k + 1)) = 2 ^ (7 * k) * 128 := by
          rw [Nat.mul_add, Nat.pow_add]
        rw [this] at hn
        exact Nat.div_lt_of_lt_mul (by rw [Nat.mul_comm]; exact hn)
      have := ih (n / 128) this hk
      omega

/-- all bytes of a varint but the last carry the continuation bit, the last does not -/
theorem encodeVar_shape' (n : Nat) :
    ∃ a x, encodeVar n = a ++ [x] ∧ (∀ y ∈ a, 128 ≤ y.toNat) ∧ x.toNat < 128 := by
  induction n using Nat.strongRecOn with
  | _ n ih =>
    rw [encodeVar]
    split
    · rename_i hn
      refine ⟨[], UInt8.ofNat n, rfl, by simp, ?_⟩
      simp [UInt8.toNat_ofNat']; omega
    · rename_i hn
      obtain ⟨a, x, h, ha, hx⟩ := ih (n / 128) (by omega)
      refine ⟨UInt8.ofNat (n % 128 + 128) :: a, x, by simp [h], ?_, hx⟩
      intro y hy
      rcases List.mem_cons.mp hy with h | h
      · subst h; simp [UInt8.toNat_ofNat']; omega
      · exact ha y h

end Mio
