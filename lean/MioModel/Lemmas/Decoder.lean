import MioModel.Decoder
import MioModel.Lemmas.Varint
/-! Helper lemmas about the decoder model (core Lean only): the chunking invariant (C02) and the
no-panic invariant (C17). -/
namespace Mio
open Generated

/-! ### sizeEnd -/

theorem sizeEnd_le : ∀ c : Bytes, sizeEnd c ≤ c.length
  | [] => by simp [sizeEnd]
  | b :: bs => by
    have := sizeEnd_le bs
    simp only [sizeEnd, List.length_cons]; split <;> omega

theorem sizeEnd_eq_length_of_take_msb : ∀ c : Bytes,
    (∀ b ∈ c.take (sizeEnd c), 128 ≤ b.toNat) → sizeEnd c = c.length
  | [] => by simp [sizeEnd]
  | b :: bs => by
    intro h
    simp only [sizeEnd] at h ⊢
    split
    · rename_i h0
      rw [if_pos h0] at h
      have hb : b.toNat < 128 := (and_80_eq_zero _ b.toNat_lt).1 h0
      have := h b (by simp)
      omega
    · rename_i h0
      rw [if_neg h0] at h
      have hk : 1 + sizeEnd bs = sizeEnd bs + 1 := by omega
      rw [hk, List.take_succ_cons] at h
      have := sizeEnd_eq_length_of_take_msb bs (fun x hx => h x (by simp [hx]))
      simp only [List.length_cons]; omega

theorem take_sizeEnd_struct : ∀ (data : Bytes) (k : Nat) (c' : Bytes) (x : UInt8) (b : Bytes),
    k ≤ sizeEnd data → data.take k = c' ++ x :: b → x.toNat < 128 → b = []
  | [], k, c', x, b => by intro _ h _; simp at h
  | d :: ds, 0, c', x, b => by intro _ h _; simp at h
  | d :: ds, k + 1, c', x, b => by
    intro hk h hx
    rw [List.take_succ_cons] at h
    simp only [sizeEnd] at hk
    split at hk
    · have hk0 : k = 0 := by omega
      subst hk0
      simp only [List.take_zero] at h
      cases c' with
      | nil => simp at h; exact h.2
      | cons y ys => simp at h
    · rename_i h0
      have hd : 128 ≤ d.toNat := (msb_iff d).1 h0
      cases c' with
      | nil =>
        simp only [List.nil_append, List.cons.injEq] at h
        obtain ⟨hdx, _⟩ := h
        subst hdx; omega
      | cons y ys =>
        simp only [List.cons_append, List.cons.injEq] at h
        exact take_sizeEnd_struct ds k ys x b (by omega) h.2 hx

/-! ### frames -/

theorem frames_cons (m : Bytes) (ms : List Bytes) : frames (m :: ms) = frame m ++ frames ms := by
  simp [frames]

theorem frames_nil : frames [] = [] := rfl

theorem frame_length (m : Bytes) : (frame m).length = (encodeVar m.length).length + m.length := by
  simp [frame]

/-- decoding the size of a buffer that starts with a complete prefix -/
theorem decodeVar_frame_prefix (m : Bytes) (hm : m.length < 2 ^ 64) (rest : Bytes) :
    decodeVar (encodeVar m.length ++ rest) = some (m.length, (encodeVar m.length).length) :=
  decodeVar_encodeVar _ hm _

/-- `StrictPre p ms`: `p` is empty, or a non-empty strict prefix of the first frame. -/
def StrictPre (p : Bytes) (ms : List Bytes) : Prop :=
  p = [] ∨ ∃ m ms' q, ms = m :: ms' ∧ frame m = p ++ q ∧ q ≠ []

/-- Spec of try_decode on a prefix `data` of a well-formed stream. -/
theorem tryDecode_spec : ∀ (fuel : Nat) (data r : Bytes) (ms : List Bytes),
    (∀ m ∈ ms, m.length < 2 ^ 64) → data ++ r = frames ms → data.length < fuel →
    ∃ k p, tryDecode fuel data = (p, ms.take k) ∧ p ++ r = frames (ms.drop k) ∧
      StrictPre p (ms.drop k) := by
  intro fuel
  induction fuel with
  | zero => intro data r ms _ _ h; omega
  | succ fuel ih =>
    intro data r ms hms hdata hfuel
    cases ms with
    | nil =>
      have : data = [] := by
        have h := hdata
        simp [frames_nil] at h
        exact h.1
      subst this
      refine ⟨0, [], ?_, ?_, Or.inl rfl⟩
      · simp [tryDecode, decodeVar, decodeVarAux]
      · simpa using hdata
    | cons m ms' =>
      have hm : m.length < 2 ^ 64 := hms m (by simp)
      rw [frames_cons] at hdata
      by_cases hlen : data.length < (frame m).length
      · -- data is a strict prefix of frame m: nothing decoded, everything stored
        obtain ⟨q, hq⟩ : ∃ q, frame m = data ++ q := by
          have := List.append_eq_append_iff.mp hdata
          rcases this with ⟨a, h1, h2⟩ | ⟨c, h1, h2⟩
          · exact ⟨a, h1⟩
          · have := congrArg List.length h1; simp at this
            have hc : c = [] := List.eq_nil_of_length_eq_zero (by omega)
            subst hc; exact ⟨[], by simpa using h1.symm⟩
        have hqne : q ≠ [] := by
          intro h; subst h
          have := congrArg List.length hq; simp at this; omega
        refine ⟨0, data, ?_, by simpa [frames_cons] using hdata, ?_⟩
        · -- tryDecode returns (data, [])
          simp only [tryDecode, List.take_zero]
          by_cases hpre : data.length < (encodeVar m.length).length
          · -- prefix incomplete
            have : ∃ q', encodeVar m.length = data ++ q' ∧ q' ≠ [] := by
              have hq' : encodeVar m.length ++ m = data ++ q := by simpa [frame] using hq
              have := List.append_eq_append_iff.mp hq'
              rcases this with ⟨a, h1, h2⟩ | ⟨c, h1, h2⟩
              · have := congrArg List.length h1; simp at this; omega
              · refine ⟨c, h1, ?_⟩
                intro hc; subst hc
                have := congrArg List.length h1; simp at this; omega
            obtain ⟨q', hq', hq'ne⟩ := this
            rw [decodeVar_strict_prefix _ _ _ hq' hq'ne]
          · -- prefix complete, payload short
            have : ∃ d', data = encodeVar m.length ++ d' := by
              have hq' : encodeVar m.length ++ m = data ++ q := by simpa [frame] using hq
              have := List.append_eq_append_iff.mp hq'
              rcases this with ⟨a, h1, h2⟩ | ⟨c, h1, h2⟩
              · exact ⟨a, h1⟩
              · have := congrArg List.length h1; simp at this
                have hc : c = [] := List.eq_nil_of_length_eq_zero (by omega)
                subst hc; exact ⟨[], by simpa using h1.symm⟩
            obtain ⟨d', hd'⟩ := this
            rw [hd', decodeVar_frame_prefix m hm d']
            simp only [List.drop_left]
            have hlen' : d'.length < m.length := by
              rw [hd', frame_length] at hlen; simp at hlen; omega
            rw [if_neg (by omega)]
        · cases hdn : data with
          | nil => exact Or.inl rfl
          | cons x xs =>
            right; exact ⟨m, ms', q, rfl, by rw [← hdn]; exact hq, hqne⟩
      · -- the whole first frame is in data
        have hge : (frame m).length ≤ data.length := Nat.le_of_not_lt hlen
        obtain ⟨data', hd'⟩ : ∃ data', data = frame m ++ data' := by
          have := List.append_eq_append_iff.mp hdata
          rcases this with ⟨a, h1, h2⟩ | ⟨c, h1, h2⟩
          · have := congrArg List.length h1; simp at this
            have ha : a = [] := List.eq_nil_of_length_eq_zero (by omega)
            subst ha; exact ⟨[], by simpa using h1.symm⟩
          · exact ⟨c, h1⟩
        have hrest : data' ++ r = frames ms' := by
          rw [hd', List.append_assoc] at hdata
          exact List.append_cancel_left hdata
        have hdec : decodeVar data = some (m.length, (encodeVar m.length).length) := by
          rw [hd', frame, List.append_assoc]; exact decodeVar_frame_prefix m hm _
        have hdrop : data.drop (encodeVar m.length).length = m ++ data' := by
          rw [hd', frame, List.append_assoc, List.drop_left]
        by_cases hnil : data' = []
        · subst hnil
          refine ⟨1, [], ?_, by simpa using hrest, Or.inl rfl⟩
          simp only [tryDecode, hdec, hdrop]
          simp
        · have hms' : ∀ m ∈ ms', m.length < 2 ^ 64 := fun x hx => hms x (by simp [hx])
          have hfuel' : data'.length < fuel := by
            have h1 := congrArg List.length hd'
            simp [frame_length] at h1
            have h2 := encodeVar_length_pos m.length
            omega
          obtain ⟨k, p, hk, hp, hsp⟩ := ih data' r ms' hms' hrest hfuel'
          refine ⟨k + 1, p, ?_, by simpa using hp, by simpa using hsp⟩
          simp only [tryDecode, hdec, hdrop]
          simp [hnil, hk]

/-! ### slow path -/

theorem finishFrame_spec (m s q d : Bytes) (hs : frame m = s ++ q)
    (hL : (encodeVar m.length).length ≤ s.length) :
    finishFrame s m.length (encodeVar m.length).length d =
      if d.length < q.length then some (s ++ d, none)
      else some (s ++ d.take q.length,
                 some ((s ++ d.take q.length).drop (encodeVar m.length).length, d.drop q.length)) := by
  have hlen := congrArg List.length hs
  simp [frame_length] at hlen
  unfold finishFrame
  have h0 : ¬ (s.length < (encodeVar m.length).length) := by omega
  have h1 : ¬ (m.length < s.length - (encodeVar m.length).length) := by omega
  rw [if_neg h0, if_neg h1]
  have h2 : m.length - (s.length - (encodeVar m.length).length) = q.length := by omega
  simp only [h2]

/-- splitting lemma: if `a ++ b = c ++ d` and `a.length ≤ c.length` then `c = a ++ t`. -/
theorem split_of_le {α} {a b c d : List α} (h : a ++ b = c ++ d) (hl : a.length ≤ c.length) :
    ∃ t, c = a ++ t ∧ b = t ++ d := by
  rcases List.append_eq_append_iff.mp h with ⟨t, h1, h2⟩ | ⟨t, h1, h2⟩
  · exact ⟨t, h1, h2⟩
  · have := congrArg List.length h1; simp at this
    have ht : t = [] := List.eq_nil_of_length_eq_zero (by omega)
    subst ht; exact ⟨[], by simpa using h1.symm, by simpa using h2.symm⟩

/-- completing the frame in progress once its prefix is fully buffered -/
theorem complete_known (m : Bytes) (ms' : List Bytes) (s q c r : Bytes)
    (hms : ∀ x ∈ m :: ms', x.length < 2 ^ 64)
    (hs : frame m = s ++ q) (_hq : q ≠ []) (hL : (encodeVar m.length).length ≤ s.length)
    (hstream : c ++ r = q ++ frames ms') :
    ∃ k p', (match finishFrame s m.length (encodeVar m.length).length c with
        | none => none
        | some (st, none) => some (st, ([] : List Bytes))
        | some (_, some (msg, rest)) =>
          let (st', outs) := tryDecode (rest.length + 1) rest
          some (st', msg :: outs)) = some (p', (m :: ms').take k) ∧
      p' ++ r = frames ((m :: ms').drop k) ∧ StrictPre p' ((m :: ms').drop k) := by
  rw [finishFrame_spec m s q c hs hL]
  by_cases hc : c.length < q.length
  · rw [if_pos hc]
    obtain ⟨t, ht, hr⟩ := split_of_le hstream (Nat.le_of_lt hc)
    have htne : t ≠ [] := by
      intro h; subst h
      have := congrArg List.length ht; simp at this; omega
    refine ⟨0, s ++ c, by simp, ?_, ?_⟩
    · simp [frames_cons, hs, ht, hr]
    · cases hsc : s ++ c with
      | nil => exact Or.inl rfl
      | cons x xs =>
        right
        refine ⟨m, ms', t, rfl, ?_, htne⟩
        rw [← hsc, hs, ht]; simp
  · rw [if_neg hc]
    obtain ⟨t, ht, hr⟩ := split_of_le hstream.symm (Nat.le_of_not_lt hc)
    -- c = q ++ t, frames ms' = ... wait: q ++ frames = c ++ r, so c = q ++ t and frames ms' = ... r relation
    have htake : c.take q.length = q := by rw [ht]; simp
    have hdrop : c.drop q.length = t := by rw [ht]; simp
    have hframe : s ++ c.take q.length = frame m := by rw [htake, hs]
    have hmsg : (s ++ c.take q.length).drop (encodeVar m.length).length = m := by
      rw [hframe, frame, List.drop_left]
    simp only [hmsg, hdrop]
    have hrest : t ++ r = frames ms' := hr.symm
    have hms' : ∀ x ∈ ms', x.length < 2 ^ 64 := fun x hx => hms x (by simp [hx])
    obtain ⟨k, p', hk, hp, hsp⟩ := tryDecode_spec (t.length + 1) t r ms' hms' hrest (by omega)
    refine ⟨k + 1, p', ?_, by simpa using hp, by simpa using hsp⟩
    simp [hk]

/-- a buffer that contains the whole varint of `m` decodes its size -/
theorem decodeVar_of_prefix_complete (m : Bytes) (hm : m.length < 2 ^ 64) (s q : Bytes)
    (hs : frame m = s ++ q) (hL : (encodeVar m.length).length ≤ s.length) :
    decodeVar s = some (m.length, (encodeVar m.length).length) := by
  have h : encodeVar m.length ++ m = s ++ q := by simpa [frame] using hs
  obtain ⟨t, ht, _⟩ := split_of_le h hL
  rw [ht]; exact decodeVar_frame_prefix m hm t

theorem decodeVar_of_prefix_incomplete (m : Bytes) (s q : Bytes)
    (hs : frame m = s ++ q) (hL : s.length < (encodeVar m.length).length) :
    decodeVar s = none := by
  have h : s ++ q = encodeVar m.length ++ m := by simpa [frame] using hs.symm
  obtain ⟨t, ht, _⟩ := split_of_le h (Nat.le_of_lt hL)
  have htne : t ≠ [] := by
    intro h0; subst h0
    have := congrArg List.length ht; simp at this; omega
  exact decodeVar_strict_prefix _ s t ht htne


theorem prefix_incomplete_msb (m : Bytes) (s q : Bytes)
    (hs : frame m = s ++ q) (hL : s.length < (encodeVar m.length).length) :
    ∀ b ∈ s, 128 ≤ b.toNat := by
  have h : s ++ q = encodeVar m.length ++ m := by simpa [frame] using hs.symm
  obtain ⟨t, ht, _⟩ := split_of_le h (Nat.le_of_lt hL)
  have htne : t ≠ [] := by
    intro h0; subst h0
    have := congrArg List.length ht; simp at this; omega
  exact encodeVar_prefix_msb _ s t ht htne

theorem decode_step (ms : List Bytes) (hms : ∀ x ∈ ms, x.length < 2 ^ 64) (p c r : Bytes)
    (hsp : StrictPre p ms) (hstream : p ++ (c ++ r) = frames ms) :
    ∃ k p', decode p c = some (p', ms.take k) ∧ p' ++ r = frames (ms.drop k) ∧
      StrictPre p' (ms.drop k) := by
  by_cases hp : p = []
  · subst hp
    obtain ⟨k, p', hk, hp', hsp'⟩ := tryDecode_spec (c.length + 1) c r ms hms (by simpa using hstream) (by omega)
    exact ⟨k, p', by simp [decode, hk], hp', hsp'⟩
  · rcases hsp with h | ⟨m, ms', q, hmseq, hs, hq⟩
    · exact absurd h hp
    · subst hmseq
      have hm : m.length < 2 ^ 64 := hms m (by simp)
      have hcr : c ++ r = q ++ frames ms' := by
        rw [frames_cons, hs, List.append_assoc] at hstream
        exact List.append_cancel_left hstream
      have hflen := congrArg List.length hs
      simp [frame_length] at hflen
      have hqpos : 0 < q.length := List.length_pos_iff.mpr hq
      have hppos : 0 < p.length := List.length_pos_iff.mpr hp
      unfold decode
      rw [if_neg hp]
      unfold storeAndDecoded
      by_cases hL : (encodeVar m.length).length ≤ p.length
      · rw [decodeVar_of_prefix_complete m hm p q hs hL]
        exact complete_known m ms' p q c r hms hs hq hL hcr
      · have hL' : p.length < (encodeVar m.length).length := Nat.lt_of_not_le hL
        rw [decodeVar_of_prefix_incomplete m p q hs hL']
        have hL10 := encodeVar_length_le m.length hm
        have h128 : 128 ≤ m.length := encodeVar_two_bytes _ (by omega)
        simp only [show maxEncodedSize = 10 from rfl]
        have hse := sizeEnd_le c
        generalize hkdef : min (10 - p.length) (sizeEnd c) = k
        have hkc : k ≤ c.length := by omega
        -- the bytes appended to complete the prefix all belong to this frame
        have hmr : k ≤ q.length := by omega
        have hsplit : c.take k ++ (c.drop k ++ r) = q ++ frames ms' := by
          rw [← List.append_assoc, List.take_append_drop]; exact hcr
        obtain ⟨q2, hq2, hr2⟩ := split_of_le hsplit (by simp; omega)
        have hs' : frame m = (p ++ c.take k) ++ q2 := by
          rw [hs, hq2, List.append_assoc]
        have hq2len : 0 < q2.length := by
          have := congrArg List.length hq2; simp at this; omega
        have hq2ne : q2 ≠ [] := List.length_pos_iff.mp hq2len
        by_cases hL2 : (encodeVar m.length).length ≤ (p ++ c.take k).length
        · rw [decodeVar_of_prefix_complete m hm _ q2 hs' hL2]
          exact complete_known m ms' _ q2 _ r hms hs' hq2ne hL2 hr2
        · have hL2' := Nat.lt_of_not_le hL2
          rw [decodeVar_of_prefix_incomplete m _ q2 hs' hL2']
          have hmsb := prefix_incomplete_msb m _ q2 hs' hL2'
          have hall : k = c.length := by
            simp only [List.length_append, List.length_take] at hL2'
            by_cases hk2 : k = sizeEnd c
            · have := sizeEnd_eq_length_of_take_msb c
                (fun b hb => hmsb b (by rw [← hk2] at hb; simp [hb]))
              omega
            · omega
          rw [hall, List.take_length]
          rw [hall, List.take_length] at hs'
          refine ⟨0, p ++ c, by simp, ?_, ?_⟩
          · simpa [List.append_assoc] using hstream
          · right; exact ⟨m, ms', q2, rfl, hs', hq2ne⟩

/-- C02 main theorem: decoding is independent of chunking. -/
theorem feed_general : ∀ (chunks : List Bytes) (ms : List Bytes) (p : Bytes),
    (∀ x ∈ ms, x.length < 2 ^ 64) → StrictPre p ms → p ++ chunks.flatten = frames ms →
    feed p chunks = some ([], ms) := by
  intro chunks
  induction chunks with
  | nil =>
    intro ms p hms hsp h
    simp at h
    rcases hsp with hp | ⟨m, ms', q, hmseq, hs, hq⟩
    · subst hp
      cases ms with
      | nil => rfl
      | cons m ms' =>
        exfalso
        have := congrArg List.length h
        simp [frames_cons, frame_length] at this
        have := encodeVar_length_pos m.length
        omega
    · exfalso
      subst hmseq
      have := congrArg List.length h
      have h2 := congrArg List.length hs
      simp [frames_cons] at this h2
      have := List.length_pos_iff.mpr hq
      omega
  | cons c cs ih =>
    intro ms p hms hsp h
    simp only [List.flatten_cons] at h
    obtain ⟨k, p', hk, hp', hsp'⟩ := decode_step ms hms p c cs.flatten hsp h
    have hms' : ∀ x ∈ ms.drop k, x.length < 2 ^ 64 := fun x hx => hms x (List.mem_of_mem_drop hx)
    have := ih (ms.drop k) p' hms' hsp' hp'
    simp [feed, hk, this]

theorem feed_chunking_independent (ms : List Bytes) (hms : ∀ m ∈ ms, m.length < 2 ^ 64)
    (chunks : List Bytes) (h : chunks.flatten = frames ms) : feed [] chunks = some ([], ms) :=
  feed_general chunks ms [] hms (Or.inl rfl) (by simpa using h)


/-- the same for a stream that continues after the chunks seen so far -/
theorem feed_prefix_general : ∀ (chunks : List Bytes) (ms : List Bytes) (p r : Bytes),
    (∀ x ∈ ms, x.length < 2 ^ 64) → StrictPre p ms → p ++ (chunks.flatten ++ r) = frames ms →
    ∃ k p', feed p chunks = some (p', ms.take k) ∧ p' ++ r = frames (ms.drop k) ∧
      StrictPre p' (ms.drop k) := by
  intro chunks
  induction chunks with
  | nil =>
    intro ms p r hms hsp h
    exact ⟨0, p, by simp [feed], by simpa using h, by simpa using hsp⟩
  | cons c cs ih =>
    intro ms p r hms hsp h
    simp only [List.flatten_cons, List.append_assoc] at h
    obtain ⟨k, p', hk, hp', hsp'⟩ := decode_step ms hms p c (cs.flatten ++ r) hsp h
    have hms' : ∀ x ∈ ms.drop k, x.length < 2 ^ 64 := fun x hx => hms x (List.mem_of_mem_drop hx)
    obtain ⟨k2, p2, hk2, hp2, hsp2⟩ := ih (ms.drop k) p' r hms' hsp' hp'
    refine ⟨k + k2, p2, ?_, by simpa [List.drop_drop, Nat.add_comm] using hp2,
      by simpa [List.drop_drop, Nat.add_comm] using hsp2⟩
    simp only [feed, hk, hk2]
    congr 2
    rw [List.take_add]

/-! ### no panic on arbitrary input (C17) -/

/-- invariant of the stored buffer: if its size prefix decodes, the payload is still incomplete -/
def DecInv (st : Bytes) : Prop := ∀ e u, decodeVar st = some (e, u) → st.length - u < e

theorem DecInv_nil : DecInv [] := by
  intro e u h; simp [decodeVar, decodeVarAux] at h

theorem tryDecode_inv : ∀ (fuel : Nat) (data : Bytes), data.length < fuel →
    DecInv (tryDecode fuel data).1 := by
  intro fuel
  induction fuel with
  | zero => intro data h; omega
  | succ fuel ih =>
    intro data hfuel
    simp only [tryDecode]
    split
    · rename_i expected used hdec
      have hu := decodeVar_used_le data expected used hdec
      split
      · split
        · exact DecInv_nil
        · rename_i hle hne
          have : ((data.drop used).drop expected).length < fuel := by
            simp only [List.length_drop]; omega
          exact ih _ this
      · rename_i hgt
        show DecInv data
        intro e u h
        rw [hdec] at h
        simp only [Option.some.injEq, Prod.mk.injEq] at h
        obtain ⟨h1, h2⟩ := h
        subst h1; subst h2
        simp only [List.length_drop] at hgt
        omega
    · rename_i hnone
      show DecInv data
      intro e u h
      rw [hnone] at h; simp at h

theorem finishFrame_total (st : Bytes) (e u : Nat) (data : Bytes)
    (hd : decodeVar st = some (e, u)) (hle : st.length - u ≤ e) :
    ∃ r, finishFrame st e u data = some r ∧ (r.2 = none → DecInv r.1) := by
  have hu := decodeVar_used_le st e u hd
  unfold finishFrame
  rw [if_neg (by omega), if_neg (by omega)]
  dsimp only
  split
  · rename_i hlt
    refine ⟨_, rfl, ?_⟩
    intro _ e' u' h
    rw [decodeVar_append_some st data _ hd] at h
    simp only [Option.some.injEq, Prod.mk.injEq] at h
    obtain ⟨h1, h2⟩ := h
    subst h1; subst h2
    simp only [List.length_append]; omega
  · exact ⟨_, rfl, by simp⟩

/-- after appending the bytes that may complete the size prefix, a prefix that decodes ends
exactly at the end of the buffer -/
theorem append_sizeEnd_used (st data : Bytes) (k e u : Nat) (hk : k ≤ sizeEnd data)
    (hnone : decodeVar st = none) (hsome : decodeVar (st ++ data.take k) = some (e, u)) :
    u = (st ++ data.take k).length := by
  obtain ⟨a, x, b, hs, ha, hx, hu, ha9⟩ := decodeVar_some_struct _ e u hsome
  have hmsb := decodeVar_none_struct st hnone
  rcases List.append_eq_append_iff.mp hs with ⟨a', h1, h2⟩ | ⟨c', h1, h2⟩
  · -- a = st ++ a', data.take k = a' ++ x :: b
    have hb := take_sizeEnd_struct data k a' x b hk h2 hx
    subst hb
    rw [hs, hu]; simp
  · -- st = a ++ c', x :: b = c' ++ data.take k
    cases c' with
    | nil =>
      simp only [List.nil_append] at h2
      have hb := take_sizeEnd_struct data k [] x b hk (by simpa using h2.symm) hx
      subst hb
      rw [hs, hu]; simp
    | cons y ys =>
      exfalso
      simp only [List.cons_append, List.cons.injEq] at h2
      obtain ⟨hxy, _⟩ := h2
      subst hxy
      have : x ∈ st.take 10 := by
        rw [h1, List.take_append]
        apply List.mem_append_right
        have : 10 - a.length = (10 - a.length - 1) + 1 := by omega
        rw [this, List.take_succ_cons]; simp
      have := hmsb x this
      omega

theorem storeAndDecoded_total (st data : Bytes) (hinv : DecInv st) :
    ∃ r, storeAndDecoded st data = some r ∧ (r.2 = none → DecInv r.1) := by
  unfold storeAndDecoded
  split
  · rename_i e u hd
    exact finishFrame_total st e u data hd (Nat.le_of_lt (hinv e u hd))
  · rename_i hnone
    simp only
    generalize hk : min (maxEncodedSize - st.length) (sizeEnd data) = k
    have hkle : k ≤ sizeEnd data := by omega
    split
    · rename_i e u hd
      have := append_sizeEnd_used st data k e u hkle hnone hd
      exact finishFrame_total _ e u _ hd (by omega)
    · rename_i hnone'
      refine ⟨_, rfl, ?_⟩
      intro _ e u h
      rw [hnone'] at h; simp at h

theorem decode_total (st data : Bytes) (hinv : DecInv st) :
    ∃ st' outs, decode st data = some (st', outs) ∧ DecInv st' := by
  unfold decode
  split
  · exact ⟨(tryDecode (data.length + 1) data).1, (tryDecode (data.length + 1) data).2, rfl,
      tryDecode_inv _ _ (by omega)⟩
  · obtain ⟨r, hr, hri⟩ := storeAndDecoded_total st data hinv
    rw [hr]
    obtain ⟨st1, o⟩ := r
    cases o with
    | none => exact ⟨_, _, rfl, hri rfl⟩
    | some mr =>
      obtain ⟨msg, rest⟩ := mr
      exact ⟨(tryDecode (rest.length + 1) rest).1, msg :: (tryDecode (rest.length + 1) rest).2, rfl,
        tryDecode_inv _ _ (by omega)⟩

theorem feed_total_gen : ∀ (chunks : List Bytes) (st : Bytes), DecInv st →
    ∃ r, feed st chunks = some r := by
  intro chunks
  induction chunks with
  | nil => intro st _; exact ⟨_, rfl⟩
  | cons c cs ih =>
    intro st hinv
    obtain ⟨st', outs, hd, hinv'⟩ := decode_total st c hinv
    obtain ⟨r, hr⟩ := ih st' hinv'
    simp only [feed, hd, hr]
    exact ⟨_, rfl⟩

end Mio
