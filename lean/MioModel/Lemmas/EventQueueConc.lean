import MioModel.EventQueueConc
import MioModel.Lemmas.EventQueue
/-! Invariants of the concurrent event-queue model, proved for every reachable state. -/
namespace Mio.EvQ
variable {E : Type}

/-- pending timers once the queued commands are applied -/
def live (q : Q E) : List (Key × E) := foldCmds q.timers q.cmds

def plainOuts (r : List (Out E × Nat)) : List E :=
  r.filterMap (fun o => match o.1 with | .plain e => some e | _ => none)
def prioOuts (r : List (Out E × Nat)) : List E :=
  r.filterMap (fun o => match o.1 with | .prio e => some e | _ => none)
/-- timers returned so far: key, event, time of return -/
def timerOuts (r : List (Out E × Nat)) : List (Key × E × Nat) :=
  r.filterMap (fun o => match o.1 with | .timer k e => some (k, e, o.2) | _ => none)
def retKeys (s : St E) : List Key := (timerOuts s.returned).map (·.1)
def cancKeys (s : St E) : List Key := s.cancelled.map (·.1)
def keysOf (ts : List (Key × E)) : List Key := ts.map (·.1)

theorem foldCmds_cons (ts : List (Key × E)) (c : Key × Cmd E) (cs : List (Key × Cmd E)) :
    foldCmds ts (c :: cs) = foldCmds (applyCmd ts c) cs := rfl

theorem live_sendTimer (q : Q E) (now dur : Nat) (e : E) :
    live (sendTimer q now dur e).2 = insert (sendTimer q now dur e).1 e (live q) := by
  simp [live, sendTimer, foldCmds_append, foldCmds, applyCmd]

theorem live_cancel (q : Q E) (k : Key) : live (cancelTimer q k) = remove k (live q) := by
  simp [live, cancelTimer, foldCmds_append, foldCmds, applyCmd]

/-- the effect of one step on the timer subsystem -/
inductive Eff (s s' : St E) : Prop where
  | same (hl : live s'.q = live s.q) (hc : s'.created = s.created) (hx : s'.cancelled = s.cancelled)
      (hr : timerOuts s'.returned = timerOuts s.returned) (hn : s.now ≤ s'.now)
      (hq : s'.q.nextSeq = s.q.nextSeq)
  | create (dur : Nat) (e : E)
      (hl : live s'.q = insert ⟨s.now + dur, s.q.nextSeq⟩ e (live s.q))
      (hc : s'.created = s.created ++ [⟨⟨s.now + dur, s.q.nextSeq⟩, e, s.now, dur⟩])
      (hx : s'.cancelled = s.cancelled) (hr : timerOuts s'.returned = timerOuts s.returned)
      (hn : s'.now = s.now) (hq : s'.q.nextSeq = s.q.nextSeq + 1)
  | cancel (k : Key) (hk : k ∈ s.created.map (·.key)) (hl : live s'.q = remove k (live s.q))
      (hc : s'.created = s.created) (hx : s'.cancelled = s.cancelled ++ [(k, s.now)])
      (hr : timerOuts s'.returned = timerOuts s.returned) (hn : s'.now = s.now)
      (hq : s'.q.nextSeq = s.q.nextSeq)
  | pop (k : Key) (e : E) (ts : List (Key × E)) (tnow : Nat) (hl0 : live s.q = (k, e) :: ts)
      (hl : live s'.q = ts) (hd : k.deadline ≤ tnow)
      (hclk : ∃ kd dl, s.rx = .clockRead kd dl tnow)
      (hc : s'.created = s.created) (hx : s'.cancelled = s.cancelled)
      (hr : timerOuts s'.returned = timerOuts s.returned ++ [(k, e, s.now)]) (hn : s'.now = s.now)
      (hq : s'.q.nextSeq = s.q.nextSeq)

theorem timerOuts_append (r : List (Out E × Nat)) (o : Out E) (t : Nat) :
    timerOuts (r ++ [(o, t)]) = timerOuts r ++ (match o with | .timer k e => [(k, e, t)] | _ => []) := by
  unfold timerOuts
  rw [List.filterMap_append]
  cases o <;> simp

theorem readyEventK_cases (tnow : Nat) (q : Q E) :
    (∃ p ps, q.prio = p :: ps ∧ readyEventK tnow q = (some (.prio p), { q with timers := live q, cmds := [], prio := ps })) ∨
    (∃ k e ts, q.prio = [] ∧ live q = (k, e) :: ts ∧ k.deadline ≤ tnow ∧
        readyEventK tnow q = (some (.timer k e), { q with timers := ts, cmds := [], prio := [] })) ∨
    ((readyEventK tnow q).1 = none ∧ (readyEventK tnow q).2 = { q with timers := live q, cmds := [] } ∧
        q.prio = [] ∧ ∀ k e ts, live q = (k, e) :: ts → tnow < k.deadline) := by
  unfold readyEventK live
  cases hp : q.prio with
  | cons p ps => left; exact ⟨p, ps, rfl, by simp [hp]⟩
  | nil =>
    right
    cases hl : foldCmds q.timers q.cmds with
    | nil => right; simp [hp, hl]
    | cons t ts =>
      obtain ⟨k, e⟩ := t
      by_cases hk : k.deadline ≤ tnow
      · left; exact ⟨k, e, ts, rfl, rfl, hk, by simp [hp, hl, hk]⟩
      · right
        refine ⟨by simp [hk], by simp [hk], rfl, ?_⟩
        intro k' e' ts' h'
        simp only [List.cons.injEq, Prod.mk.injEq] at h'
        rw [← h'.1.1]; omega

/-- every enabled step has one of the four timer effects -/
theorem step_eff (s s' : St E) (a : Act E) (h : step s a = some s') : Eff s s' := by
  cases a with
  | send e =>
    simp only [step, Option.some.injEq] at h; subst h
    exact .same rfl rfl rfl rfl (Nat.le_refl _) rfl
  | sendPrio e =>
    simp only [step, Option.some.injEq] at h; subst h
    exact .same rfl rfl rfl rfl (Nat.le_refl _) rfl
  | sendTimer dur e =>
    simp only [step, Option.some.injEq] at h; subst h
    exact .create dur e (live_sendTimer s.q s.now dur e) rfl rfl rfl rfl rfl
  | cancel k =>
    simp only [step] at h
    split at h
    · rename_i hk
      simp only [Option.some.injEq] at h; subst h
      exact .cancel k hk (live_cancel s.q k) rfl rfl rfl rfl rfl
    · simp at h
  | tick n =>
    simp only [step, Option.some.injEq] at h; subst h
    exact .same rfl rfl rfl rfl (Nat.le_add_right _ _) rfl
  | call k d =>
    simp only [step] at h
    split at h
    · simp only [Option.some.injEq] at h; subst h
      exact .same rfl rfl rfl rfl (Nat.le_refl _) rfl
    · simp at h
  | readClock =>
    simp only [step] at h
    split at h
    · simp only [Option.some.injEq] at h; subst h
      exact .same rfl rfl rfl rfl (Nat.le_refl _) rfl
    · simp at h
  | foldPick =>
    simp only [step] at h
    split at h
    · rename_i kd dl tnow hrx
      rcases readyEventK_cases tnow s.q with ⟨p, ps, hp, hre⟩ | ⟨k, e, ts, hp, hl, hd, hre⟩ | ⟨h1, h2, hp, _⟩
      · rw [hre] at h
        simp only [Option.some.injEq] at h; subst h
        refine .same ?_ rfl rfl ?_ (Nat.le_refl _) rfl
        · simp [ret, live, foldCmds]
        · simp [ret, timerOuts_append]
      · rw [hre] at h
        simp only [Option.some.injEq] at h; subst h
        refine .pop k e ts tnow hl ?_ hd ⟨kd, dl, hrx⟩ rfl rfl ?_ rfl rfl
        · simp [ret, live, foldCmds]
        · simp [ret, timerOuts_append]
      · cases hre : readyEventK tnow s.q with
        | mk r q' =>
          rw [hre] at h h1 h2
          simp only at h1 h2
          subst h1; subst h2
          simp only at h
          cases kd with
          | tryRecv =>
            simp only at h
            split at h
            · simp only [Option.some.injEq] at h; subst h
              refine .same ?_ rfl rfl ?_ (Nat.le_refl _) rfl
              · simp [ret, live, foldCmds]
              · simp [ret, timerOuts_append]
            · simp only [Option.some.injEq] at h; subst h
              refine .same ?_ rfl rfl ?_ (Nat.le_refl _) rfl
              · simp [ret, live, foldCmds]
              · simp [ret, timerOuts_append]
          | recv =>
            simp only [Option.some.injEq] at h; subst h
            exact .same (by simp [live, foldCmds]) rfl rfl rfl (Nat.le_refl _) rfl
          | recvTimeout =>
            simp only [Option.some.injEq] at h; subst h
            exact .same (by simp [live, foldCmds]) rfl rfl rfl (Nat.le_refl _) rfl
    · simp at h
  | wake src =>
    simp only [step] at h
    split at h
    · rename_i kd dl hrx
      cases src with
      | plain =>
        simp only at h
        split at h
        · simp only [Option.some.injEq] at h; subst h
          exact .same (by simp [ret, live]) rfl rfl (by simp [ret, timerOuts_append]) (Nat.le_refl _) rfl
        · simp at h
      | prio =>
        simp only at h
        split at h
        · simp only [Option.some.injEq] at h; subst h
          exact .same (by simp [ret, live]) rfl rfl (by simp [ret, timerOuts_append]) (Nat.le_refl _) rfl
        · simp at h
      | cmd =>
        simp only at h
        split at h
        · rename_i c cs hc
          simp only [Option.some.injEq] at h; subst h
          exact .same (by simp [live, hc, foldCmds_cons]) rfl rfl rfl (Nat.le_refl _) rfl
        · simp at h
      | timer =>
        simp only at h
        split at h
        · split at h
          · simp only [Option.some.injEq] at h; subst h
            exact .same rfl rfl rfl rfl (Nat.le_refl _) rfl
          · simp at h
        · simp at h
      | timeout =>
        simp only at h
        split at h
        · split at h
          · simp only [Option.some.injEq] at h; subst h
            exact .same (by simp [ret]) rfl rfl (by simp [ret, timerOuts_append]) (Nat.le_refl _) rfl
          · simp at h
        · simp at h
    · simp at h

/-! ### the timer invariant -/

structure TInv (s : St E) : Prop where
  srt : Sorted (live s.q)
  seq : ∀ c ∈ s.created, c.key.seq < s.q.nextSeq
  dl : ∀ c ∈ s.created, c.key.deadline = c.at_ + c.dur ∧ c.at_ ≤ s.now
  sub : ∀ p ∈ live s.q, ∃ c ∈ s.created, c.key = p.1 ∧ c.ev = p.2
  held : ∀ c ∈ s.created, c.key ∉ cancKeys s → c.key ∉ retKeys s → (c.key, c.ev) ∈ live s.q
  retsub : ∀ r ∈ timerOuts s.returned,
    (∃ c ∈ s.created, c.key = r.1 ∧ c.ev = r.2.1) ∧ r.1.deadline ≤ r.2.2 ∧ r.2.2 ≤ s.now
  retnew : ∀ k ∈ retKeys s, k ∉ keysOf (live s.q)
  retnodup : (retKeys s).Nodup
  canc : ∀ x ∈ s.cancelled, x.1 ∉ keysOf (live s.q) ∧ x.1 ∈ s.created.map (·.key) ∧ x.2 ≤ s.now
  cexact : ∀ x ∈ s.cancelled, x.2 < x.1.deadline → x.1 ∉ retKeys s

/-- the clock value read by `ready_event()` is never ahead of the clock -/
def ClkInv (s : St E) : Prop := ∀ kd dl tnow, s.rx = .clockRead kd dl tnow → tnow ≤ s.now

theorem ClkInv_init : ClkInv ({} : St E) := by intro kd dl tnow h; simp at h

theorem step_clk (s s' : St E) (a : Act E) (hi : ClkInv s) (h : step s a = some s') : ClkInv s' := by
  intro kd dl tnow hrx
  cases a with
  | send e => simp only [step, Option.some.injEq] at h; subst h; exact hi kd dl tnow hrx
  | sendPrio e => simp only [step, Option.some.injEq] at h; subst h; exact hi kd dl tnow hrx
  | sendTimer dur e => simp only [step, Option.some.injEq] at h; subst h; exact hi kd dl tnow hrx
  | cancel k =>
    simp only [step] at h
    split at h
    · simp only [Option.some.injEq] at h; subst h; exact hi kd dl tnow hrx
    · simp at h
  | tick n =>
    simp only [step, Option.some.injEq] at h; subst h
    exact Nat.le_trans (hi kd dl tnow hrx) (Nat.le_add_right _ _)
  | call k d =>
    simp only [step] at h
    split at h
    · simp only [Option.some.injEq] at h; subst h; simp at hrx
    · simp at h
  | readClock =>
    simp only [step] at h
    split at h
    · simp only [Option.some.injEq] at h; subst h
      simp only [Rx.clockRead.injEq] at hrx
      rw [← hrx.2.2]; exact Nat.le_refl _
    · simp at h
  | foldPick =>
    simp only [step] at h
    split at h
    · split at h
      · simp only [Option.some.injEq] at h; subst h; simp [ret] at hrx
      · split at h
        · split at h <;> (simp only [Option.some.injEq] at h; subst h; simp [ret] at hrx)
        · simp only [Option.some.injEq] at h; subst h; simp at hrx
    · simp at h
  | wake src =>
    simp only [step] at h
    split at h
    · cases src with
      | plain =>
        simp only at h
        split at h
        · simp only [Option.some.injEq] at h; subst h; simp [ret] at hrx
        · simp at h
      | prio =>
        simp only at h
        split at h
        · simp only [Option.some.injEq] at h; subst h; simp [ret] at hrx
        · simp at h
      | cmd =>
        simp only at h
        split at h
        · simp only [Option.some.injEq] at h; subst h; simp at hrx
        · simp at h
      | timer =>
        simp only at h
        split at h
        · split at h
          · simp only [Option.some.injEq] at h; subst h; simp at hrx
          · simp at h
        · simp at h
      | timeout =>
        simp only at h
        split at h
        · split at h
          · simp only [Option.some.injEq] at h; subst h; simp [ret] at hrx
          · simp at h
        · simp at h
    · simp at h

theorem TInv_init : TInv ({} : St E) := by
  constructor <;> simp [live, foldCmds, Sorted, retKeys, timerOuts, cancKeys, keysOf]

theorem keysOf_insert_subset (k : Key) (e : E) (ts : List (Key × E)) (x : Key)
    (h : x ∈ keysOf (insert k e ts)) : x = k ∨ x ∈ keysOf ts := by
  unfold keysOf at *
  obtain ⟨p, hp, rfl⟩ := List.mem_map.mp h
  rcases mem_insert_weak k e ts p hp with h | h
  · left; rw [h]
  · right; exact List.mem_map.mpr ⟨p, h, rfl⟩

theorem keysOf_remove (k : Key) (ts : List (Key × E)) (x : Key) :
    x ∈ keysOf (remove k ts) ↔ x ∈ keysOf ts ∧ x ≠ k := by
  unfold keysOf
  constructor
  · intro h
    obtain ⟨p, hp, rfl⟩ := List.mem_map.mp h
    rw [mem_remove] at hp
    exact ⟨List.mem_map.mpr ⟨p, hp.1, rfl⟩, hp.2⟩
  · intro ⟨h, hne⟩
    obtain ⟨p, hp, rfl⟩ := List.mem_map.mp h
    exact List.mem_map.mpr ⟨p, (mem_remove k ts p).mpr ⟨hp, hne⟩, rfl⟩

theorem step_tinv (s s' : St E) (a : Act E) (hi : TInv s) (hc : ClkInv s) (h : step s a = some s') :
    TInv s' := by
  have heff := step_eff s s' a h
  cases heff with
  | same hl hcr hx hr hn hq =>
    have hrk : retKeys s' = retKeys s := by unfold retKeys; rw [hr]
    have hck : cancKeys s' = cancKeys s := by unfold cancKeys; rw [hx]
    constructor
    · rw [hl]; exact hi.srt
    · rw [hcr, hq]; exact hi.seq
    · rw [hcr]; intro c hc'; exact ⟨(hi.dl c hc').1, Nat.le_trans (hi.dl c hc').2 hn⟩
    · rw [hl, hcr]; exact hi.sub
    · rw [hl, hcr, hrk, hck]; exact hi.held
    · rw [hr, hcr]; intro r hr'
      obtain ⟨h1, h2, h3⟩ := hi.retsub r hr'
      exact ⟨h1, h2, Nat.le_trans h3 hn⟩
    · rw [hrk, hl]; exact hi.retnew
    · rw [hrk]; exact hi.retnodup
    · rw [hx, hl, hcr]; intro x hx'
      obtain ⟨h1, h2, h3⟩ := hi.canc x hx'
      exact ⟨h1, h2, Nat.le_trans h3 hn⟩
    · rw [hx, hrk]; exact hi.cexact
  | create dur e hl hcr hx hr hn hq =>
    have hrk : retKeys s' = retKeys s := by unfold retKeys; rw [hr]
    have hck : cancKeys s' = cancKeys s := by unfold cancKeys; rw [hx]
    have fresh : ∀ c ∈ s.created, c.key ≠ ⟨s.now + dur, s.q.nextSeq⟩ := by
      intro c hc' heq
      have := hi.seq c hc'
      rw [heq] at this; simp at this
    constructor
    · rw [hl]; exact insert_sorted _ _ _ hi.srt
    · rw [hcr, hq]; intro c hc'
      rcases List.mem_append.mp hc' with h1 | h1
      · have := hi.seq c h1; omega
      · simp only [List.mem_singleton] at h1; subst h1; simp
    · rw [hcr, hn]; intro c hc'
      rcases List.mem_append.mp hc' with h1 | h1
      · exact hi.dl c h1
      · simp only [List.mem_singleton] at h1; subst h1; simp
    · rw [hl, hcr]; intro p hp
      rcases mem_insert_weak _ _ _ p hp with h1 | h1
      · exact ⟨_, List.mem_append_right _ (List.mem_singleton.mpr rfl), by rw [h1], by rw [h1]⟩
      · obtain ⟨c, hc1, hc2⟩ := hi.sub p h1
        exact ⟨c, List.mem_append_left _ hc1, hc2⟩
    · rw [hl, hcr, hrk, hck]; intro c hc' h1 h2
      rcases List.mem_append.mp hc' with h3 | h3
      · exact mem_insert_of_ne _ _ _ _ (hi.held c h3 h1 h2) (fresh c h3)
      · simp only [List.mem_singleton] at h3; subst h3; exact mem_insert_self _ _ _
    · rw [hr, hcr, hn]; intro r hr'
      obtain ⟨⟨c, hc1, hc2⟩, h2, h3⟩ := hi.retsub r hr'
      exact ⟨⟨c, List.mem_append_left _ hc1, hc2⟩, h2, h3⟩
    · rw [hrk, hl]; intro k hk hmem
      rcases keysOf_insert_subset _ _ _ k hmem with h1 | h1
      · obtain ⟨r, hr1, hr2⟩ := List.mem_map.mp hk
        obtain ⟨⟨c, hc1, hc2, _⟩, _⟩ := hi.retsub r hr1
        exact fresh c hc1 (by rw [hc2, hr2, h1])
      · exact hi.retnew k hk h1
    · rw [hrk]; exact hi.retnodup
    · rw [hx, hl, hcr, hn]; intro x hx'
      obtain ⟨h1, h2, h3⟩ := hi.canc x hx'
      refine ⟨?_, ?_, h3⟩
      · intro hmem
        rcases keysOf_insert_subset _ _ _ x.1 hmem with h4 | h4
        · obtain ⟨c, hc1, hc2⟩ := List.mem_map.mp h2
          exact fresh c hc1 (by rw [hc2, h4])
        · exact h1 h4
      · rw [List.map_append]; exact List.mem_append_left _ h2
    · rw [hx, hrk]; exact hi.cexact
  | cancel k hk hl hcr hx hr hn hq =>
    have hrk : retKeys s' = retKeys s := by unfold retKeys; rw [hr]
    have hck : cancKeys s' = cancKeys s ++ [k] := by unfold cancKeys; rw [hx]; simp
    constructor
    · rw [hl]; exact remove_sorted _ _ hi.srt
    · rw [hcr, hq]; exact hi.seq
    · rw [hcr, hn]; exact hi.dl
    · rw [hl, hcr]; intro p hp; exact hi.sub p ((mem_remove _ _ _).mp hp).1
    · rw [hl, hcr, hrk, hck]; intro c hc' h1 h2
      have h1' : c.key ∉ cancKeys s ∧ c.key ≠ k := by
        constructor
        · intro h; exact h1 (List.mem_append_left _ h)
        · intro h; exact h1 (List.mem_append_right _ (by simp [h]))
      exact (mem_remove _ _ _).mpr ⟨hi.held c hc' h1'.1 h2, h1'.2⟩
    · rw [hr, hcr, hn]; exact hi.retsub
    · rw [hrk, hl]; intro k' hk' hmem
      exact hi.retnew k' hk' ((keysOf_remove _ _ _).mp hmem).1
    · rw [hrk]; exact hi.retnodup
    · rw [hx, hl, hcr, hn]; intro x hx'
      rcases List.mem_append.mp hx' with h1 | h1
      · obtain ⟨h2, h3, h4⟩ := hi.canc x h1
        exact ⟨fun hmem => h2 ((keysOf_remove _ _ _).mp hmem).1, h3, h4⟩
      · simp only [List.mem_singleton] at h1; subst h1
        exact ⟨fun hmem => ((keysOf_remove _ _ _).mp hmem).2 rfl, hk, Nat.le_refl _⟩
    · rw [hx, hrk]; intro x hx' hlt
      rcases List.mem_append.mp hx' with h1 | h1
      · exact hi.cexact x h1 hlt
      · simp only [List.mem_singleton] at h1; subst h1
        intro hmem
        obtain ⟨r, hr1, hr2⟩ := List.mem_map.mp hmem
        obtain ⟨_, h2, h3⟩ := hi.retsub r hr1
        have hlt' : s.now < k.deadline := hlt
        rw [hr2] at h2; omega
  | pop k e ts tnow hl0 hl hd hclk hcr hx hr hn hq =>
    obtain ⟨kd, dl, hrx⟩ := hclk
    have htn : tnow ≤ s.now := hc kd dl tnow hrx
    have hrk : retKeys s' = retKeys s ++ [k] := by unfold retKeys; rw [hr]; simp
    have hck : cancKeys s' = cancKeys s := by unfold cancKeys; rw [hx]
    have hsrt := hi.srt
    rw [hl0] at hsrt
    have hklive : k ∈ keysOf (live s.q) := by rw [hl0]; simp [keysOf]
    have hknot : k ∉ keysOf ts := by
      intro hmem
      obtain ⟨p, hp, hpk⟩ := List.mem_map.mp hmem
      have := (List.pairwise_cons.mp hsrt).1 p hp
      simp only at this hpk
      rw [hpk, Key.lt_irrefl] at this; simp at this
    have hsubts : ∀ x, x ∈ keysOf ts → x ∈ keysOf (live s.q) := by
      intro x hx'; rw [hl0]; unfold keysOf at *; simp only [List.map_cons, List.mem_cons]; right; exact hx'
    constructor
    · rw [hl]; exact sorted_tail _ _ hsrt
    · rw [hcr, hq]; exact hi.seq
    · rw [hcr, hn]; exact hi.dl
    · rw [hl, hcr]; intro p hp; exact hi.sub p (by rw [hl0]; exact List.mem_cons_of_mem _ hp)
    · rw [hl, hcr, hrk, hck]; intro c hc' h1 h2
      have h2' : c.key ∉ retKeys s ∧ c.key ≠ k := by
        constructor
        · intro h; exact h2 (List.mem_append_left _ h)
        · intro h; exact h2 (List.mem_append_right _ (by simp [h]))
      have := hi.held c hc' h1 h2'.1
      rw [hl0] at this
      rcases List.mem_cons.mp this with h3 | h3
      · exact absurd (by rw [Prod.mk.injEq] at h3; exact h3.1) h2'.2
      · exact h3
    · rw [hr, hcr, hn]; intro r hr'
      rcases List.mem_append.mp hr' with h1 | h1
      · exact hi.retsub r h1
      · simp only [List.mem_singleton] at h1; subst h1
        obtain ⟨c, hc1, hc2, hc3⟩ := hi.sub (k, e) (by rw [hl0]; exact List.mem_cons_self)
        exact ⟨⟨c, hc1, hc2, hc3⟩, by simp only; omega, Nat.le_refl _⟩
    · rw [hrk, hl]; intro k' hk' hmem
      rcases List.mem_append.mp hk' with h1 | h1
      · exact hi.retnew k' h1 (hsubts k' hmem)
      · simp only [List.mem_singleton] at h1; subst h1; exact hknot hmem
    · rw [hrk]
      rw [List.nodup_append]
      refine ⟨hi.retnodup, by simp, ?_⟩
      intro a ha b hb
      simp only [List.mem_singleton] at hb; subst hb
      intro hab; subst hab
      exact hi.retnew a ha hklive
    · rw [hx, hl, hcr, hn]; intro x hx'
      obtain ⟨h1, h2, h3⟩ := hi.canc x hx'
      exact ⟨fun hmem => h1 (hsubts _ hmem), h2, h3⟩
    · rw [hx, hrk]; intro x hx' hlt hmem
      rcases List.mem_append.mp hmem with h1 | h1
      · exact hi.cexact x hx' hlt h1
      · simp only [List.mem_singleton] at h1
        exact (hi.canc x hx').1 (by rw [h1]; exact hklive)

theorem run_inv : ∀ (acts : List (Act E)) (s s' : St E), TInv s → ClkInv s → run s acts = some s' →
    TInv s' ∧ ClkInv s' := by
  intro acts
  induction acts with
  | nil => intro s s' h1 h2 h; simp only [run, Option.some.injEq] at h; subst h; exact ⟨h1, h2⟩
  | cons a as ih =>
    intro s s' h1 h2 h
    simp only [run] at h
    split at h
    · rename_i s1 hs1
      exact ih s1 s' (step_tinv s s1 a h1 h2 hs1) (step_clk s s1 a h2 hs1) h
    · simp at h

theorem reachable_tinv (s : St E) (h : Reachable s) : TInv s ∧ ClkInv s := by
  obtain ⟨acts, hr⟩ := h
  exact run_inv acts _ s TInv_init ClkInv_init hr

/-! ### the channel invariant: plain and priority events -/

theorem plainOuts_append (r : List (Out E × Nat)) (o : Out E) (t : Nat) :
    plainOuts (r ++ [(o, t)]) = plainOuts r ++ (match o with | .plain e => [e] | _ => []) := by
  unfold plainOuts; rw [List.filterMap_append]; cases o <;> simp

theorem prioOuts_append (r : List (Out E × Nat)) (o : Out E) (t : Nat) :
    prioOuts (r ++ [(o, t)]) = prioOuts r ++ (match o with | .prio e => [e] | _ => []) := by
  unfold prioOuts; rw [List.filterMap_append]; cases o <;> simp

def ChInv (s : St E) : Prop :=
  s.sentPlain = plainOuts s.returned ++ s.q.plain ∧ s.sentPrio = prioOuts s.returned ++ s.q.prio

theorem ChInv_init : ChInv ({} : St E) := by simp [ChInv, plainOuts, prioOuts]

theorem step_chinv (s s' : St E) (a : Act E) (hi : ChInv s) (h : step s a = some s') : ChInv s' := by
  obtain ⟨h1, h2⟩ := hi
  cases a with
  | send e =>
    simp only [step, Option.some.injEq] at h; subst h
    exact ⟨by simp [send, h1], h2⟩
  | sendPrio e =>
    simp only [step, Option.some.injEq] at h; subst h
    exact ⟨h1, by simp [sendPrio, h2]⟩
  | sendTimer dur e =>
    simp only [step, Option.some.injEq] at h; subst h
    exact ⟨h1, h2⟩
  | cancel k =>
    simp only [step] at h
    split at h
    · simp only [Option.some.injEq] at h; subst h; exact ⟨h1, h2⟩
    · simp at h
  | tick n => simp only [step, Option.some.injEq] at h; subst h; exact ⟨h1, h2⟩
  | call k d =>
    simp only [step] at h
    split at h
    · simp only [Option.some.injEq] at h; subst h; exact ⟨h1, h2⟩
    · simp at h
  | readClock =>
    simp only [step] at h
    split at h
    · simp only [Option.some.injEq] at h; subst h; exact ⟨h1, h2⟩
    · simp at h
  | foldPick =>
    simp only [step] at h
    split at h
    · rename_i kd dl tnow hrx
      rcases readyEventK_cases tnow s.q with ⟨p, ps, hp, hre⟩ | ⟨k, e, ts, hp, hl, hd, hre⟩ | ⟨e1, e2, hp, _⟩
      · rw [hre] at h
        simp only [Option.some.injEq] at h; subst h
        exact ⟨by simp [ret, plainOuts_append, h1], by simp [ret, prioOuts_append, h2, hp]⟩
      · rw [hre] at h
        simp only [Option.some.injEq] at h; subst h
        exact ⟨by simp [ret, plainOuts_append, h1], by simp [ret, prioOuts_append, h2, hp]⟩
      · cases hre : readyEventK tnow s.q with
        | mk r q' =>
          rw [hre] at h e1 e2
          simp only at e1 e2
          subst e1; subst e2
          simp only at h
          cases kd with
          | tryRecv =>
            simp only at h
            split at h
            · rename_i x xs hx
              simp only [Option.some.injEq] at h; subst h
              exact ⟨by simp [ret, plainOuts_append, h1, hx], by simp [ret, prioOuts_append, h2]⟩
            · simp only [Option.some.injEq] at h; subst h
              exact ⟨by simp [ret, plainOuts_append, h1], by simp [ret, prioOuts_append, h2]⟩
          | recv =>
            simp only [Option.some.injEq] at h; subst h; exact ⟨h1, h2⟩
          | recvTimeout =>
            simp only [Option.some.injEq] at h; subst h; exact ⟨h1, h2⟩
    · simp at h
  | wake src =>
    simp only [step] at h
    split at h
    · cases src with
      | plain =>
        simp only at h
        split at h
        · rename_i x xs hx
          simp only [Option.some.injEq] at h; subst h
          exact ⟨by simp [ret, plainOuts_append, h1, hx], by simp [ret, prioOuts_append, h2]⟩
        · simp at h
      | prio =>
        simp only at h
        split at h
        · rename_i x xs hx
          simp only [Option.some.injEq] at h; subst h
          exact ⟨by simp [ret, plainOuts_append, h1], by simp [ret, prioOuts_append, h2, hx]⟩
        · simp at h
      | cmd =>
        simp only at h
        split at h
        · simp only [Option.some.injEq] at h; subst h; exact ⟨h1, h2⟩
        · simp at h
      | timer =>
        simp only at h
        split at h
        · split at h
          · simp only [Option.some.injEq] at h; subst h; exact ⟨h1, h2⟩
          · simp at h
        · simp at h
      | timeout =>
        simp only at h
        split at h
        · split at h
          · simp only [Option.some.injEq] at h; subst h
            exact ⟨by simp [ret, plainOuts_append, h1], by simp [ret, prioOuts_append, h2]⟩
          · simp at h
        · simp at h
    · simp at h

theorem reachable_chinv (s : St E) (h : Reachable s) : ChInv s := by
  obtain ⟨acts, hr⟩ := h
  have aux : ∀ (acts : List (Act E)) (s s' : St E), ChInv s → run s acts = some s' → ChInv s' := by
    intro acts
    induction acts with
    | nil => intro s s' h1 h; simp only [run, Option.some.injEq] at h; subst h; exact h1
    | cons a as ih =>
      intro s s' h1 h
      simp only [run] at h
      split at h
      · rename_i s1 hs1; exact ih s1 s' (step_chinv s s1 a h1 hs1) h
      · simp at h
  exact aux acts _ s ChInv_init hr

/-! ### sequence numbers: keys are unique -/

def SeqInv (s : St E) : Prop :=
  List.Pairwise (fun a b => a.key.seq < b.key.seq) s.created ∧ ∀ c ∈ s.created, c.key.seq < s.q.nextSeq

theorem step_seqinv (s s' : St E) (a : Act E) (hi : SeqInv s) (h : step s a = some s') : SeqInv s' := by
  obtain ⟨h1, h2⟩ := hi
  cases step_eff s s' a h with
  | same hl hcr hx hr hn hq => rw [SeqInv, hcr, hq]; exact ⟨h1, h2⟩
  | cancel k hk hl hcr hx hr hn hq => rw [SeqInv, hcr, hq]; exact ⟨h1, h2⟩
  | pop k e ts tnow hl0 hl hd hclk hcr hx hr hn hq => rw [SeqInv, hcr, hq]; exact ⟨h1, h2⟩
  | create dur e hl hcr hx hr hn hq =>
    rw [SeqInv, hcr, hq]
    constructor
    · rw [List.pairwise_append]
      refine ⟨h1, by simp, ?_⟩
      intro a ha b hb
      simp only [List.mem_singleton] at hb; subst hb
      exact h2 a ha
    · intro c hc
      rcases List.mem_append.mp hc with h3 | h3
      · have := h2 c h3; omega
      · simp only [List.mem_singleton] at h3; subst h3; simp

theorem reachable_seqinv (s : St E) (h : Reachable s) : SeqInv s := by
  obtain ⟨acts, hr⟩ := h
  have aux : ∀ (acts : List (Act E)) (s s' : St E), SeqInv s → run s acts = some s' → SeqInv s' := by
    intro acts
    induction acts with
    | nil => intro s s' h1 h; simp only [run, Option.some.injEq] at h; subst h; exact h1
    | cons a as ih =>
      intro s s' h1 h
      simp only [run] at h
      split at h
      · rename_i s1 hs1; exact ih s1 s' (step_seqinv s s1 a h1 hs1) h
      · simp at h
  exact aux acts _ s (by simp [SeqInv]) hr

end Mio.EvQ
