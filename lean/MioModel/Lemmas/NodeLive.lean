import MioModel.Lemmas.Node
/-! Termination of the two dispatch threads of M4 once the node is stopped: every schedule of thread
steps is finite, and none gets stuck before both threads are done (no deadlock on the callback lock). -/
namespace Mio.Node

/-- remaining own steps of the network thread (`p` events of the current batch still to skip) -/
def mN (p : Nat) : Pc → Nat
  | .done => 0
  | .notStarted => 0
  | .idle => 1
  | .fetch => 4 * p + 2
  | .locked _ => 4 * p + 3
  | .want _ => 4 * p + 4
  | .inCb _ => 4 * p + 3
  | .checked _ => 4 * p + 4
  | .rLocked _ => 5
  | .rWant _ => 6
  | .rTop => 7
  | .rInCb _ => 8
  | .rChecked _ => 9

/-- remaining own steps of the signal thread -/
def mS : Pc → Nat
  | .idle => 1
  | .locked _ => 2
  | .inCb _ => 2
  | .want _ => 3
  | .checked _ => 3
  | .fetch => 4
  | _ => 0

def total (s : St) : Nat :=
  mN s.pending.length s.pcN + mS s.pcS + (if s.lock = some .caller then 1 else 0)

/-- the steps of the listener's own threads (the environment may deliver any batch / any signal) -/
def ThreadAct : Act → Prop
  | .net _ | .sig _ | .callerRelease => True
  | _ => False

def Finished (s : St) : Prop := s.pcN = .done ∧ (s.pcS = .done ∨ s.pcS = .notStarted)

/-- the network thread sits inside `process_poll_event` with nothing fetched: the only place where the
environment can still hand it an arbitrarily large batch -/
def mayPoll (s : St) : Prop := s.pcN = .fetch ∧ s.pending = []

/-- a started, stopped node in a reachable configuration -/
structure Stopped (s : St) : Prop where
  minv : MInv s
  struct : Struct s
  stopped : s.running = false
  started : s.pcN ≠ .notStarted

theorem stepNet_started (s s' : St) (p : Nat) (hs : stepNet s p = some s') (h : s.pcN ≠ .notStarted) :
    s'.pcN ≠ .notStarted := by
  unfold stepNet at hs
  cases hp : s.pcN <;> simp only [hp] at hs h <;>
    (repeat' (split at hs)) <;>
    (first
      | (simp at hs; done)
      | (simp only [Option.some.injEq] at hs; subst hs; simp)
      | exact absurd rfl h)

theorem stepSig_frame (s s' : St) (b : Bool) (hs : stepSig s b = some s') :
    s'.pcN = s.pcN ∧ s'.pending = s.pending ∧ s'.running = s.running ∧
    (s'.lock = some .caller → s.lock = some .caller) := by
  unfold stepSig at hs
  cases hp : s.pcS <;> simp only [hp] at hs <;>
    (repeat' (split at hs)) <;>
    (first
      | (simp at hs; done)
      | (simp only [Option.some.injEq] at hs; subst hs; simp_all))

theorem stopped_step (s s' : St) (a : Act) (h : Stopped s) (ha : ThreadAct a) (hs : step s a = some s') :
    Stopped s' := by
  refine ⟨step_minv s s' a h.minv hs, step_struct s s' a h.struct hs, ?_, ?_⟩
  · cases a with
    | net p =>
      simp only [step] at hs
      have hr := h.stopped
      unfold stepNet at hs
      cases hp : s.pcN <;> simp only [hp] at hs <;>
        (repeat' (split at hs)) <;>
        (first
          | (simp at hs; done)
          | (simp only [Option.some.injEq] at hs; subst hs; exact hr))
    | sig b =>
      simp only [step] at hs
      rw [(stepSig_frame s s' b hs).2.2.1]; exact h.stopped
    | callerRelease =>
      simp only [step] at hs
      split at hs
      · simp only [Option.some.injEq] at hs; subst hs; exact h.stopped
      · simp at hs
    | start => exact absurd ha (by simp [ThreadAct])
    | stopIn t => exact absurd ha (by simp [ThreadAct])
    | stopExt => exact absurd ha (by simp [ThreadAct])
  · cases a with
    | net p => simp only [step] at hs; exact stepNet_started s s' p hs h.started
    | sig b => simp only [step] at hs; rw [(stepSig_frame s s' b hs).1]; exact h.started
    | callerRelease =>
      simp only [step] at hs
      split at hs
      · simp only [Option.some.injEq] at hs; subst hs; exact h.started
      · simp at hs
    | start => exact absurd ha (by simp [ThreadAct])
    | stopIn t => exact absurd ha (by simp [ThreadAct])
    | stopExt => exact absurd ha (by simp [ThreadAct])

/-- a step of the signal thread brings the system strictly closer to the end, whatever arrives -/
theorem sig_step_decreases (s s' : St) (b : Bool) (h : Stopped s) (hs : step s (.sig b) = some s') :
    total s' < total s ∧ (mayPoll s' ↔ mayPoll s) := by
  simp only [step] at hs
  obtain ⟨f1, f2, _, f4⟩ := stepSig_frame s s' b hs
  have hr := h.stopped
  have hok := h.minv.sigOk
  have hmp : mayPoll s' ↔ mayPoll s := by unfold mayPoll; rw [f1, f2]
  refine ⟨?_, hmp⟩
  unfold total
  rw [f1, f2]
  have hb : (if s'.lock = some Owner.caller then 1 else 0) ≤ (if s.lock = some Owner.caller then 1 else 0) := by
    by_cases hc : s'.lock = some .caller
    · simp [hc, f4 hc]
    · simp [hc]
  have hdec : mS s'.pcS < mS s.pcS := by
    unfold stepSig at hs
    cases hp : s.pcS <;> simp only [hp] at hs hok <;>
      (repeat' (split at hs)) <;>
      (first
        | (simp at hs; done)
        | (simp [sigPcOk] at hok; done)
        | (simp only [Option.some.injEq] at hs; subst hs; simp_all [mS]))
  omega

theorem release_decreases (s s' : St) (hs : step s .callerRelease = some s') :
    total s' < total s ∧ (mayPoll s' ↔ mayPoll s) := by
  simp only [step] at hs
  split at hs
  · rename_i hl
    simp only [Option.some.injEq] at hs; subst hs
    simp [total, mayPoll, hl]
  · simp at hs

/-- outside `mayPoll`, a step of the network thread brings the system strictly closer to the end,
whatever the poll returns, and `mayPoll` is never entered again -/
theorem net_step_decreases (s s' : St) (p : Nat) (h : Stopped s) (hnp : ¬ mayPoll s)
    (hs : step s (.net p) = some s') : total s' < total s ∧ ¬ mayPoll s' := by
  simp only [step] at hs
  have hr := h.stopped
  have hsr := h.minv.syncReplay
  have hrp := h.struct.replayPending
  have hlk := h.minv.lockN
  unfold stepNet at hs
  unfold total mayPoll at *
  cases hp : s.pcN with
  | notStarted => exact absurd hp h.started
  | done => simp [hp] at hs
  | rTop =>
    have hpend := hrp (by simp [hp, inReplay])
    simp only [hp] at hs
    cases hc : s.cache with
    | nil =>
      cases hm : s.mode with
      | sync =>
        have hS := hsr hm (by simp [hp, inReplay])
        simp only [hc, hm, Option.some.injEq] at hs; subst hs
        simp [mN, mS, hS, hpend]
      | async =>
        simp only [hc, hm, Option.some.injEq] at hs; subst hs
        simp [mN, hpend]
    | cons e rest =>
      cases hm : s.mode <;> simp only [hc, hm, hr, Option.some.injEq] at hs <;>
        (try simp at hs) <;> subst hs <;> simp [mN, hpend]
  | rWant e =>
    simp only [hp] at hs
    split at hs
    · rename_i hl
      simp only [Option.some.injEq] at hs; subst hs
      simp [mN, hl]
    · simp at hs
  | rLocked e =>
    have hl : s.lock = some .net := hlk.2 (by simp [hp, holdsLockN, holdsLockPc])
    simp only [hp, hr] at hs
    simp only [Bool.false_eq_true, if_false, Option.some.injEq] at hs; subst hs
    simp [mN, hl]
  | rChecked e =>
    simp only [hp, Option.some.injEq] at hs; subst hs
    simp [mN]
  | rInCb e =>
    have hpend := hrp (by simp [hp, inReplay])
    simp only [hp] at hs
    cases hm : s.mode with
    | sync =>
      simp only [hm, Option.some.injEq] at hs; subst hs
      simp [mN, hpend]
    | async =>
      have hl : s.lock = some .net := hlk.2 (by simp [hp, holdsLockN, hm])
      simp only [hm, Option.some.injEq] at hs; subst hs
      simp [mN, hl, hpend]
  | idle =>
    simp only [hp, hr] at hs
    simp only [Bool.false_eq_true, if_false, Option.some.injEq] at hs; subst hs
    simp [mN]
  | fetch =>
    simp only [hp] at hs
    cases hpd : s.pending with
    | nil => exact absurd ⟨hp, hpd⟩ hnp
    | cons e rest =>
      simp only [hpd, Option.some.injEq] at hs; subst hs
      simp [mN]; omega
  | want e =>
    simp only [hp] at hs
    split at hs
    · rename_i hl
      simp only [Option.some.injEq] at hs; subst hs
      simp [mN, hl]
    · simp at hs
  | locked e =>
    have hl : s.lock = some .net := hlk.2 (by simp [hp, holdsLockN, holdsLockPc])
    simp only [hp, hr] at hs
    simp only [Bool.false_eq_true, if_false, Option.some.injEq] at hs; subst hs
    cases hpd : s.pending <;> simp [mN, hl, hpd]
  | checked e =>
    simp only [hp, Option.some.injEq] at hs; subst hs
    simp [mN]
  | inCb e =>
    have hl : s.lock = some .net := hlk.2 (by simp [hp, holdsLockN, holdsLockPc])
    simp only [hp, Option.some.injEq] at hs; subst hs
    cases hpd : s.pending <;> simp [mN, hl, hpd]

/-- inside `mayPoll` the network thread's next step leaves it for good -/
theorem net_step_leaves_poll (s s' : St) (p : Nat) (hmp : mayPoll s) (hs : step s (.net p) = some s') :
    ¬ mayPoll s' := by
  simp only [step] at hs
  unfold stepNet at hs
  obtain ⟨hp, hpd⟩ := hmp
  simp only [hp, hpd] at hs
  unfold mayPoll
  split at hs
  · simp only [Option.some.injEq] at hs; subst hs; simp
  · split at hs
    · simp only [Option.some.injEq] at hs; subst hs; simp
    · simp only [Option.some.injEq] at hs; subst hs; simp

/-- one step of a listener thread from a stopped configuration -/
def Next (s' s : St) : Prop := Stopped s ∧ ∃ a, ThreadAct a ∧ step s a = some s'

theorem acc_outside_poll : ∀ (n : Nat) (s : St), total s ≤ n → Stopped s → ¬ mayPoll s → Acc Next s := by
  intro n
  induction n with
  | zero =>
    intro s hn h hnp
    refine Acc.intro s ?_
    intro s' ⟨_, a, ha, hs⟩
    cases a with
    | net p => have := (net_step_decreases s s' p h hnp hs).1; omega
    | sig b => have := (sig_step_decreases s s' b h hs).1; omega
    | callerRelease => have := (release_decreases s s' hs).1; omega
    | start => exact absurd ha (by simp [ThreadAct])
    | stopIn t => exact absurd ha (by simp [ThreadAct])
    | stopExt => exact absurd ha (by simp [ThreadAct])
  | succ n ih =>
    intro s hn h hnp
    refine Acc.intro s ?_
    intro s' ⟨_, a, ha, hs⟩
    have hst := stopped_step s s' a h ha hs
    cases a with
    | net p =>
      have := net_step_decreases s s' p h hnp hs
      exact ih s' (by omega) hst this.2
    | sig b =>
      have := sig_step_decreases s s' b h hs
      exact ih s' (by omega) hst (fun hm => hnp (this.2.mp hm))
    | callerRelease =>
      have := release_decreases s s' hs
      exact ih s' (by omega) hst (fun hm => hnp (this.2.mp hm))
    | start => exact absurd ha (by simp [ThreadAct])
    | stopIn t => exact absurd ha (by simp [ThreadAct])
    | stopExt => exact absurd ha (by simp [ThreadAct])

theorem acc_stopped : ∀ (n : Nat) (s : St), total s ≤ n → Stopped s → Acc Next s := by
  intro n
  induction n with
  | zero =>
    intro s hn h
    refine Acc.intro s ?_
    intro s' ⟨_, a, ha, hs⟩
    have hst := stopped_step s s' a h ha hs
    by_cases hmp : mayPoll s
    · cases a with
      | net p => exact acc_outside_poll _ s' (Nat.le_refl _) hst (net_step_leaves_poll s s' p hmp hs)
      | sig b => have := (sig_step_decreases s s' b h hs).1; omega
      | callerRelease => have := (release_decreases s s' hs).1; omega
      | start => exact absurd ha (by simp [ThreadAct])
      | stopIn t => exact absurd ha (by simp [ThreadAct])
      | stopExt => exact absurd ha (by simp [ThreadAct])
    · exact (acc_outside_poll _ s (Nat.le_refl _) h hmp).inv ⟨h, a, ha, hs⟩
  | succ n ih =>
    intro s hn h
    by_cases hmp : mayPoll s
    · refine Acc.intro s ?_
      intro s' ⟨_, a, ha, hs⟩
      have hst := stopped_step s s' a h ha hs
      cases a with
      | net p => exact acc_outside_poll _ s' (Nat.le_refl _) hst (net_step_leaves_poll s s' p hmp hs)
      | sig b => have := (sig_step_decreases s s' b h hs).1; exact ih s' (by omega) hst
      | callerRelease => have := (release_decreases s s' hs).1; exact ih s' (by omega) hst
      | start => exact absurd ha (by simp [ThreadAct])
      | stopIn t => exact absurd ha (by simp [ThreadAct])
      | stopExt => exact absurd ha (by simp [ThreadAct])
    · exact acc_outside_poll _ s (Nat.le_refl _) h hmp

def waitsN : Pc → Bool
  | .rWant _ | .want _ => true
  | _ => false

theorem stepNet_enabled (s : St) (hd : s.pcN ≠ .done) (hn : s.pcN ≠ .notStarted)
    (hw : waitsN s.pcN = true → s.lock = none) : (stepNet s 0).isSome = true := by
  unfold stepNet
  cases hp : s.pcN with
  | done => exact absurd hp hd
  | notStarted => exact absurd hp hn
  | rWant e => have := hw (by simp [hp, waitsN]); simp [this]
  | want e => have := hw (by simp [hp, waitsN]); simp [this]
  | rTop => simp only; (repeat' split) <;> simp
  | rLocked e => simp only; (repeat' split) <;> simp
  | rChecked e => simp
  | rInCb e => simp only; (repeat' split) <;> simp
  | idle => simp only; (repeat' split) <;> simp
  | fetch => simp only; (repeat' split) <;> simp
  | locked e => simp only; (repeat' split) <;> simp
  | checked e => simp
  | inCb e => simp

theorem stepSig_enabled (s : St) (hd : s.pcS ≠ .done) (hn : s.pcS ≠ .notStarted) (hok : sigPcOk s.pcS = true)
    (hw : waitsN s.pcS = true → s.lock = none) : (stepSig s false).isSome = true := by
  unfold stepSig
  cases hp : s.pcS with
  | done => exact absurd hp hd
  | notStarted => exact absurd hp hn
  | want e => have := hw (by simp [hp, waitsN]); simp [this]
  | idle => simp only; (repeat' split) <;> simp
  | fetch => simp
  | locked e => simp only; (repeat' split) <;> simp
  | checked e => simp
  | inCb e => simp
  | rTop => simp [hp, sigPcOk] at hok
  | rWant e => simp [hp, sigPcOk] at hok
  | rLocked e => simp [hp, sigPcOk] at hok
  | rChecked e => simp [hp, sigPcOk] at hok
  | rInCb e => simp [hp, sigPcOk] at hok

/-- no deadlock: while a thread is still alive, some listener-thread step is enabled -/
theorem stopped_progress (s : St) (h : Stopped s) (hnf : ¬ Finished s) :
    ∃ a, ThreadAct a ∧ (step s a).isSome = true := by
  have hN := h.minv.lockN
  have hS := h.minv.lockS
  have hok := h.minv.sigOk
  cases hl : s.lock with
  | some o =>
    cases o with
    | caller => exact ⟨.callerRelease, trivial, by simp [step, hl]⟩
    | net =>
      have hh := hN.1 hl
      refine ⟨.net 0, trivial, ?_⟩
      simp only [step]
      apply stepNet_enabled
      · intro hp; rw [hp] at hh; simp [holdsLockN, holdsLockPc] at hh
      · intro hp; rw [hp] at hh; simp [holdsLockN, holdsLockPc] at hh
      · intro hw
        cases hp : s.pcN <;> rw [hp] at hh hw <;> simp [holdsLockN, holdsLockPc, waitsN] at hh hw
    | sig =>
      have hh := hS.1 hl
      refine ⟨.sig false, trivial, ?_⟩
      simp only [step]
      apply stepSig_enabled
      · intro hp; rw [hp] at hh; simp [holdsLockPc] at hh
      · intro hp; rw [hp] at hh; simp [holdsLockPc] at hh
      · exact hok
      · intro hw
        cases hp : s.pcS <;> rw [hp] at hh hw <;> simp [holdsLockPc, waitsN] at hh hw
  | none =>
    by_cases hd : s.pcN = .done
    · have hsn : ¬ (s.pcS = .done ∨ s.pcS = .notStarted) := fun hx => hnf ⟨hd, hx⟩
      refine ⟨.sig false, trivial, ?_⟩
      simp only [step]
      exact stepSig_enabled s (fun hx => hsn (Or.inl hx)) (fun hx => hsn (Or.inr hx)) hok (fun _ => hl)
    · refine ⟨.net 0, trivial, ?_⟩
      simp only [step]
      exact stepNet_enabled s hd h.started (fun _ => hl)

end Mio.Node
