import MioModel.Varint
import MioModel.Generated
/-! M1b — `message_io::util::encoding::Decoder` (src/util/encoding.rs:21-117), checked-arithmetic
semantics: every `usize` subtraction that could underflow is an explicit `none` (= the panic of a
build with overflow checks; the repository's tests run under that profile).  `&mut self` becomes a
returned `stored` buffer, the callback becomes the list of payloads it was called with. -/
namespace Mio
open Generated

/-- `Decoder::try_decode` (lines 34-54); `self.stored` is empty on entry (only call sites: `decode`
with an empty buffer, or right after `stored.clear()`).  Returns (stored', callbacks).
`fuel`: loop bound; `data.length < fuel` suffices (each iteration consumes ≥ 1 byte). -/
def tryDecode : Nat → Bytes → Bytes × List Bytes
  | 0, data => (data, [])
  | fuel + 1, data =>
    match decodeVar data with
    | some (expected, used) =>
      let remaining := data.drop used
      if expected ≤ remaining.length then
        let decoded := remaining.take expected
        let notDecoded := remaining.drop expected
        if notDecoded = [] then ([], [decoded])
        else
          let (st, outs) := tryDecode fuel notDecoded
          (st, decoded :: outs)
      else (data, [])
    | none => (data, [])

/-- tail of `store_and_decoded_data` once the size is known (lines 76-88):
`remaining = expected_size - (self.stored.len() - used_bytes)`; outer `none` = underflow panic.
Inner `none`: more data needed (everything stored); inner `some (msg, rest)`: frame completed. -/
def finishFrame (stored : Bytes) (expected used : Nat) (data : Bytes) :
    Option (Bytes × Option (Bytes × Bytes)) :=
  if stored.length < used then none
  else if expected < stored.length - used then none
  else
    let remaining := expected - (stored.length - used)
    if data.length < remaining then some (stored ++ data, none)
    else
      let stored' := stored ++ data.take remaining
      some (stored', some (stored'.drop used, data.drop remaining))

/-- `data.iter().position(|b| b & 0x80 == 0).map_or(data.len(), |p| p + 1)` (line 63). -/
def sizeEnd : Bytes → Nat
  | [] => 0
  | b :: bs => if b.toNat &&& 0x80 = 0 then 1 else 1 + sizeEnd bs

/-- `store_and_decoded_data` (lines 56-89). `MAX_ENCODED_SIZE.saturating_sub(len)` is `Nat` subtraction. -/
def storeAndDecoded (stored data : Bytes) : Option (Bytes × Option (Bytes × Bytes)) :=
  match decodeVar stored with
  | some (expected, used) => finishFrame stored expected used data
  | none =>
    let maxRemaining := min (maxEncodedSize - stored.length) (sizeEnd data)
    let stored' := stored ++ data.take maxRemaining
    match decodeVar stored' with
    | some (expected, used) => finishFrame stored' expected used (data.drop maxRemaining)
    | none => some (stored', none)

/-- `Decoder::decode` (lines 95-107): new stored buffer and the callback payloads; `none` = panic. -/
def decode (stored data : Bytes) : Option (Bytes × List Bytes) :=
  if stored = [] then some (tryDecode (data.length + 1) data)
  else
    match storeAndDecoded stored data with
    | none => none
    | some (st, none) => some (st, [])
    | some (_, some (msg, rest)) =>
      let (st', outs) := tryDecode (rest.length + 1) rest
      some (st', msg :: outs)

/-- a whole history of `decode` calls on one decoder: final buffer and all callbacks in order. -/
def feed : Bytes → List Bytes → Option (Bytes × List Bytes)
  | st, [] => some (st, [])
  | st, c :: cs =>
    match decode st c with
    | none => none
    | some (st', outs) =>
      match feed st' cs with
      | none => none
      | some (st'', outs') => some (st'', outs ++ outs')

/-- what `framed_tcp::RemoteResource::send` puts on the wire for one message (lines 132-157). -/
def frame (m : Bytes) : Bytes := encodeVar m.length ++ m
def frames (ms : List Bytes) : Bytes := (ms.map frame).flatten

end Mio
