import MioModel.Generated
/-! M6 — `src/network/resource_id.rs` (lines 22-137), the poll token (`poll.rs:26-36, 57-59`), the
transport table (`transport.rs:124-152`) and the driver table (`loader.rs:27-59`).

`usize` is 64 bit: raw ids are `Nat`s `< 2^64`, and every operation that can drop bits in Rust
(`<<` on usize) is followed by an explicit `% 2^64`.  `ResourceId::new`'s two `debug_assert!`s are
the `none` of `mk` (checked profile). -/
namespace Mio.Rid
open Mio.Generated

def adapterIdPos : Nat := 0
def resourceTypePos : Nat := 7
def baseValuePos : Nat := 8
def adapterIdMask : Nat := 0x7f
def baseValueMask : Nat := 0xFFFFFFFFFFFFFF00

inductive RType | local | remote
deriving DecidableEq, Repr

/-- `ResourceId::new` (lines 34-58) -/
def mk (adapter : Nat) (t : RType) (base : Nat) : Option Nat :=
  if adapter > maxAdapterId then none
  else if base > maxBaseValue then none
  else
    let rt := match t with
      | .local => 1 <<< resourceTypePos
      | .remote => 0
    some (((adapter <<< adapterIdPos) ||| rt ||| ((base <<< baseValuePos) % 2 ^ 64)))

/-- `resource_type()` (lines 66-73) -/
def resourceType (raw : Nat) : RType :=
  if raw &&& (1 <<< resourceTypePos) ≠ 0 then .local else .remote

/-- `adapter_id()` (lines 88-90); the `as u8` cast is `% 256` -/
def adapterId (raw : Nat) : Nat := ((raw &&& adapterIdMask) >>> adapterIdPos) % 256

/-- `base_value()` (lines 93-95) -/
def baseValue (raw : Nat) : Nat := (raw &&& baseValueMask) >>> baseValuePos

/-- `impl From<ResourceId> for Token` (poll.rs:32-36): `(id.raw() << RESERVED_BITS) | 1` -/
def toToken (raw : Nat) : Nat := ((raw <<< 1) % 2 ^ 64) ||| 1

/-- `impl From<Token> for ResourceId` (poll.rs:26-30) -/
def ofToken (tok : Nat) : Nat := tok >>> 1

def wakerToken : Nat := 0

/-- `ResourceIdGenerator` (lines 120-137): the state is the `last` counter -/
structure Gen where
  adapter : Nat
  rtype : RType
  last : Nat

/-- `generate()`: `fetch_add(1)` then `ResourceId::new` -/
def Gen.generate (g : Gen) : Option Nat × Gen :=
  (Rid.mk g.adapter g.rtype g.last, { g with last := (g.last + 1) % 2 ^ 64 })

/-- ids produced by `n` consecutive `generate()` calls -/
def Gen.run : Gen → Nat → List (Option Nat)
  | _, 0 => []
  | g, n + 1 => (g.generate).1 :: Gen.run (g.generate).2 n

/-! ### transport table and driver dispatch -/

/-- `Transport::from(id)` for ids of the table, `none` = the "Not available transport" panic -/
def transportOfId (id : Nat) : Option TransportRow := transports.find? (fun r => r.id = id)

/-- the 128-slot controller/processor table of `DriverLoader`: slot `i` holds the driver mounted
with `loader.mount(transport.id(), …)`; `none` = `UnimplementedDriver` (every call panics) -/
def driverSlot (i : Nat) : Option String :=
  if i < maxAdapters then (transports.find? (fun r => r.id = i)).map (·.name) else none

/-- `controllers[id.adapter_id() as usize]` -/
def dispatch (raw : Nat) : Option String := driverSlot (adapterId raw)

end Mio.Rid
