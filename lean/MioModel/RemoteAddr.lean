/-! M7 — `src/network/remote_addr.rs` (lines 13-152).  `SocketAddr` is an opaque type parameter `A`;
`str::parse::<SocketAddr>()` is the parameter `parse`, `Display for SocketAddr` is `showAddr`: the
theorems hold for every parser and printer. Panics are `none`. -/
namespace Mio

inductive RemoteAddr (A : Type) where
  | socket (a : A)
  | str (s : String)
deriving DecidableEq, Repr

namespace RemoteAddr
variable {A : Type}

/-- `impl ToRemoteAddr for &str` (lines 78-85) -/
def ofStr (parse : String → Option A) (s : String) : RemoteAddr A :=
  match parse s with
  | some a => socket a
  | none => str s

/-- `impl ToRemoteAddr for SocketAddr / SocketAddrV4 / SocketAddrV6` (lines 99-115) -/
def ofAddr (a : A) : RemoteAddr A := socket a

def isSocketAddr : RemoteAddr A → Bool
  | socket _ => true
  | str _ => false

def isString : RemoteAddr A → Bool
  | str _ => true
  | socket _ => false

/-- `socket_addr()`: `none` is the documented panic -/
def socketAddr : RemoteAddr A → Option A
  | socket a => some a
  | str _ => none

/-- `string()`: `none` is the documented panic -/
def string : RemoteAddr A → Option String
  | str s => some s
  | socket _ => none

/-- `to_socket_addrs()`: `none` is `Err(InvalidInput)` -/
def toSocketAddrs : RemoteAddr A → Option A
  | socket a => some a
  | str _ => none

def display (showAddr : A → String) : RemoteAddr A → String
  | socket a => showAddr a
  | str s => s

end RemoteAddr
end Mio
