/-! M3 — `src/events.rs`: `EventReceiver` / `EventSender`.

Three unbounded FIFO channels (plain, priority, timer commands), the `BTreeMap` of pending timers
(a strictly key-sorted association list), logical time in `Nat`.  Two semantics:

* sequential (`tryReceive`, `receiveTimeout`, `receive`): total functions on a *quiescent* queue
  (nobody sends during the call), returning the event, the time at which the call returns, and the
  new queue — this is what C07 quantifies over;
* small-step concurrent (`step`): sender operations are atomic enqueues, the receiver's calls are
  split at every point where another thread can interleave (C06, C08, C16). -/
namespace Mio.EvQ

/-- `TimerId(Instant, usize)` = the `BTreeMap` key `(Instant, usize)`, ordered lexicographically. -/
structure Key where
  deadline : Nat
  seq : Nat
deriving DecidableEq, Repr

def Key.lt (a b : Key) : Bool :=
  a.deadline < b.deadline || (a.deadline == b.deadline && a.seq < b.seq)

inductive Cmd (E : Type) where
  | create (e : E)
  | cancel
deriving Repr

structure Q (E : Type) where
  plain : List E := []
  prio : List E := []
  cmds : List (Key × Cmd E) := []
  timers : List (Key × E) := []
  nextSeq : Nat := 0

variable {E : Type}

/-- `BTreeMap::insert` (replaces the value of an equal key) -/
def insert (k : Key) (e : E) : List (Key × E) → List (Key × E)
  | [] => [(k, e)]
  | (k', e') :: ts =>
    if k = k' then (k, e) :: ts
    else if k.lt k' then (k, e) :: (k', e') :: ts
    else (k', e') :: insert k e ts

/-- `BTreeMap::remove` -/
def remove (k : Key) (ts : List (Key × E)) : List (Key × E) := ts.filter (fun p => p.1 ≠ k)

/-- `enque_timer` (one command) -/
def applyCmd (ts : List (Key × E)) (c : Key × Cmd E) : List (Key × E) :=
  match c.2 with
  | .create e => insert c.1 e ts
  | .cancel => remove c.1 ts

/-- `enque_timers` (drain the command channel in order) -/
def foldCmds (ts : List (Key × E)) (cs : List (Key × Cmd E)) : List (Key × E) := cs.foldl applyCmd ts

/-! ### sender operations (each one atomic enqueue) -/

def send (q : Q E) (e : E) : Q E := { q with plain := q.plain ++ [e] }
def sendPrio (q : Q E) (e : E) : Q E := { q with prio := q.prio ++ [e] }
/-- `send_with_timer`: `when = now + duration`, sequence number from the shared counter -/
def sendTimer (q : Q E) (now dur : Nat) (e : E) : Key × Q E :=
  let k : Key := { deadline := now + dur, seq := q.nextSeq }
  (k, { q with cmds := q.cmds ++ [(k, .create e)], nextSeq := q.nextSeq + 1 })
def cancelTimer (q : Q E) (k : Key) : Q E := { q with cmds := q.cmds ++ [(k, .cancel)] }

/-! ### receiver -/

/-- `ready_event()`: clock value `now` (read before the fold), fold the commands, then a priority
event or the first expired timer. -/
def readyEvent (now : Nat) (q : Q E) : Option E × Q E :=
  let q := { q with timers := foldCmds q.timers q.cmds, cmds := [] }
  match q.prio with
  | p :: ps => (some p, { q with prio := ps })
  | [] =>
    match q.timers with
    | (k, e) :: ts => if k.deadline ≤ now then (some e, { q with timers := ts }) else (none, q)
    | [] => (none, q)

/-- `try_receive()` -/
def tryReceive (now : Nat) (q : Q E) : Option E × Q E :=
  match readyEvent now q with
  | (some e, q') => (some e, q')
  | (none, q') =>
    match q'.plain with
    | x :: xs => (some x, { q' with plain := xs })
    | [] => (none, q')

/-- `receive_timeout(d)` started at time `now` on a quiescent queue: event (or `none`), the time at
which the call returns, the new queue.  After `ready_event()` found nothing the `select!` returns a
queued plain event at once; otherwise it sleeps until the first timer's deadline or the timeout,
whichever comes first, and the next loop iteration delivers that timer. -/
def receiveTimeout (now d : Nat) (q : Q E) : Option E × Nat × Q E :=
  match readyEvent now q with
  | (some e, q') => (some e, now, q')
  | (none, q') =>
    match q'.plain with
    | x :: xs => (some x, now, { q' with plain := xs })
    | [] =>
      match q'.timers with
      | (k, e) :: ts =>
        if k.deadline ≤ now + d then (some e, k.deadline, { q' with timers := ts })
        else (none, now + d, q')
      | [] => (none, now + d, q')

/-- `receive()` on a quiescent queue; `none` = the call blocks forever (nothing queued at all). -/
def receive (now : Nat) (q : Q E) : Option (E × Nat × Q E) :=
  match readyEvent now q with
  | (some e, q') => some (e, now, q')
  | (none, q') =>
    match q'.plain with
    | x :: xs => some (x, now, { q' with plain := xs })
    | [] =>
      match q'.timers with
      | (k, e) :: ts => some (e, k.deadline, { q' with timers := ts })
      | [] => none

/-! ### single-threaded histories (C07): every call is issued from one thread -/

inductive Op (E : Type) where
  | send (e : E)
  | sendPrio (e : E)
  | sendTimer (dur : Nat) (e : E)
  | cancel (k : Key)
  | tick (n : Nat)
  | tryReceive
  | receiveTimeout (d : Nat)
  | receive

/-- state of a single-threaded history: the clock and the queue -/
def stepOp (s : Nat × Q E) : Op E → Nat × Q E
  | .send e => (s.1, send s.2 e)
  | .sendPrio e => (s.1, sendPrio s.2 e)
  | .sendTimer dur e => (s.1, (sendTimer s.2 s.1 dur e).2)
  | .cancel k => (s.1, cancelTimer s.2 k)
  | .tick n => (s.1 + n, s.2)
  | .tryReceive => (s.1, (tryReceive s.1 s.2).2)
  | .receiveTimeout d => ((receiveTimeout s.1 d s.2).2.1, (receiveTimeout s.1 d s.2).2.2)
  | .receive =>
    match receive s.1 s.2 with
    | some (_, t, q') => (t, q')
    | none => s            -- would block forever: not part of any finite history

def runOps (s : Nat × Q E) (ops : List (Op E)) : Nat × Q E := ops.foldl stepOp s

end Mio.EvQ
