import MioModel.EventQueue
/-! M3, concurrent small-step semantics (C06, C08, C16).

Any number of sender threads perform atomic enqueues (`send`, `sendPrio`, `sendTimer`, `cancel`) at
any time; the clock advances by `tick`; the single receiver executes its calls in micro-steps, so
every interleaving the real code allows between two of its shared-memory accesses is a schedule of
this system:

* `call k d`   — the call starts; `receive_timeout` computes its absolute deadline `now + d`;
* `readClock`  — `ready_event()` reads `Instant::now()` (before folding the commands);
* `foldPick`   — `enque_timers()`, then priority / first expired timer (w.r.t. the clock value read),
                 then — `try_receive` — the plain channel, or — blocking calls — enter the `select!`;
* `wake src`   — the `select!` completes on one source that is *ready*: plain, priority, a timer
                 command (applied, then loop), the expiry of the first pending timer (loop), or the
                 timeout (only when no operation is ready, as crossbeam tries the operations first).

Ghost fields record what was sent, scheduled, cancelled and returned. -/
namespace Mio.EvQ
variable {E : Type}

inductive Kind where
  | tryRecv | recv | recvTimeout
deriving DecidableEq, Repr

inductive Rx where
  | idle
  | started (k : Kind) (deadline : Option Nat)
  | clockRead (k : Kind) (deadline : Option Nat) (tnow : Nat)
  | blocked (k : Kind) (deadline : Option Nat)
deriving DecidableEq, Repr

inductive Src where
  | plain | prio | cmd | timer | timeout
deriving DecidableEq, Repr

/-- what a receive call returned -/
inductive Out (E : Type) where
  | plain (e : E)
  | prio (e : E)
  | timer (k : Key) (e : E)
  | none
deriving Repr

/-- a scheduled timer (ghost): key, event, clock value at the scheduling call, requested duration -/
structure Sched (E : Type) where
  key : Key
  ev : E
  at_ : Nat
  dur : Nat

structure St (E : Type) where
  q : Q E := {}
  now : Nat := 0
  rx : Rx := .idle
  returned : List (Out E × Nat) := []      -- result and the time of return, oldest first
  sentPlain : List E := []
  sentPrio : List E := []
  created : List (Sched E) := []
  cancelled : List (Key × Nat) := []        -- cancel requests with the time they were enqueued

inductive Act (E : Type) where
  | send (e : E)
  | sendPrio (e : E)
  | sendTimer (dur : Nat) (e : E)
  | cancel (k : Key)
  | tick (n : Nat)
  | call (k : Kind) (d : Nat)
  | readClock
  | foldPick
  | wake (src : Src)

/-- `ready_event()` after the clock read, with the key of a returned timer made visible -/
def readyEventK (tnow : Nat) (q : Q E) : Option (Out E) × Q E :=
  let q := { q with timers := foldCmds q.timers q.cmds, cmds := [] }
  match q.prio with
  | p :: ps => (some (.prio p), { q with prio := ps })
  | [] =>
    match q.timers with
    | (k, e) :: ts => if k.deadline ≤ tnow then (some (.timer k e), { q with timers := ts }) else (none, q)
    | [] => (none, q)

def ret (s : St E) (o : Out E) (q : Q E) : St E :=
  { s with q := q, rx := .idle, returned := s.returned ++ [(o, s.now)] }

/-- is the timeout the only thing that can complete the `select!`? -/
def nothingReady (q : Q E) (now : Nat) : Bool :=
  q.plain.isEmpty && q.prio.isEmpty && q.cmds.isEmpty &&
    (match q.timers with
     | (k, _) :: _ => !(decide (k.deadline ≤ now))
     | [] => true)

/-- one step; `none` = the action is not enabled in this state -/
def step (s : St E) : Act E → Option (St E)
  | .send e => some { s with q := send s.q e, sentPlain := s.sentPlain ++ [e] }
  | .sendPrio e => some { s with q := sendPrio s.q e, sentPrio := s.sentPrio ++ [e] }
  | .sendTimer dur e =>
    let (k, q') := sendTimer s.q s.now dur e
    some { s with q := q', created := s.created ++ [{ key := k, ev := e, at_ := s.now, dur := dur }] }
  | .cancel k =>
    -- a `TimerId` can only be obtained from `send_with_timer`
    if k ∈ s.created.map (·.key) then
      some { s with q := cancelTimer s.q k, cancelled := s.cancelled ++ [(k, s.now)] }
    else none
  | .tick n => some { s with now := s.now + n }
  | .call k d =>
    match s.rx with
    | .idle => some { s with rx := .started k (if k = .recvTimeout then some (s.now + d) else none) }
    | _ => none
  | .readClock =>
    match s.rx with
    | .started k dl => some { s with rx := .clockRead k dl s.now }
    | _ => none
  | .foldPick =>
    match s.rx with
    | .clockRead k dl tnow =>
      match readyEventK tnow s.q with
      | (some o, q') => some (ret s o q')
      | (none, q') =>
        match k with
        | .tryRecv =>
          match q'.plain with
          | x :: xs => some (ret s (.plain x) { q' with plain := xs })
          | [] => some (ret s .none q')
        | _ => some { s with q := q', rx := .blocked k dl }
    | _ => none
  | .wake src =>
    match s.rx with
    | .blocked k dl =>
      match src with
      | .plain =>
        match s.q.plain with
        | x :: xs => some (ret s (.plain x) { s.q with plain := xs })
        | [] => none
      | .prio =>
        match s.q.prio with
        | p :: ps => some (ret s (.prio p) { s.q with prio := ps })
        | [] => none
      | .cmd =>
        match s.q.cmds with
        | c :: cs => some { s with q := { s.q with timers := applyCmd s.q.timers c, cmds := cs }, rx := .started k dl }
        | [] => none
      | .timer =>
        match s.q.timers with
        | (key, _) :: _ => if key.deadline ≤ s.now then some { s with rx := .started k dl } else none
        | [] => none
      | .timeout =>
        match dl with
        | some t => if t ≤ s.now ∧ nothingReady s.q s.now = true then some (ret s .none s.q) else none
        | none => none
    | _ => none

/-- run a schedule; `none` if some action was not enabled -/
def run : St E → List (Act E) → Option (St E)
  | s, [] => some s
  | s, a :: as =>
    match step s a with
    | some s' => run s' as
    | none => none

/-- states reachable from the empty queue by some schedule -/
def Reachable (s : St E) : Prop := ∃ acts, run ({} : St E) acts = some s

end Mio.EvQ
