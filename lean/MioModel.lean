-- Root of the `MioModel` library: models, lemmas, property theorems.
import MioModel.Bytes
import MioModel.Generated
import MioModel.Varint
import MioModel.Decoder
import MioModel.RemoteAddr
import MioModel.ResourceId
import MioModel.EventQueue
import MioModel.AsFound.Decoder
import MioModel.Lemmas.Varint
import MioModel.Lemmas.Decoder
import MioModel.Lemmas.ResourceId
import MioModel.Lemmas.EventQueue
import MioModel.Props.C02
import MioModel.Props.C07
import MioModel.Props.C14
import MioModel.Props.C17
import MioModel.Props.C19
