import Driver.Dec
import Driver.Rid
import Driver.Main
