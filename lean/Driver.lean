import Driver.Dec
import Driver.Rid
import Driver.Evq
import Driver.EvqConc
import Driver.StreamD
import Driver.NetD
import Driver.NodeD
import Driver.Main
