import Driver.Dec
import Driver.Main
