import MioModel.Net
import MioModel.Accept
import Driver.Evq
/-! Line-protocol handler for M5: `net hist <items…>` — a recorded single-adapter history (user calls
with their results and the events the callback saw, in the order they happened).  The driver
re-executes it on the model: user calls must return what the model returns; every event must be
producible by processor steps in the model state it arrives in (otherwise the history is rejected). -/
namespace Mio.Driver
open Mio.Net

def stepsN (s : St) (acts : List Act) : Option St := run s acts

def lastResult (s : St) : String := (s.results.getLast?.map (·.2.2)).getD ""

def parseStatus (t : String) : Option Status :=
  if t = "Sent" then some .sent else if t = "MaxPacketSizeExceeded" then some .maxPacketSizeExceeded
  else if t = "ResourceNotFound" then some .resourceNotFound
  else if t = "ResourceNotAvailable" then some .resourceNotAvailable else none

/-- register accepted resources silently until the remote counter reaches `upto`
(inbound connections consume ids at accept time; `acc id` tells which listener accepted it) -/
def fillAccepted (s : St) (upto : Nat) (acc : Nat → Option Nat) (fuel : Nat) : Option St :=
  match fuel with
  | 0 => some s
  | fuel + 1 =>
    if s.nextRemote ≥ upto then some s
    else
      let lid := (acc s.nextRemote).getD (s.locals.head?.getD 0)
      -- the accepting listener may have been removed since; the register was created while it lived
      let s0 := if s.locals.contains lid then s else { s with locals := s.locals ++ [lid] }
      match stepsN s0 [.pollLocal lid [0] [], .acceptOne, .acceptOne] with
      | some s1 => fillAccepted { s1 with locals := s.locals } upto acc fuel
      | none => none

/-- number of `eM<id>` events of the receive batch that starts here: consecutive `Message`s for the
same endpoint, possibly with user calls made inside the callbacks in between -/
def batchLen (id : Nat) (toks : List String) : Nat :=
  let rec go (ts : List String) (n : Nat) : Nat :=
    match ts with
    | [] => n
    | t :: rest =>
      if t = s!"eM{id}" then go rest (n + 1)
      else if t.startsWith "e" || t = "P" then n
      else go rest n
  go toks 0

def netItem (s : St) (acc : Nat → Option Nat) (tok : String) (later : List String) : Except String St :=
  if tok = "P" then .ok s else
  let (lhs, res) := splitAt1 tok '='
  let cs := lhs.toList
  let kind := String.ofList (cs.takeWhile (fun c => !c.isDigit))
  let rest := String.ofList (cs.dropWhile (fun c => !c.isDigit))
  let (a, b) := splitAt1 rest ':'
  match a.toNat? with
  | none => .error s!"bad-case {tok}"
  | some id =>
    let filled := fun (upto : Nat) => fillAccepted s upto acc 64
    let check (s' : Option St) (what : String) : Except String St :=
      match s' with
      | none => .error s!"model rejects {tok}: {what}"
      | some s' => .ok s'
    if kind = "L" then
      match step s .listen with
      | some s' => if s'.nextLocal = id + 1 then .ok s' else .error s!"{tok}: model listener id {s.nextLocal}"
      | none => .error "listen"
    else if kind = "C" then
      match filled id with
      | none => .error s!"{tok}: cannot fill accepted ids"
      | some s0 =>
        if s0.nextRemote ≠ id then .error s!"{tok}: model would hand out id {s0.nextRemote}"
        else check (step s0 (.connect 0)) "connect"
    else if kind = "S" then
      match parseStatus res, filled (id + 1) with
      | some st, some s0 =>
        match step s0 (.send id st) with
        | some s' => if lastResult s' = res then .ok s' else .error s!"{tok}: model={lastResult s'}"
        | none => .error "send"
      | _, _ => .error s!"bad-case {tok}"
    else if kind = "SL" then
      match parseStatus res with
      | some st =>
        match step s (.sendLocal id st) with
        | some s' => if lastResult s' = res then .ok s' else .error s!"{tok}: model={lastResult s'}"
        | none => .error "sendLocal"
      | none => .error s!"bad-case {tok}"
    else if kind = "QL" then
      if (s.locals.contains id && res = "Some(true)") || (!s.locals.contains id && res = "None") then .ok s
      else .error s!"{tok}: listener registered = {s.locals.contains id}"
    else if kind = "R" then
      match filled (id + 1) with
      | some s0 =>
        match step s0 (.remove id) with
        | some s' => if lastResult s' = res then .ok s' else .error s!"{tok}: model={lastResult s'}"
        | none => .error "remove"
      | none => .error "fill"
    else if kind = "RL" then
      match step s (.removeLocal id) with
      | some s' => if lastResult s' = res then .ok s' else .error s!"{tok}: model={lastResult s'}"
      | none => .error "removeLocal"
    else if kind = "Q" then
      match filled (id + 1) with
      | some s0 =>
        match step s0 (.isReady id) with
        | some s' => if lastResult s' = res then .ok s' else .error s!"{tok}: model={lastResult s'}"
        | none => .error "isReady"
      | none => .error "fill"
    else if kind = "eC" then
      if b = "t" then
        -- the readiness event that completes the handshake may be a read event: `process` then goes on
        -- to `receive` on the register it holds, even if the callback removed the resource meanwhile
        let k := batchLen id later
        if k = 0 then check (stepsN s [.pollRemote id false, .pending .ready, .beginReceive 0 false]) "Connected(true) needs a live, not yet ready, connect()-made resource"
        else check (stepsN s [.pollRemote id true, .pending .ready, .beginReceive k false]) "Connected(true) needs a live, not yet ready, connect()-made resource"
      else
        match stepsN s [.pollRemote id false, .pending .disconnected, .beginReceive 0 false] with
        | some s' => if s'.log.getLast? = some (.connected id false) then .ok s' else .error s!"model rejects {tok}: not a connect()-made pending resource"
        | none => .error s!"model rejects {tok}"
    else if kind = "eA" then
      match b.toNat?, filled (id + 1) with
      | some lid, some s0 =>
        let k := batchLen id later
        match stepsN s0 (if k = 0 then [.pollRemote id false, .pending .ready, .beginReceive 0 false]
                         else [.pollRemote id true, .pending .ready, .beginReceive k false]) with
        | some s' => if s'.log.getLast? = some (.accepted id lid) then .ok s' else .error s!"model rejects {tok}: accepted by another listener or not an accepted resource"
        | none => .error s!"model rejects {tok}: Accepted needs a live, not yet ready resource"
      | _, _ => .error s!"bad-case {tok}"
    else if kind = "eM" then
      -- one `receive` call delivers the whole batch; the user may remove the resource in between
      let closeIfDone (s' : St) : Except String St :=
        match s'.proc with
        | .receiving _ 0 _ => check (stepsN s' [.endReceive, .finish]) "end of receive"
        | _ => .ok s'
      match s.proc with
      | .receiving pid _ _ =>
        if pid = id then
          match step s .deliver with
          | some s' => closeIfDone s'
          | none => .error s!"model rejects {tok}"
        else .error s!"model rejects {tok}: another receive is in progress"
      | _ =>
        let k := batchLen id (tok :: later)
        match stepsN s [.pollRemote id true, .checkReady, .beginReceive k false, .deliver] with
        | some s' => closeIfDone s'
        | none => .error s!"model rejects {tok}: Message needs a live, ready resource"
    else if kind = "eD" then
      match stepsN s [.pollRemote id true, .checkReady, .beginReceive 0 true, .endReceive, .finish] with
      | some s' => if s'.log.getLast? = some (.disconnected id) then .ok s' else .error s!"model rejects {tok}: the resource was already removed"
      | none => .error s!"model rejects {tok}: Disconnected needs a live, ready resource"
    else if kind = "eU" then
      check (stepsN s [.pollLocal id [] [0], .acceptOne, .acceptOne]) "datagram via a listener that is not registered"
    else .error s!"bad-case {tok}"

def runNetHist (toks : List String) : String :=
  -- pre-scan: which listener accepted which id
  let accs : List (Nat × Nat) := toks.filterMap fun t =>
    if t.startsWith "eA" then
      let (a, b) := splitAt1 (t.drop 2).toString ':'
      match a.toNat?, b.toNat? with
      | some i, some l => some (i, l)
      | _, _ => none
    else none
  let acc : Nat → Option Nat := fun i => (accs.find? (·.1 = i)).map (·.2)
  let rec go (s : St) (ts : List String) (n : Nat) : String :=
    match ts with
    | [] => "ok"
    | t :: rest =>
      match netItem s acc t rest with
      | .ok s' => go s' rest (n + 1)
      | .error e => s!"item#{n}: {e}"
  go {} toks 0

/-- `net race <T> <n> <threads>`: `threads` concurrent `remove(id)` calls for each of `n` established
endpoints whose peers close as well: whatever the interleaving the model ends each endpoint once
(C04 `end_exactly_once`); the driver plays one interleaving and reports the maximum -/
def runNetRace (n threads : Nat) : String :=
  let setup : List Act := (List.range n).flatMap fun i =>
    [.connect 0, .pollRemote i false, .pending .ready, .beginReceive 0 false]
  match run {} setup with
  | none => "model: setup"
  | some s0 =>
    let acts : List Act := (List.range n).flatMap fun i =>
      (List.replicate threads (.remove i)) ++ [.pollRemote i true]
    match run s0 acts with
    | none => "model: run"
    | some s =>
      let worst := (List.range n).foldl (fun m i => max m (s.removeTrue.count i + s.log.count (.disconnected i))) 0
      s!"max-ends-per-endpoint={worst}"

def runNet (ws : List String) : String :=
  match ws with
  | ["race", _, n, th] => match n.toNat?, th.toNat? with
    | some n, some th => runNetRace n th
    | _, _ => "bad-case"
  | ["emfile", _] =>
    -- one connection accepted, then the kernel answers EMFILE to every further accept(): the loop makes
    -- one call, leaves, and the network thread is back at its look at the running flag
    let r := Mio.Accept.acceptLoop [.error, .error, .error, .error, .error, .error]
    s!"stopped_in_time={r.ended && r.consumed == 1} served={r.ended}"
  | "hist" :: toks => runNetHist toks
  | _ => "bad-case"

end Mio.Driver
