import Driver.Dec
import Driver.Rid
import Driver.Evq
import Driver.EvqConc
import Driver.StreamD
import Driver.NetD
import Driver.NodeD
import Driver.UdpD
/-! `mio-driver`: reads one case per line (`<model> <args…>`), prints what the model computes.
Imports model files only (no Mathlib, no lemma files), so it links as a native executable. -/
open Mio Mio.Driver

def dispatch (line : String) : String :=
  match line.trimAscii.toString.splitOn " " with
  | "dec" :: ws => runDec ws
  | "var" :: ws => runVar ws
  | "addr" :: ws => runAddr ws
  | "rid" :: ws => runRid ws
  | "vq" :: ws => runVq2 ws
  | "stream" :: ws => runStream ws
  | "net" :: ws => runNet ws
  | "node" :: ws => runNode ws
  | "udp" :: ws => runUdp ws
  | _ => "bad-case"

partial def loop (h : IO.FS.Stream) (out : IO.FS.Stream) : IO Unit := do
  let line ← h.getLine
  if line.isEmpty then return ()
  out.putStrLn (dispatch line)
  loop h out

def main : IO Unit := do
  let out ← IO.getStdout
  loop (← IO.getStdin) out
  out.flush
