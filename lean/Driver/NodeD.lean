import MioModel.Node
import MioModel.Handover
/-! Line-protocol handlers for M4 (`node serial|stop|early …`): the driver plays the scenario on the
model with a fair eager schedule (network thread, signal thread alternately) and reports what the
model's log says. -/
namespace Mio.Driver
open Mio.Node

def stepOr (s : St) (a : Act) : St := (step s a).getD s

/-- alternate the two threads for `fuel` rounds; `polls n` tells how many network events the n-th poll
returns, `sigs` how many signals are still to arrive; `hook` may stop the node after a callback -/
def playNode (fuel : Nat) (s : St) (netLeft sigLeft : Nat) (hook : St → Option Act) : St :=
  match fuel with
  | 0 => s
  | fuel + 1 =>
    -- network thread
    let pollNow := if s.pcN = .fetch ∧ s.pending = [] ∧ netLeft > 0 then 1 else 0
    let s1 := stepOr s (.net pollNow)
    let netLeft := netLeft - pollNow
    let s1 := match hook s1 with
      | some a => stepOr s1 a
      | none => s1
    -- signal thread
    let arrive := decide (s1.pcS = .fetch ∧ sigLeft > 0)
    let s2 := stepOr s1 (.sig arrive)
    let sigLeft := if arrive then sigLeft - 1 else sigLeft
    let s2 := match hook s2 with
      | some a => stepOr s2 a
      | none => s2
    if s2.pcN = .done ∧ (s2.pcS = .done ∨ s2.pcS = .notStarted) then s2
    else playNode fuel s2 netLeft sigLeft hook

def parseMode (m : String) : Mode := if m = "sync" then .sync else .async

def countNet (s : St) : Nat := (netLog s).length
def countSig (s : St) : Nat := s.log.length - (netLog s).length

/-- maximal number of threads simultaneously inside the callback along the eager run: the model
only ever has one -/
def runNodeSerial (m : String) : String :=
  let s0 := (stepOr (stepOr (init (parseMode m) 2) .start) .callerRelease)
  let s := playNode 400 s0 20 20 (fun _ => none)
  let both := inCallback s.pcN && inCallback s.pcS
  s!"overlaps={if both then 1 else 0}"

def runNodeStop (m scenario : String) (param : Nat) : String :=
  let mode := parseMode m
  let cached := if scenario = "before" ∨ scenario = "replay" then param else 0
  let s0 := init mode cached
  let s0 := if scenario = "before" then stepOr s0 .stopExt else s0
  let s0 := stepOr (stepOr s0 .start) .callerRelease
  -- the in-callback stop of the scenario, issued by the thread that is inside the callback
  let hook : St → Option Act := fun s =>
    if !s.running then none
    else if scenario = "innet" ∧ inCallback s.pcN ∧ countNet s = param + 1 then some (.stopIn .net)
    else if scenario = "replay" ∧ inCallback s.pcN ∧ countNet s = 2 then some (.stopIn .net)
    else if (scenario = "insig") ∧ inCallback s.pcS ∧ countSig s = param + 1 then some (.stopIn .sig)
    else if scenario = "contended" ∧ inCallback s.pcS ∧ countSig s = 1 then some (.stopIn .sig)
    else if scenario = "contnet" ∧ inCallback s.pcN ∧ countNet s = 1 then some (.stopIn .net)
    else if scenario = "external" ∧ s.log.length ≥ param + 1 then some .stopExt
    -- storm: timer commands only (no signal is ever delivered); stop() from outside at once
    else if scenario = "storm" then some .stopExt
    else none
  let s := playNode 600 s0 40 (if scenario = "storm" then 0 else 40) hook
  let after := match s.stopInCb with
    | some k => s.log.length - k
    | none => if s.stoppedBeforeStart then s.log.length else 0
  let returned := decide (s.pcN = .done ∧ (s.pcS = .done ∨ s.pcS = .notStarted))
  s!"after={after} returned={returned} running={s.running}"

def runNodeEarly (m : String) (cached live : Nat) : String :=
  let s0 := stepOr (stepOr (init (parseMode m) cached) .start) .callerRelease
  let s := playNode (40 * (cached + live) + 80) s0 live 5 (fun _ => none)
  let ok := decide (netLog s = List.range (cached + live))
  s!"order={if ok then "ok" else "broken"} delivered={(netLog s).length}"

/-- `node tcp <mode> <late>`: chunks of one Tcp stream, `late` of them (at least: the kernel may split
further) cached before the listener call; the model hands them over in production order -/
def runNodeTcp (m : String) (late : Nat) : String :=
  let cached := late + 1        -- the Connected event is cached as well
  let live := 12
  let s0 := stepOr (stepOr (init (parseMode m) cached) .start) .callerRelease
  let s := playNode (40 * (cached + live) + 80) s0 live 3 (fun _ => none)
  let ok := decide (netLog s = List.range (cached + live))
  s!"stream={if ok then "ok" else "broken"} chunks_in_bounds=true connected_first={decide ((netLog s).head? = some 0)}"

/-- the hand-over under steady traffic: one event occurs between any two steps of the caching thread; the
listener call comes after `before` of them; `join()` must be enabled while events keep arriving -/
def playHandover (fuel : Nat) (s : Handover.St) : Handover.St :=
  match fuel with
  | 0 => s
  | fuel + 1 =>
    let s := (Handover.step s .arrive).getD s
    match Handover.step s .join with
    | some s' => s'
    | none => playHandover fuel ((Handover.step s .cache).getD s)

def runNodeEarlyBusy (m : String) : String :=
  let pre := (List.range 50).foldl (fun s _ =>
    let s := (Handover.step s .arrive).getD s
    (Handover.step s .cache).getD s) ({} : Handover.St)
  let called := (Handover.step pre .call).getD pre
  let h := playHandover 8 called
  match h.taken with
  | none => "order=ok takeover=only-after-traffic"
  | some c =>
    let cached := c.length
    let live := 20
    let s0 := stepOr (stepOr (init (parseMode m) cached) .start) .callerRelease
    let s := playNode (40 * (cached + live) + 80) s0 live 0 (fun _ => none)
    let ok := decide (c = List.range cached ∧ netLog s = List.range (cached + live))
    s!"order={if ok then "ok" else "broken"} takeover=during-traffic"

def runNode (ws : List String) : String :=
  match ws with
  | ["tcp", m, late] => match late.toNat? with
    | some l => runNodeTcp m l
    | none => "bad-case"
  | ["serial", m, _] => runNodeSerial m
  | ["serialc", m] => runNodeSerial m   -- the same, with events cached before the listener call
  | ["serialsparse", m] => runNodeSerial m   -- the same schedule space; the harness picks sparse arrivals
  | ["serialmany", m, _] => runNodeSerial m   -- the same, for many turns (the model has no counters to wrap)
  | ["stop", m, sc, p] => match p.toNat? with
    | some p => runNodeStop m sc p
    | none => "bad-case"
  | ["earlygone", m] => runNodeEarly m 6 0   -- six cached events (two peers that came and went), nothing live
  | ["earlyburst", m, n] => match n.toNat? with
    -- Accepted, n numbered messages and six repetitive ones cached; ten messages and the Disconnected live
    | some n => if n ≤ 100000 then runNodeEarly m (n + 7) 11 else "bad-case"
    | none => "bad-case"
  | ["earlybusy", m, _] => runNodeEarlyBusy m
  | ["early", m, c, l] => match c.toNat?, l.toNat? with
    | some c, some l => runNodeEarly m c l
    | _, _ => "bad-case"
  | _ => "bad-case"

end Mio.Driver
