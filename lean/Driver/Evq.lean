import MioModel.EventQueue
/-! Line-protocol handler for M3, sequential histories (`vq seq …`): validates a recorded
single-threaded history against the model.  Times are logical (quarter ticks). -/
namespace Mio.Driver
open Mio.EvQ

structure SeqSt where
  q : Q Nat := {}
  keys : Array Key := #[]
  idx : Nat := 0

def splitAt1 (s : String) (c : Char) : String × String :=
  match s.splitOn (String.singleton c) with
  | [a] => (a, "")
  | a :: rest => (a, (String.singleton c).intercalate rest)
  | [] => ("", "")

def showRes : Option Nat → String
  | some n => toString n
  | none => "-"

/-- one token; returns `none` for a malformed token, `some (st, msg)` with msg = "" when the
recorded observation matches the model -/
def seqTok (st : SeqSt) (tok : String) : Option (SeqSt × String) :=
  let (lhs, obs) := splitAt1 tok '='
  let (op, tstr) := splitAt1 lhs '@'
  match tstr.toNat? with
  | none => none
  | some t =>
    let kind := op.take 1 |>.toString
    let arg := op.drop 1 |>.toString
    let st1 := { st with idx := st.idx + 1 }
    if kind = "s" then arg.toNat?.map fun id => ({ st1 with q := send st.q id }, "")
    else if kind = "p" then arg.toNat?.map fun id => ({ st1 with q := sendPrio st.q id }, "")
    else if kind = "t" then
      let (ids, durs) := splitAt1 arg ':'
      match ids.toNat?, durs.toNat? with
      | some id, some dur =>
        let (k, q') := sendTimer st.q t dur id
        some ({ st1 with q := q', keys := st.keys.push k }, "")
      | _, _ => none
    else if kind = "c" then
      match arg.toNat? with
      | some n => if h : n < st.keys.size then some ({ st1 with q := cancelTimer st.q st.keys[n] }, "") else none
      | none => none
    else if kind = "T" then
      let (r, q') := tryReceive t st.q
      let msg := if showRes r = obs then "" else s!"op#{st.idx} {tok}: model={showRes r}"
      some ({ st1 with q := q' }, msg)
    else if kind = "R" then
      match arg.toNat? with
      | none => none
      | some d =>
        let (r, tret, q') := receiveTimeout t d st.q
        let (ores, oret) := splitAt1 obs '/'
        match oret.toNat? with
        | none => none
        | some ort =>
          let msg :=
            if showRes r ≠ ores then s!"op#{st.idx} {tok}: model={showRes r}/{tret}"
            else if ort < tret then s!"op#{st.idx} {tok}: returned early, model={showRes r}/{tret}"
            else if ort > tret + 1 then s!"inconclusive-late op#{st.idx} {tok}: model={showRes r}/{tret}"
            else ""
          some ({ st1 with q := q' }, msg)
    else if kind = "B" then
      match receive t st.q with
      | none => some (st1, s!"op#{st.idx} {tok}: model=blocks-forever")
      | some (r, tret, q') =>
        let (ores, oret) := splitAt1 obs '/'
        match oret.toNat? with
        | none => none
        | some ort =>
          let msg :=
            if toString r ≠ ores then s!"op#{st.idx} {tok}: model={r}/{tret}"
            else if ort < tret then s!"op#{st.idx} {tok}: returned early, model={r}/{tret}"
            else if ort > tret + 1 then s!"inconclusive-late op#{st.idx} {tok}: model={r}/{tret}"
            else ""
          some ({ st1 with q := q' }, msg)
    else none

def runVqSeq (toks : List String) : String :=
  let rec go (st : SeqSt) (ts : List String) : String :=
    match ts with
    | [] => "ok"
    | tok :: rest =>
      match seqTok st tok with
      | none => "bad-case"
      | some (st', msg) => if msg = "" then go st' rest else msg
  go {} toks

def runVq (ws : List String) : String :=
  match ws with
  | "seq" :: toks => runVqSeq toks
  | _ => "bad-case"

end Mio.Driver
