import MioModel.EventQueueConc
import Driver.Evq
import Std.Data.HashSet
import Std.Data.HashMap
/-! Line-protocol handlers for the concurrent semantics of M3.

`vq conc <tokens>`: a two-thread history recorded on a logical time grid (sender calls, receiver
calls and the instants at which timers and timeouts fall are on pairwise distinct phases, so the
outcome is unique).  The driver plays the receiver *eagerly* (it reacts before the next grid
instant) through the small-step model — the schedule it builds is checked by `run`/`step`, i.e. it is
a legal execution of the model — and compares what each receive call returned and when.

`vq hist <tokens>`: a many-thread stress history; checked against the history predicate that the
theorems of C06/C08 establish for every model execution. -/
namespace Mio.Driver
open Mio.EvQ

def stepD (s : St Nat) (a : Act Nat) : St Nat := (step s a).getD s

/-- receiver micro-steps that need no time to pass -/
def eager : Nat → St Nat → St Nat
  | 0, s => s
  | fuel + 1, s =>
    match s.rx with
    | .idle => s
    | .started _ _ => eager fuel (stepD s .readClock)
    | .clockRead _ _ _ => eager fuel (stepD s .foldPick)
    | .blocked _ _ =>
      let try1 (src : Src) : Option (St Nat) := step s (.wake src)
      match try1 .cmd with
      | some s' => eager fuel s'
      | none =>
      match try1 .prio with
      | some s' => eager fuel s'
      | none =>
      match try1 .plain with
      | some s' => eager fuel s'
      | none =>
      match try1 .timer with
      | some s' => eager fuel s'
      | none =>
      match try1 .timeout with
      | some s' => eager fuel s'
      | none => s

/-- next instant at which a blocked receiver wakes by the passage of time alone -/
def nextWake (s : St Nat) : Option Nat :=
  match s.rx with
  | .blocked _ dl =>
    let t1 := match s.q.timers with | (k, _) :: _ => some k.deadline | [] => none
    match t1, dl with
    | some a, some b => some (min a b)
    | some a, none => some a
    | none, some b => some b
    | none, none => none
  | _ => none

def advanceTo : Nat → St Nat → Nat → St Nat
  | 0, s, _ => s
  | fuel + 1, s, t =>
    if s.now ≥ t then s
    else
      match nextWake s with
      | some w =>
        if w ≤ t ∧ w > s.now then advanceTo fuel (eager 64 (stepD s (.tick (w - s.now)))) t
        else if w ≤ s.now then
          let s' := eager 64 s
          if s'.rx == s.rx then stepD s (.tick (t - s.now)) else advanceTo fuel s' t
        else stepD s (.tick (t - s.now))
      | none => stepD s (.tick (t - s.now))

def showOut : Out Nat → String
  | .plain e => toString e
  | .prio e => toString e
  | .timer _ e => toString e
  | .none => "-"

structure ConcSt where
  s : St Nat := {}
  obs : Array (String × Nat) := #[]     -- observed (result, return time) of each receive call, in call order
  maxT : Nat := 0

def concTok (c : ConcSt) (tok : String) : Option ConcSt :=
  let (lhs, obs) := splitAt1 tok '='
  let (op, tstr) := splitAt1 lhs '@'
  match tstr.toNat? with
  | none => none
  | some t =>
    let kind := op.take 1 |>.toString
    let arg := op.drop 1 |>.toString
    let s := advanceTo 10000 c.s t
    let fin (s' : St Nat) : ConcSt := { c with s := eager 64 s', maxT := max c.maxT t }
    if kind = "s" then arg.toNat?.map fun id => fin (stepD s (.send id))
    else if kind = "p" then arg.toNat?.map fun id => fin (stepD s (.sendPrio id))
    else if kind = "t" then
      let (ids, durs) := splitAt1 arg ':'
      match ids.toNat?, durs.toNat? with
      | some id, some dur => some (fin (stepD s (.sendTimer dur id)))
      | _, _ => none
    else if kind = "c" then
      match arg.toNat? with
      | some n => match s.created[n]? with
        | some sc => some (fin (stepD s (.cancel sc.key)))
        | none => none
      | none => none
    else
      let (ores, oret) := splitAt1 obs '/'
      let call : Option (Kind × Nat × Nat) :=
        if kind = "T" then some (.tryRecv, 0, t)
        else if kind = "R" then match arg.toNat?, oret.toNat? with
          | some d, some r => some (.recvTimeout, d, r) | _, _ => none
        else if kind = "B" then oret.toNat?.map fun r => (.recv, 0, r)
        else none
      match call with
      | none => none
      | some (k, d, r) =>
        if s.rx != .idle then none     -- calls of one receiver never overlap
        else
          let c' := fin (stepD s (.call k d))
          some { c' with obs := c.obs.push (ores, r), maxT := max c'.maxT r }

def runVqConc (toks : List String) : String :=
  let rec go (c : ConcSt) (ts : List String) : Option ConcSt :=
    match ts with
    | [] => some c
    | tok :: rest => match concTok c tok with
      | none => none
      | some c' => go c' rest
  match go {} toks with
  | none => "bad-case"
  | some c =>
    let s := advanceTo 10000 c.s (c.maxT + 1)
    let outs := s.returned.toArray
    if outs.size != c.obs.size then
      s!"mismatch: model completed {outs.size} calls, implementation {c.obs.size}: model={outs.toList.map (fun o => (showOut o.1, o.2))}"
    else
      let rec cmp (i : Nat) (fuel : Nat) : String :=
        match fuel with
        | 0 => "ok"
        | fuel + 1 =>
          if h : i < outs.size then
            let (o, t) := outs[i]
            let (ores, ot) := c.obs[i]!
            if showOut o ≠ ores then s!"call#{i}: impl={ores}/{ot} model={showOut o}/{t}"
            else if ot < t then s!"call#{i}: returned early impl={ores}/{ot} model={showOut o}/{t}"
            else if ot > t + 1 then s!"inconclusive-late call#{i}: impl={ores}/{ot} model={showOut o}/{t}"
            else cmp (i + 1) fuel
          else "ok"
      cmp 0 (outs.size + 1)

/-! ### stress histories -/

/-- `P<s>:<id>,…` plain ids of sender s in send order; `Q<s>:…` priority; `W<s>:<id>/<sched>/<dur>/<cancelAt|->,…`
timers (times in µs: clock before the scheduling call, clock after the cancel call returned);
`O:<id>@<t>,…` everything the receiver returned, in order, with the clock after the return. -/
structure Hist where
  plain : List (List Nat) := []
  prio : List (List Nat) := []
  timers : List (Nat × Nat × Nat × Option Nat) := []   -- id, sched, dur, cancel time
  outs : List (Nat × Nat) := []

def parseNats (s : String) : Option (List Nat) :=
  if s = "" then some []
  else (s.splitOn ",").foldr (fun w acc => match w.toNat?, acc with
    | some n, some l => some (n :: l) | _, _ => none) (some [])

def parseHist0 (toks : List String) : Option Hist :=
  toks.foldl (fun acc tok => match acc with
    | none => none
    | some h =>
      let (tag, body) := splitAt1 tok ':'
      let kind := tag.take 1 |>.toString
      if kind = "P" then (parseNats body).map fun l => { h with plain := h.plain ++ [l] }
      else if kind = "Q" then (parseNats body).map fun l => { h with prio := h.prio ++ [l] }
      else if kind = "W" then
        if body = "" then some h else
        (body.splitOn ",").foldl (fun acc w => match acc with
          | none => none
          | some h => match w.splitOn "/" with
            | [a, b, c, d] => match a.toNat?, b.toNat?, c.toNat? with
              | some a, some b, some c => some { h with timers := (a, b, c, d.toNat?) :: h.timers }
              | _, _, _ => none
            | _ => none) (some h)
      else if kind = "O" then
        if body = "" then some h else
        (body.splitOn ",").foldl (fun acc w => match acc with
          | none => none
          | some h => match w.splitOn "@" with
            | [a, b] => match a.toNat?, b.toNat? with
              | some a, some b => some { h with outs := (a, b) :: h.outs }
              | _, _ => none
            | _ => none) (some h)
      else none) (some {})

def parseHist (toks : List String) : Option Hist :=
  (parseHist0 toks).map fun h => { h with timers := h.timers.reverse, outs := h.outs.reverse }

/-- the history predicate of a *drained* queue (all senders finished, receiver emptied it):
what C06 `conservation_channels` / `fifo_per_sender` / `timers_exactly_once` and C08 `never_early` /
`cancel_exact` say about every model execution, on the observable part of the state -/
def checkHist (h : Hist) : String :=
  let ids := h.outs.map (·.1)
  let bad1 := (h.plain ++ h.prio).find? (fun l =>
    let set : Std.HashSet Nat := Std.HashSet.ofList l
    ids.filter (fun x => set.contains x) != l)
  match bad1 with
  | some l => s!"per-sender FIFO/exactly-once broken for a sender whose first id is {l.head?}"
  | none =>
    let known : Std.HashSet Nat := Std.HashSet.ofList ((h.plain ++ h.prio).flatten ++ h.timers.map (·.1))
    match ids.find? (fun x => !known.contains x) with
    | some x => s!"invented event {x}"
    | none =>
      -- per timer id: how often it was returned and the earliest return time
      let seen : Std.HashMap Nat (Nat × Nat) := h.outs.foldl (fun m (x, t) =>
        match m.get? x with
        | some (n, t0) => m.insert x (n + 1, min t0 t)
        | none => m.insert x (1, t)) {}
      let badT := h.timers.find? (fun (id, sched, dur, canc) =>
        let (n, tmin) := (seen.get? id).getD (0, sched + dur)
        let early := n > 0 && tmin < sched + dur
        match canc with
        | none => n != 1 || early
        | some ct => (ct < sched + dur && n != 0) || n > 1 || early)
      match badT with
      | some (id, _, _, _) => s!"timer {id}: lost, duplicated, early, or delivered although cancelled before its deadline"
      | none => "ok"

def runVqHist (toks : List String) : String :=
  match parseHist toks with
  | none => "bad-case"
  | some h => checkHist h

/-- `vq sched <act> …`: an explicit schedule of model actions (used for interleavings the harness
forces through sync points); prints what the receive calls returned -/
def parseAct (s : St Nat) (tok : String) : Option (Act Nat) :=
  let num (p : String) : Option Nat := (tok.drop p.length).toString.toNat?
  if tok.startsWith "st" then
    let (d, id) := splitAt1 (tok.drop 2).toString ':'
    match d.toNat?, id.toNat? with
    | some d, some id => some (.sendTimer d id)
    | _, _ => none
  else if tok.startsWith "tick" then (num "tick").map .tick
  else if tok = "callT" then some (.call .tryRecv 0)
  else if tok = "callB" then some (.call .recv 0)
  else if tok.startsWith "callR" then (num "callR").map fun d => .call .recvTimeout d
  else if tok = "clk" then some .readClock
  else if tok = "fold" then some .foldPick
  else if tok.startsWith "cancel" then (num "cancel").bind fun n => (s.created[n]?).map fun c => .cancel c.key
  else if tok.startsWith "send" then (num "send").map .send
  else if tok.startsWith "prio" then (num "prio").map .sendPrio
  else if tok = "wakeplain" then some (.wake .plain)
  else if tok = "wakeprio" then some (.wake .prio)
  else if tok = "wakecmd" then some (.wake .cmd)
  else if tok = "waketimer" then some (.wake .timer)
  else if tok = "waketimeout" then some (.wake .timeout)
  else none

def runVqSched (toks : List String) : String :=
  let rec go (s : St Nat) (ts : List String) : Option (St Nat) :=
    match ts with
    | [] => some s
    | t :: rest => match parseAct s t with
      | none => none
      | some a => match step s a with
        | some s' => go s' rest
        | none => none
  match go {} toks with
  | none => "schedule-not-enabled"
  | some s => "[" ++ ",".intercalate (s.returned.map fun o => showOut o.1) ++ "]"

/-- `vq clones <pairs>`: two sender clones schedule `pairs` pairs of timers that fall on the same
instant (same duration, same clock reading); one of each fourth pair is cancelled through its own id.
The model is run on min(pairs, 12) pairs: keys must be pairwise distinct (`keys_unique`,
`same_instant_distinct`), a cancel removes exactly its own event (`cancel_isolated`), everything else is
returned exactly once. -/
def runVqClones (pairs : Nat) : String :=
  let n := min pairs 12
  let acts : List (Act Nat) := (List.range n).flatMap fun i => [.sendTimer 5 (2 * i), .sendTimer 5 (2 * i + 1)]
  match acts.foldlM (fun (s : St Nat) a => step s a) ({} : St Nat) with
  | none => "schedule-not-enabled"
  | some s =>
    let keys := s.created.map (·.key)
    let dupIds := keys.length - keys.eraseDups.length
    -- cancel the first timer of every fourth pair
    let cancels : List (Act Nat) := (List.range n).filterMap fun i =>
      if i % 4 = 0 then (s.created[2 * i]?).map (fun c => .cancel c.key) else none
    let drain : List (Act Nat) := [.tick 10] ++ (List.replicate (2 * n + 2) [.call .tryRecv 0, .readClock, .foldPick]).flatten
    match (cancels ++ drain).foldlM (fun (s : St Nat) a => step s a) s with
    | none => "schedule-not-enabled"
    | some s' =>
      let got : List Nat := s'.returned.filterMap fun o => match o.1 with
        | .timer _ e => some e
        | _ => none
      let expectCancelled := (List.range n).filter (· % 4 = 0) |>.map (2 * ·)
      let lost := ((List.range (2 * n)).filter fun e => !expectCancelled.contains e && !got.contains e).length
      let cross := (got.filter fun e => expectCancelled.contains e).length
      s!"dup_ids={dupIds} lost={lost} cross_cancel={cross}"

/-- `vq backlog <kind> <n>`: a long backlog of timer commands (n create/cancel pairs or n far timers)
between two receive calls; times in ms.  The model folds *all* queued commands on every receive. -/
def runVqBacklog (kind : String) (n : Nat) : String :=
  open Mio.EvQ in
  let far := 3600000
  let pairs (q : Q Nat) : Q Nat := (List.range n).foldl (fun q i =>
    let (k, q) := sendTimer q 0 far (1000 + i)
    cancelTimer q k) q
  let fars (q : Q Nat) : Q Nat := (List.range n).foldl (fun q i => (sendTimer q 0 far (1000 + i)).2) q
  let tries (now : Nat) (m : Nat) (q : Q Nat) : List String := ((List.range m).foldl (fun (acc : List String × Q Nat) _ =>
    let (r, q') := tryReceive now acc.2
    (acc.1 ++ [showRes r], q')) ([], q)).1
  let rts (now : Nat) (m : Nat) (q : Q Nat) : List String := ((List.range m).foldl (fun (acc : List String × Q Nat) _ =>
    let (r, _, q') := receiveTimeout now 0 acc.2
    (acc.1 ++ [showRes r], q')) ([], q)).1
  let q0 : Q Nat := {}
  let out : Option (List String) :=
    if kind = "A" then
      let q := (sendTimer q0 0 20 1).2
      let q := pairs q
      let q := (sendTimer q 0 1 2).2
      some (tries 60 3 q)
    else if kind = "B" then
      let q := pairs q0
      let q := (sendTimer q 0 1 2).2
      some (tries 30 2 q)
    else if kind = "C" then
      let q := pairs q0
      let q := (sendTimer q 0 1 2).2
      let q := send q 3
      some (tries 30 3 q)
    else if kind = "D" then
      let (k, q) := sendTimer q0 0 50 1
      let q := fars q
      let q := cancelTimer q k
      let (r1, q) := tryReceive 150 q
      let (r2, _, _) := receiveTimeout 150 100 q
      some [showRes r1, showRes r2]
    else if kind = "E" then
      let q := pairs q0
      let q := (sendTimer q 0 1 2).2
      let q := sendPrio q 4
      let q := send q 3
      some (rts 30 4 q)
    else none
  match out with
  | some l => "[" ++ ",".intercalate l ++ "]"
  | none => "bad-case"

def runVq2 (ws : List String) : String :=
  match ws with
  | ["backlog", k, n] => match n.toNat? with
    | some n => if n ≤ 100000 then runVqBacklog k n else "bad-case"
    | none => "bad-case"
  | ["farfuture"] =>
    -- a timer whose deadline is beyond anything the clock reaches is never expired (`never_early`): with a
    -- 3-unit timer and a plain event next to it, three calls return exactly those two
    let run (s : St Nat) (acts : List (Act Nat)) : Option (St Nat) := acts.foldlM (fun (s : St Nat) a => step s a) s
    match run ({} : St Nat) [.sendTimer (2 ^ 64) 1000, .sendTimer 3 7, .send 5,
        .call .recvTimeout 10, .readClock, .foldPick, .wake .plain,
        .call .recvTimeout 10, .readClock, .foldPick, .tick 3, .wake .timer, .readClock, .foldPick,
        .call .recvTimeout 10, .readClock, .foldPick, .tick 10, .wake .timeout] with
    | some s' =>
      let far := (s'.returned.filter fun (o : Out Nat × Nat) => (match o.1 with | Out.timer _ e => e == 1000 | _ => false)).length
      s!"early={far}"
    | none => "model: schedule not enabled"
  | ["latecancel", r] =>
    -- a timer of 10 units cancelled at time 9 (one unit before its deadline), then a receive that lasts well
    -- beyond it: whether the cancel is folded by ready_event or by a wake-up, the timer is never returned
    match r.toNat? with
    | some r =>
      if r = 0 ∨ r > 100000 then "bad-case"
      else
        let run (s : St Nat) (acts : List (Act Nat)) : Option (St Nat) := acts.foldlM (fun (s : St Nat) a => step s a) s
        match run ({} : St Nat) [.sendTimer 10 1, .tick 9] with
        | some s =>
          match s.created[0]? with
          | some c =>
            let a := run s [.cancel c.key, .call .recvTimeout 12, .readClock, .foldPick, .tick 12, .wake .timeout]
            let b := run s [.call .recvTimeout 12, .readClock, .foldPick, .cancel c.key, .wake .cmd, .readClock, .foldPick, .tick 12, .wake .timeout]
            let timers (x : Option (St Nat)) : Nat := match x with
              | some s' => (s'.returned.filter fun (o : Out Nat × Nat) => (match o.1 with | Out.timer _ _ => true | _ => false)).length
              | none => 1000
            s!"delivered={timers a + timers b}"
          | none => "model: no timer"
        | none => "model: schedule not enabled"
    | none => "bad-case"
  | ["deadlinerace", r] =>
    -- a timer (5 units) pending, receive_timeout(6 units), and a receiver that wakes up only at time 9, after
    -- both instants: the timeout is not enabled while the expiry is ready (crossbeam tries the operations
    -- first), the expiry wake-up leads back to ready_event, which returns the timer (`timeout_none_sound`)
    match r.toNat? with
    | some r =>
      if r = 0 ∨ r > 100000 then "bad-case"
      else
        let run (s : St Nat) (acts : List (Act Nat)) : Option (St Nat) := acts.foldlM (fun (s : St Nat) a => step s a) s
        match run ({} : St Nat) [.sendTimer 5 1, .call .recvTimeout 6, .readClock, .foldPick, .tick 9] with
        | some s =>
          let timeoutEnabled := (step s (.wake .timeout)).isSome
          match run s [.wake .timer, .readClock, .foldPick] with
          | some s' =>
            let nones := (s'.returned.filter fun (o : Out Nat × Nat) => (match o.1 with | Out.none => true | _ => false)).length
            s!"late_none={nones + (if timeoutEnabled then 1 else 0)}"
          | none => "model: schedule not enabled"
        | none => "model: schedule not enabled"
    | none => "bad-case"
  | ["expirerace", r] =>
    -- a timer (1 unit) pending, receive_timeout(6 units): whether the cancel is folded before or after the
    -- expiry test, the model never answers none before time 6 (`timeout_none_sound`)
    match r.toNat? with
    | some r =>
      if r = 0 ∨ r > 100000 then "bad-case"
      else
        let run (acts : List (Act Nat)) : Option (St Nat) := acts.foldlM (fun (s : St Nat) a => step s a) ({} : St Nat)
        -- schedule A: the cancel is folded with the expiry wake-up; schedule B: the timer is returned first
        let a := run [.sendTimer 1 1, .call .recvTimeout 6, .readClock, .foldPick, .tick 1]
        let early := match a with
          | some s =>
            match s.created[0]? with
            | some c =>
              match [Act.cancel c.key, .wake .timer, .readClock, .foldPick].foldlM (fun (s : St Nat) x => step s x) s with
              | some s' => (s'.returned.filter fun (o : Out Nat × Nat) => (match o.1 with | Out.none => true | _ => false) && o.2 < 6).length
              | none => 0
            | none => 0
          | none => 0
        s!"early_none={early}"
    | none => "bad-case"
  | ["early", r] =>
    -- timers of several durations; in the model (logical time, 1 unit = 1 us) a receive whose clock
    -- reading is before the deadline does not return the timer, one at the deadline does
    match r.toNat? with
    | some r =>
      if r = 0 ∨ r > 100000 then "bad-case"
      else
        open Mio.EvQ in
        let durs := [900, 500, 750, 7000, 12000, 3000, 1500, 250]
        let early := (durs.filter fun d =>
          let q : Q Nat := (sendTimer {} 0 d 1).2
          let before := (tryReceive (d - 1) q).1
          let atDl := (tryReceive d q).1
          !(before == none && atDl == some 1)).length
        s!"early={early}"
    | none => "bad-case"
  | ["collide", t, r] =>
    -- several threads call `send_with_timer` at the same instant: in the model the clock read, the
    -- sequence number and the enqueue of one call are one atomic step (`fetch_add`), so this is the
    -- clones case with more senders
    match t.toNat?, r.toNat? with
    | some t, some r =>
      if t < 2 ∨ t > 64 ∨ r = 0 ∨ r > 1000000 then "bad-case"
      else
        let out := runVqClones (t * 2)
        if out = "dup_ids=0 lost=0 cross_cancel=0" then "dup_ids=0 lost=0" else out
    | _, _ => "bad-case"
  | ["clones", p] => match p.toNat? with
    | some p => runVqClones p
    | none => "bad-case"
  | "seq" :: toks => runVqSeq toks
  | "conc" :: toks => runVqConc toks
  | "hist" :: toks => runVqHist toks
  | "sched" :: toks => runVqSched toks
  | _ => "bad-case"

end Mio.Driver
