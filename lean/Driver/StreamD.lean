import MioModel.Stream
import Driver.Dec
/-! Line-protocol handlers for M2 (`stream e2e …`, `stream mt …`). -/
namespace Mio.Driver
open Mio Mio.Stream Mio.Generated

def bigN : Nat := 2 ^ 62

/-- cut `bs` at the given (sorted) positions -/
def cutAt (bs : Bytes) (cuts : List Nat) : List Bytes :=
  let rec go (bs : Bytes) (off : Nat) (cuts : List Nat) : List Bytes :=
    match cuts with
    | [] => [bs]
    | c :: cs => if c ≤ off then go bs off cs else bs.take (c - off) :: go (bs.drop (c - off)) c cs
  go bs 0 cuts

/-- a read schedule that drains `n` bytes with a buffer of `cap`, with an `Interrupted` thrown in -/
def drainSched (n cap : Nat) : List RAns :=
  .interrupted :: (List.replicate ((n + cap - 1) / cap) (.take cap)) ++ [.wouldBlock]

def runStreamE2E (t : String) (cutsS : String) (ms : List Bytes) : String :=
  let cuts : List Nat := if cutsS = "-" then [] else (cutsS.splitOn ",").filterMap (·.toNat?)
  if t = "F" || t = "f" then
    -- every message through the send loop with partial writes and a WouldBlock
    let sends := ms.map fun m => framedSend m [.accept 1, .wouldBlock, .accept 2, .accept bigN, .accept bigN, .accept bigN]
    if sends.any (fun r => r.status != some .sent) then "model: send loop did not finish"
    else
      let wire := (sends.map (·.wire)).flatten
      if t = "f" then s!"wire {showPayload wire}"
      else
        let evs : List PollEv := (cutAt wire cuts).map fun ch =>
          { arrived := ch, sched := drainSched ch.length tcpInputBufferSize }
        let f := session tcpInputBufferSize (fun st ch => decode st ch) { st := [] } evs
        if f.panicked then "model: panic" else
        if f.rx != [] || f.st != [] then s!"model: left rx={f.rx.length} stored={f.st.length} outs={showOuts f.outs}"
        else showOuts f.outs
  else if t = "T" then
    let sends := ms.map fun m => tcpSend m [.accept 1, .wouldBlock, .accept bigN, .accept bigN]
    if sends.any (fun r => r.status != some .sent ∧ r.wire != []) then "model: send loop did not finish"
    else
      let wire := (sends.map (·.wire)).flatten
      let evs : List PollEv := (cutAt wire cuts).map fun ch =>
        { arrived := ch, sched := drainSched ch.length tcpInputBufferSize }
      let f := session tcpInputBufferSize (fun (_ : Unit) ch => some ((), [ch])) { st := () } evs
      let bounds := f.outs.all fun o => 1 ≤ o.length ∧ o.length ≤ tcpInputBufferSize
      s!"{showPayload f.outs.flatten} bounds={bounds}"
  else "bad-case"

/-- W: `none` = a control message (Ping / Pong / Text) written by an independent peer -/
def runStreamWs (ms : List (Option Bytes)) : String :=
  let sent : List WsMsg := ms.flatMap fun m => match m with
    | some b => ((wsSend b true).2).map some
    | none => [none]
  let r := wsReceive { sock := sent, buf := [] } [.fill sent.length, .wouldBlock] (sent.length + 3)
  if r.status != some .waitNextEvent && sent != [] then "model: loop did not end with WaitNextEvent"
  else showOuts r.outs

/-- arrival order of concurrent senders: per thread strictly increasing and (unless UDP) complete -/
def runStreamMt (t : String) (threads per : Nat) (toks : List String) : String :=
  let parsed := toks.filterMap fun w => match w.splitOn "." with
    | [a, b] => match a.toNat?, b.toNat? with
      | some a, some b => some (a, b)
      | _, _ => none
    | _ => none
  if parsed.length != toks.length then "bad-case"
  else
    let bad := (List.range threads).find? fun th =>
      let seqs := (parsed.filter (·.1 == th)).map (·.2)
      let incr := (seqs.zip seqs.tail).all fun (a, b) => a < b
      !(incr && (seqs.length == per || (t == "U" && seqs.length ≤ per)) && seqs.all (· < per))
    match bad with
    | some th => s!"thread {th}: messages lost, duplicated or reordered"
    | none => if parsed.any (·.1 ≥ threads) then "unknown thread" else "ok"

/-- `stream size <T> <dir> <len>`: status of a send of `len` bytes on an established connection, whether it is
delivered, and whether the connection is usable afterwards (always) -/
def runStreamSize (t : String) (len : Nat) : String :=
  let max : Nat := ((transports.find? (fun r => r.name = (if t = "W" then "Ws" else if t = "U" then "Udp" else if t = "F" then "FramedTcp" else "Tcp"))).map (·.maxMessageSize)).getD 0
  let status : Mio.Stream.SendStatus :=
    if t = "W" then (wsSend (List.replicate (min len (wsMaxPayloadLen + 1)) 0) true).1
    else if t = "U" then (if len > udpMaxLocalPayloadLen then .maxPacketSizeExceeded else .sent)
    else .sent
  let st := match status with
    | .sent => "Sent" | .maxPacketSizeExceeded => "MaxPacketSizeExceeded"
    | .resourceNotFound => "ResourceNotFound" | .resourceNotAvailable => "ResourceNotAvailable"
  let delivered := decide (status = .sent)
  -- the declared maximum and the adapter's own limit must agree (C13 `declared_maxima`)
  if (decide (len ≤ max)) != delivered then s!"model: declared max {max} disagrees with the adapter limit for len {len}"
  else s!"status={st} delivered={delivered} after=ok"

/-- `stream duplex <T> <big>`: three small messages travel against a big one on the same connection; the
two directions are independent in the model (separate sockets' worth of answers), and a reader that finds
the connection's state locked by a sender waits — the lock only delays its loop.  What the reader's loop
delivers from the three messages waiting in its socket: -/
def runStreamDuplex (t : String) (stall : Nat) : String :=
  let small : List Bytes := [[0, 0], [0, 1], [0, 2]]
  let backOk : Bool :=
    if t = "W" then
      let sent : List WsMsg := small.flatMap fun b => ((wsSend b true).2).map some
      let r := wsReceive { sock := sent, buf := [] } [.fill sent.length, .wouldBlock] (sent.length + 3)
      r.outs == small && r.status == some .waitNextEvent
    else if t = "F" then
      let wire := (small.map fun m => (framedSend m [.accept bigN, .accept bigN]).wire).flatten
      let f := session tcpInputBufferSize (fun st ch => decode st ch) { st := [] }
        [{ arrived := wire, sched := drainSched wire.length tcpInputBufferSize }]
      f.outs == small && !f.panicked
    else
      let wire := small.flatten
      let f := session tcpInputBufferSize (fun (_ : Unit) ch => some ((), [ch])) { st := () }
        [{ arrived := wire, sched := drainSched wire.length tcpInputBufferSize }]
      f.outs.flatten == wire
  -- the reader's loop does not wait for anything the stalled send holds (no lock is shared between the
  -- directions of Tcp / FramedTcp; registering another resource takes the registry lock only briefly)
  let timely := if t != "W" && stall ≥ 2500 then "true" else "n/a"
  s!"back={if backOk then "complete" else "incomplete"} forward=complete timely={timely}"

def runStream (ws : List String) : String :=
  match ws with
  | ["earlyws"] =>
    -- four messages already buffered inside the codec when the connection becomes ready (they arrived with the
    -- handshake answer): the receive loop that follows the handshake in the same readiness event returns them
    let ms : List Bytes := [List.replicate 5 1, [], List.replicate 5 2, List.replicate 128 3]
    let r := wsReceive { sock := [], buf := ms.map some } [.wouldBlock] (ms.length + 3)
    s!"delivered={r.outs.length}/{ms.length}"
  | ["slowreader", t, "boundary"] =>
    -- a message whose frame fills the read buffer exactly, a 10-byte one behind it, both queued at once
    let big : Bytes := (List.range (if t = "F" then 65532 else 65535)).map fun i => ((i * 7) % 256).toUInt8
    let ms : List Bytes := [[1], big, List.replicate 10 9]
    let r := if t = "F" then runStreamE2E "F" "1" ms else runStreamE2E "T" "1" ms
    if r.startsWith "model:" then r else "delivered=all"
  | ["slowreader", t] =>
    -- one byte, then three 64 KiB pieces already queued when the second readiness event is processed: the
    -- receive loop reads until WouldBlock whatever the callback's duration (time is not in the model)
    let tail : List Bytes := (List.range 3).map fun k => (List.range 65536).map fun i => ((i * 7 + k * 13) % 256).toUInt8
    let ms : List Bytes := [[1]] ++ tail
    let r := if t = "F" then runStreamE2E "F" "1" ms else runStreamE2E "T" "1" ms
    if r.startsWith "model:" then r else "delivered=all"
  | ["badka", t, _] =>
    -- a keepalive setting the OS rejects changes nothing in the model: `pending` answers Ready and the
    -- connection is the same abstract socket; five messages (sizes 0, 127, 128, 16384, 5) through the send
    -- loop and the receive loop
    let ms : List Bytes := [0, 127, 128, 16384, 5].map fun n => List.replicate n 7
    let r := if t = "F" then runStreamE2E "F" "-" ms else runStreamE2E "T" "-" (ms.filter (· ≠ []))
    if r.startsWith "model:" then r else "delivered=all"
  | ["duplex", t, _, stall] => match stall.toNat? with
    | some st => runStreamDuplex t st
    | none => "bad-case"
  | ["size", t, _, len] => match len.toNat? with
    | some n => runStreamSize t n
    | none => "bad-case"
  | "e2e" :: "W" :: _ :: msgs =>
    let parsed : List (Option (Option Bytes)) := msgs.map fun m => if m = "ctl" then some none else (parseChunk m).map some
    if parsed.all (·.isSome) then runStreamWs (parsed.filterMap id) else "bad-case"
  | "e2e" :: t :: cuts :: msgs =>
    match parseChunks msgs with
    | some ms => runStreamE2E t cuts ms
    | none => "bad-case"
  | "mtslow" :: _ :: counts :: toks =>
    -- a stalled receiver: per thread the expected number of messages is given; each thread's messages must
    -- arrive complete and in its order (the send lock is held for the whole frame, whatever its duration)
    let cs := (counts.splitOn ",").filterMap (·.toNat?)
    let parsed := toks.filterMap fun w => match w.splitOn "." with
      | [a, b] => match a.toNat?, b.toNat? with
        | some a, some b => some (a, b)
        | _, _ => none
      | _ => none
    if parsed.length != toks.length then "bad-case"
    else
      let bad := (List.range cs.length).find? fun th =>
        let seqs := (parsed.filter (·.1 == th)).map (·.2)
        let incr := (seqs.zip seqs.tail).all fun (a, b) => a < b
        !(incr && seqs.length == cs.getD th 0)
      match bad with
      | some th => s!"thread {th}: messages lost, duplicated or reordered"
      | none => if parsed.any (·.1 ≥ cs.length) then "unknown thread" else "ok"
  | "mt" :: t :: th :: per :: toks =>
    match th.toNat?, per.toNat? with
    | some th, some per => runStreamMt t th per toks
    | _, _ => "bad-case"
  | _ => "bad-case"

end Mio.Driver
