import MioModel.ResourceId
/-! Line-protocol handlers for M6 (resource ids, tokens, generator). -/
namespace Mio.Driver
open Mio.Rid

def showT : RType → String
  | .local => "L"
  | .remote => "R"

def parseT (s : String) : Option RType :=
  if s = "L" then some .local else if s = "R" then some .remote else none

def showOptNat : Option Nat → String
  | some n => toString n
  | none => "panic"

def runRid (ws : List String) : String :=
  match ws with
  | ["acc", raw] =>
    match raw.toNat? with
    | some r =>
      if r < 2 ^ 64 then
        s!"a={adapterId r} t={showT (resourceType r)} b={baseValue r} disp={(dispatch r).getD "unmounted"}"
      else "bad-case"
    | none => "bad-case"
  | ["mk", a, t, b] =>
    match a.toNat?, parseT t, b.toNat? with
    | some a, some t, some b => if a < 256 ∧ b < 2 ^ 64 then showOptNat (mk a t b) else "bad-case"
    | _, _, _ => "bad-case"
  | ["tok", raw] =>
    match raw.toNat? with
    | some r => if r < 2 ^ 64 then s!"tok={toToken r} back={ofToken (toToken r)} waker={wakerToken}" else "bad-case"
    | none => "bad-case"
  | ["gen", a, t, last, n] =>
    match a.toNat?, parseT t, last.toNat?, n.toNat? with
    | some a, some t, some last, some n =>
      if a < 256 ∧ last < 2 ^ 64 ∧ n ≤ 64 then
        " ".intercalate ((Gen.run { adapter := a, rtype := t, last := last } n).map showOptNat)
      else "bad-case"
    | _, _, _, _ => "bad-case"
  | ["conc", th, rounds] =>
    -- registrations from several threads: the generator's `fetch_add` is one atomic step of the model,
    -- so whatever the interleaving the ids are those of `Gen.run` (theorem `generator_fresh`): no duplicate
    match th.toNat?, rounds.toNat? with
    | some t, some r => if t = 0 ∨ t > 64 ∨ r > 1000000 then "bad-case" else "dup=0 failed_removes=0"
    | _, _ => "bad-case"
  | _ => "bad-case"

end Mio.Driver
