import MioModel.Udp
/-! Line-protocol handlers for M8 (`udp e2e <ops…>`, `udp fl <Transport>-<local|remote>`); grammar in
`harness/src/bin/udp.rs`. -/
namespace Mio.Driver
open Mio.Udp

def udpPayload (n seed : Nat) : Bytes :=
  (List.range n).map (fun k => UInt8.ofNat ((seed + 7 * k + k / 256) % 256))

structure USt where
  w : World := {}
  sts : List String := []     -- newest first
  snaps : List (List Nat) := []   -- after each `w`: number of events reported per socket (newest first)

def stStr : Status → String
  | .sent => "S"
  | .maxPacketSizeExceeded => "M"
  | .resourceNotFound => "NF"

/-- `<i>[><j>]:<n>:<seed>` -/
def parseSend (s : String) : Option (Nat × Option Nat × Nat × Nat) :=
  match s.splitOn ":" with
  | [who, n, seed] =>
    match n.toNat?, seed.toNat? with
    | some n, some seed =>
      match who.splitOn ">" with
      | [i] => i.toNat?.map (fun i => (i, none, n, seed))
      | [i, j] => match i.toNat?, j.toNat? with
        | some i, some j => some (i, some j, n, seed)
        | _, _ => none
      | _ => none
    | _, _ => none
  | _ => none

def pollAll (w : World) : World := (List.range w.socks.length).foldl poll w

def lastEpFrom (w : World) (i j : Nat) : Option Endpoint :=
  match w.socks[i]? with
  | some s => (s.events.reverse.find? (fun e => e.ep.addr == j)).map (·.ep)
  | none => none

def udpOp (u : USt) (op : String) : Option USt :=
  let kind := op.take 1 |>.toString
  let rest := op.drop 1 |>.toString
  match kind with
  | "L" => if rest = "" then some { u with w := step u.w .openListener } else none
  -- a listener with receive_broadcasts: another receive path in the adapter, the same contract
  | "B" => if rest = "" then some { u with w := step u.w .openListener } else none
  | "R" => if rest = "" then some { u with w := step u.w .openRaw } else none
  | "Q" => if rest = "" then some { u with w := step u.w .openRaw } else none   -- a raw peer on 127.0.0.2
  | "C" | "c" =>   -- `c`: the harness does not poll before the next `w`
    match rest.toNat? with
    | some j => if j < u.w.socks.length then some { u with w := step u.w (.openConnected j) } else none
    | none => none
  | "s" =>
    match parseSend rest with
    | some (i, none, n, seed) =>
      match u.w.socks[i]? with
      | some s =>
        match s.kind with
        | .connected p =>
          let r := send u.w ⟨i, p⟩ (udpPayload n seed)
          some { u with w := r.1, sts := stStr r.2 :: u.sts }
        | _ => none
      | none => none
    | _ => none
  | "f" | "r" =>
    match parseSend rest with
    | some (i, some j, n, seed) =>
      if j < u.w.socks.length then
        match fromListener u.w i j with
        | some built =>
          let ep? := if kind = "f" then some built else lastEpFrom u.w i j
          match ep? with
          | some ep =>
            let r := send u.w ep (udpPayload n seed)
            some { u with w := r.1, sts := stStr r.2 :: u.sts }
          | none => none
        | none => none
      else none
    | _ => none
  | "y" =>
    -- a datagram to an address where no socket is bound (the harness uses another local address with the
    -- port of socket j): nothing is queued anywhere
    match parseSend rest with
    | some (i, some j, n, seed) =>
      if j < u.w.socks.length ∧ n ≤ 1000 ∧ u.w.kmax = kMax4 then
        match u.w.socks[i]? with
        | some s =>
          if s.kind = .raw ∧ s.alive then
            some { u with w := rawSend u.w i (1000000 + j) (udpPayload n seed), sts := "S" :: u.sts }
          else none
        | none => none
      else none
    | _ => none
  | "x" =>
    match parseSend rest with
    | some (i, some j, n, seed) =>
      if j < u.w.socks.length then
        match u.w.socks[i]? with
        | some s =>
          if s.kind = .raw ∧ s.alive then
            let w' := rawSend u.w i j (udpPayload n seed)
            let st := match w'.log.getLast? with
              | some r => stStr r.status
              | none => "?"
            some { u with w := w', sts := st :: u.sts }
          else none
        | none => none
      else none
    | _ => none
  | "w" =>
    if rest = "" then
      let w' := pollAll u.w
      some { u with w := w', snaps := (w'.socks.map (·.events.length)) :: u.snaps }
    else none
  | "k" =>   -- a raw peer goes away (its address stays reserved)
    match rest.toNat?, rest.toNat?.bind (fun j => u.w.socks[j]?) with
    | some j, some s => if s.kind = .raw ∧ s.alive then some { u with w := step u.w (.close j) } else none
    | _, _ => none
  | "o" =>   -- … and comes back on the same address
    match rest.toNat?, rest.toNat?.bind (fun j => u.w.socks[j]?) with
    | some j, some s => if s.kind = .raw ∧ !s.alive then some { u with w := step u.w (.reopen j) } else none
    | _, _ => none
  | _ => none

def udpRun (ops : List String) : Option USt :=
  -- a leading `v6` puts every socket of the world on IPv6 loopback
  let (w0, ops) : World × List String := match ops with
    | "v6" :: rest => (init true, rest)
    | _ => (init false, ops)
  ops.foldl (fun acc op => match acc with
    | some u => if op = "" then none else udpOp u op
    | none => none) (some { w := w0 })

/-- the pump (1-based) by which event number `idx` of socket `r` had been reported -/
def pumpOf (snaps : List (List Nat)) (r idx : Nat) : Nat :=
  match snaps.findIdx? (fun sn => sn.getD r 0 > idx) with
  | some k => k + 1
  | none => snaps.length + 1

def showGroups (w : World) (snaps : List (List Nat)) : List String :=
  (List.range w.socks.length).flatMap (fun r =>
    match w.socks[r]? with
    | none => []
    | some s =>
      let indexed := (List.range s.events.length).zip s.events
      (List.range w.socks.length).filterMap (fun src =>
        let evs := indexed.filter (fun e => e.2.ep.addr == src)
        if evs.isEmpty then none
        else some s!"{r}<{src}:[{",".intercalate (evs.map (fun e => s!"{showPayload e.2.data}@{pumpOf snaps r e.1}"))}]"))

def runUdp (ws : List String) : String :=
  match ws with
  | "e2e" :: ops =>
    match udpRun ops with
    | none => "bad-case"
    | some u =>
      let w := pollAll u.w
      let snaps := ((w.socks.map (·.events.length)) :: u.snaps).reverse
      s!"st=[{",".intercalate u.sts.reverse}] {" ".intercalate (showGroups w snaps)}"
  | ["linklocal"] =>
    -- two listeners of an IPv6 world; ping 1 -> 0, the reply through the reported endpoint 0 -> 1
    match udpRun ["v6", "L", "L", "f1>0:4:1", "w", "r0>1:4:2", "w"] with
    | none => "model: ops rejected"
    | some u =>
      let w := pollAll u.w
      let at0 := (w.socks[0]?.map (·.events.length)).getD 0
      let at1 := (w.socks[1]?.map (·.events.length)).getD 0
      s!"ping={at0} pong={at1}"
  | ["mcast"] =>
    -- two listeners; the group address and the unicast address of socket 0 are one socket in the model: a
    -- probe 1 -> 0, the reply 0 -> 1 through the reported endpoint, then eight sizes 1 -> 0
    let sizes := [0, 1, 2, 100, 1472, 1473, 9000, 65507]
    let ops := ["L", "L", "f1>0:5:1", "w", "r0>1:5:2", "w"] ++ (sizes.zipIdx.map fun (n, k) => s!"f1>0:{n}:{50 + k}") ++ ["w"]
    match udpRun ops with
    | none => "model: ops rejected"
    | some u =>
      let w := pollAll u.w
      let at0 := (w.socks[0]?.map (·.events.length)).getD 0
      let at1 := (w.socks[1]?.map (·.events.length)).getD 0
      s!"probe={min at0 1} reply={at1} unicast={at0 - 1}/{sizes.length}"
  | ["fl", k] =>
    match k.splitOn "-" with
    | [t, side] =>
      match Mio.Generated.transports.find? (fun r => r.name = t) with
      | some row =>
        if side = "local" ∨ side = "remote" then
          if fromListenerGuard (side = "local") row.connectionOriented then "some" else "none"
        else "bad-case"
      | none => "bad-case"
    | _ => "bad-case"
  | _ => "bad-case"

end Mio.Driver
