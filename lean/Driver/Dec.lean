import MioModel.Decoder
import MioModel.RemoteAddr
/-! Line-protocol handlers for M1 (varint, decoder) and M7 (remote address). -/
namespace Mio.Driver
open Mio

def parseChunks (ws : List String) : Option (List Bytes) :=
  ws.foldr (fun w acc => match parseChunk w, acc with
    | some c, some cs => some (c :: cs)
    | _, _ => none) (some [])

def showOuts (outs : List Bytes) : String :=
  "[" ++ ",".intercalate (outs.map showPayload) ++ "]"

/-- `dec <chunk> <chunk> …` : one `decode` call per chunk on a fresh decoder -/
def runDec (ws : List String) : String :=
  match parseChunks ws with
  | none => "bad-case"
  | some chunks =>
    let rec go (st : Bytes) (cs : List Bytes) (acc : List String) : String :=
      match cs with
      | [] => "ok " ++ "|".intercalate acc.reverse
      | c :: cs =>
        match decode st c with
        | none => "panic " ++ "|".intercalate acc.reverse
        | some (st', outs) => go st' cs (s!"{showOuts outs}s={st'.length}" :: acc)
    go [] chunks []

/-- `var enc <n>` / `var dec <chunk>` / `var frame <chunk>` -/
def runVar (ws : List String) : String :=
  match ws with
  | ["enc", n] =>
    match n.toNat? with
    | some k => if k < 2 ^ 64 then toHex (encodeVar k) else "bad-case"
    | none => "bad-case"
  | ["dec", c] =>
    match parseChunk c with
    | some bs => match decodeVar bs with
      | some (v, u) => s!"some {v} {u}"
      | none => "none"
    | none => "bad-case"
  | _ => "bad-case"

/-- `addr <hex utf8 of the input string> <S:hex display of parsed addr | N>` -/
def runAddr (ws : List String) : String :=
  match ws with
  | [sHex, oracle] =>
    match parseHex sHex with
    | none => "bad-case"
    | some sBytes =>
      let parsed : Option String :=
        if oracle.startsWith "S:" then some (oracle.drop 2).toString else none
      if oracle != "N" && parsed.isNone then "bad-case" else
      let r : RemoteAddr String := RemoteAddr.ofStr (fun _ => parsed) (toHex sBytes)
      let sa := match r.socketAddr with | some a => a | none => "panic"
      let st := match r.string with | some a => a | none => "panic"
      let tsa := match r.toSocketAddrs with | some a => a | none => "err"
      s!"sock={r.isSocketAddr} str={r.isString} socket_addr={sa} string={st} to_socket_addrs={tsa} display={r.display id}"
  | _ => "bad-case"

end Mio.Driver
