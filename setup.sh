#!/bin/sh
# MANIFEST.setup_cmd: build the framework from files on disk only (offline).
set -e
cd "$(dirname "$0")"
export CARGO_NET_OFFLINE=true
cp -n /repo/Cargo.lock harness/Cargo.lock 2>/dev/null || true
(cd harness && cargo build --offline --profile checked --bins)
harness/target/checked/consts > /dev/null
(cd lean && lake build MioModel Driver mio-driver)
echo setup-ok
