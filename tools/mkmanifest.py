#!/usr/bin/env python3
"""Regenerates /verif/MANIFEST.json from the table below (kept in one place so it stays valid)."""
import json, os, subprocess
V = os.path.dirname(os.path.dirname(os.path.abspath(__file__)))
ALL = ["C%02d" % i for i in range(1, 20)]

CLAIMED = {
 "C01": dict(
   text="Lean 4 theorems over an executable model of the FramedTcp send loop (prefix/payload switch), the shared receive "
        "loop and the decoder, and of the WebSocket adapter loop around an ideal read-ahead codec: Sent implies exactly "
        "one canonical frame on the wire for every partial-write/WouldBlock pattern; WaitNextEvent implies nothing "
        "readable (socket or codec buffer) is left; end to end over any number of poll events, any segmentation and any "
        "legal read schedule the callbacks are exactly the sent payloads in order (uses C02's chunking theorem). Tie: "
        "real loopback runs (node/raw/tungstenite peers, both directions, boundary sizes, bursts, adversarial write "
        "boundaries) followed by silence, compared with the model's prediction.",
   ref="DESIGN.md §8 C01, §7 M2",
   note="Lean kernel + standard axioms; kernel TCP, epoll edge semantics and tungstenite are assumptions; 'bounded time' is monitored with a 4 s deadline, not proved",
   technique="Lean 4 proof (induction over write/read schedules and poll events; reuse of the decoder theorem) + differential correspondence on real connections"),
 "C02": dict(
   text="Lean 4 theorems over an executable model of integer-encoding's u64 varint and util::encoding::Decoder: "
        "round trip, canonical (shape + minimal), and feed_chunking_independent for every message list and every "
        "chunking (unbounded). Tie: Generated constants + differential run of the model against the real Decoder "
        "on exhaustive small cut sets, structured cuts around every prefix and random cuts.",
   ref="DESIGN.md §8 C02, §7 M1",
   note="Lean kernel + {propext, Classical.choice, Quot.sound}; the hand-written model is tied to the code only by the differential run (sampled); usize = 64 bit",
   technique="Lean 4 proof (induction over chunks with a strict-prefix invariant) + differential correspondence"),
 "C03": dict(
   text="Lean 4 theorems over a small-step model of one adapter's driver/registry (user calls from any thread or from "
        "inside callbacks are atomic steps, process() is split at every lock release and callback, adapter answers are "
        "inputs), proved as invariants over all reachable states: the per-endpoint event sequence never leaves the automaton "
        "Connected(true) Message* Disconnected? | Connected(false) (connect-made) / Accepted(listener) Message* Disconnected? "
        "(accepted); events name the endpoint's origin; nothing follows the end; a failed inbound handshake leaves no event; "
        "UDP contract yields only Connected(true)/Message; the two exits of connect_sync. Tie: recorded scripted histories "
        "(all four transports, raw/tungstenite peers, failures, in-callback calls) re-executed on the model.",
   ref="DESIGN.md §8 C03, §7 M5",
   note="Lean kernel + standard axioms; adapters' answers and the OS are the environment; 'exactly one Connected per connect' is proved as at-most-one (safety), its occurrence is monitored by the tie",
   technique="Lean 4 proof (inductive invariant over a small-step model: lifecycle automaton phase vs registry state) + trace conformance"),
 "C04": dict(
   text="Lean 4 theorems over the same model: for every endpoint (#Disconnected events) + (#remove() calls that returned "
        "true) <= 1 in every reachable state (counting invariant: both are successful deregistrations, and ids are never "
        "reused), Disconnected is emitted only after the receive that reported it returned (after its data), after the end "
        "send/is_ready/remove answer NotFound/None/false forever, a successful remove unregisters at once. Tie: scripted "
        "histories + 8-thread remove races against peers' closes on real connections.",
   ref="DESIGN.md §8 C04, §7 M5",
   note="Lean kernel + standard axioms; RwLock mutual exclusion assumed (deregister is one atomic step in the model); the race tie samples schedules",
   technique="Lean 4 proof (counting invariant + freshness) + trace conformance and forced races"),
 "C06": dict(
   text="Lean 4 theorems over a small-step concurrent model of events.rs (any number of sender threads doing atomic "
        "enqueues, clock ticks, the receiver split at every shared access), proved as inductive invariants over all "
        "reachable states = all schedules: sent = returned ++ queued for the plain and priority channels (nothing lost, "
        "invented or duplicated; FIFO, hence FIFO per sender), timer keys pairwise distinct, every returned timer was "
        "scheduled and is returned once, every uncancelled unreturned timer is still held, try_receive drains. Tie: "
        "many-thread stress histories judged by the same history predicate in the Lean driver + two-thread grid "
        "histories replayed step by step through the model.",
   ref="DESIGN.md §8 C06, §7 M3",
   note="Lean kernel + standard axioms; crossbeam-channel linearizable FIFO assumed; tie samples schedules (weaker than the differential ties)",
   technique="Lean 4 proof (inductive invariants over a small-step concurrent model) + trace conformance"),
 "C08": dict(
   text="Lean 4 theorems over the same concurrent model: never_early (a timer is returned only at a time >= schedule "
        "time + duration), cancel_exact (a cancel enqueued strictly before the deadline implies the timer is never "
        "returned, in any continuation of any schedule; relies on the clock being read before the commands are "
        "folded), cancel/schedule isolation (other timers, also on the same instant, are untouched; keys are unique). "
        "Tie: two-thread grid histories with cancels while the receiver is idle or blocked, validated against the "
        "model; stress histories checking never-early / cancel-exact for every timer.",
   ref="DESIGN.md §8 C08, §7 M3",
   note="Lean kernel + standard axioms; monotone shared clock assumed; 'fires without a live sender handle' is exercised, not modelled",
   technique="Lean 4 proof (inductive invariants incl. clock-read-before-fold) + trace conformance"),
 "C16": dict(
   text="Lean 4 theorems over the same concurrent model: in no reachable state is the receiver blocked in select! while "
        "an event is deliverable and no watched source is ready (no_stuck_with_work; the as-found select, which did not "
        "watch the command channel, has a reachable stuck state — decided in MioModel/AsFound); receive_timeout reports "
        "nothing only after its absolute deadline and only when nothing is deliverable. Tie: grid histories in which "
        "every kind of send arrives while the receiver is blocked; result and return instant of every call compared "
        "with the model; persistent late returns are failures.",
   ref="DESIGN.md §8 C16, §7 M3",
   note="Lean kernel + standard axioms; real-time wake-up latency is monitored (1 unit = 500 us tolerance), not proved; crossbeam select semantics assumed",
   technique="Lean 4 proof (reachability invariant: blocked implies some wake-up enabled) + trace conformance"),
 "C07": dict(
   text="Lean 4 theorems over the sequential semantics of an executable model of events.rs (three FIFO channels + "
        "key-sorted timer map, logical time): priority first; else the expired timer with the least (deadline, "
        "scheduling order) key; else the oldest plain event; unexpired timers are transparent; non-blocking forms "
        "return none iff nothing is deliverable; receive_timeout/receive return exactly what try_receive returns at "
        "the first instant of their window at which that is something; holds on every reachable queue (sortedness "
        "invariant over all histories). Tie: recorded single-threaded histories on a logical time grid validated "
        "against the model.",
   ref="DESIGN.md §8 C07, §7 M3",
   note="Lean kernel + standard axioms; crossbeam-channel FIFO/select semantics assumed; timing on a 4 ms grid with 1 ms margins (late runs re-run)",
   technique="Lean 4 proof (case analysis on the model + sortedness invariant by induction over histories) + trace validation"),
 "C10": dict(
   text="Lean 4 theorems: a FramedTcp send is one critical section (send lock held for the whole frame), so for any "
        "number of threads the wire is the concatenation of whole frames in lock order and the receiver decodes exactly "
        "the sent messages, each once, each thread's in its order; same for Ws (state mutex) — the as-found unlocked loop "
        "has an interleaving that decodes to garbage (decided in MioModel/AsFound). Tie: multi-thread stress on real "
        "endpoints with self-describing payloads, judged by the direct oracle and the driver's history predicate.",
   ref="DESIGN.md §8 C10, §7 M2",
   note="Lean kernel + standard axioms; Mutex mutual exclusion assumed; that send really holds the lock for the whole frame is tied only by the stress run (sampled schedules)",
   technique="Lean 4 proof (sections in lock order + decoder theorem) + trace conformance under stress"),
 "C11": dict(
   text="Lean 4 theorems over the raw Tcp send and receive loops: Sent implies exactly the buffer on the wire (prefix "
        "otherwise); every Message chunk is non-empty and at most INPUT_BUFFER_SIZE (regenerated constant); chunks are "
        "exactly the consumed bytes; WaitNextEvent implies nothing readable is left; end to end over any poll events the "
        "concatenation of chunks equals the concatenation of what arrived. Tie: loopback runs node/raw peers, sizes "
        "around 65535, compared by concatenation hash and chunk bounds.",
   ref="DESIGN.md §8 C11, §7 M2",
   note="Lean kernel + standard axioms; kernel TCP / epoll semantics assumed",
   technique="Lean 4 proof (induction over read/write schedules and poll events) + differential correspondence on real connections"),
 "C05": dict(
   text="Lean 4 theorems over a small-step model of the two dispatch threads of node.rs (network thread, signal thread, "
        "caller; every line touching the callback mutex, the running flag or the cache is one step; all three listener "
        "modes): in every reachable state at most one thread is inside the callback, being inside implies owning the lock, "
        "entering requires the lock to be free. Tie: stress runs on real threads with an inside-flag in the callback "
        "(overlap counter) in all three modes, compared with the model played on a fair schedule.",
   ref="DESIGN.md §8 C05, §7 M4",
   note="Lean kernel + standard axioms; std::sync::Mutex provides mutual exclusion (assumed); the unsafe Send wrapper is sound exactly because of the proved invariant; memory model not modelled",
   technique="Lean 4 proof (inductive invariant over all interleavings of the thread model) + schedule-sampling correspondence on real threads"),
 "C09": dict(
   text="Lean 4 theorems over the node thread model: after a stop() issued inside the callback no invocation is ever entered "
        "again (history invariant over every schedule, all modes, including the replay of cached events and a thread waiting "
        "for the callback lock), stop() before the listener call means no invocation at all, running never returns to true, "
        "and both dispatch threads terminate within a bounded number of their own steps after the stop (decreasing measure). "
        "Tie: stop scenarios on real threads (before start, inside the i-th network / signal callback, with a contended lock, "
        "during replay, from outside) counting invocations entered after the stop and timing the listener's return.",
   ref="DESIGN.md §8 C09, §7 M4",
   note="Lean kernel + standard axioms; bounded time = bounded steps x SAMPLING_TIMEOUT (the timeout itself is the OS's); Mutex acquire/release ordering makes the Relaxed flag visible (assumed)",
   technique="Lean 4 proof (history invariant + termination measure over all interleavings) + schedule-sampling correspondence on real threads"),
 "C15": dict(
   text="Lean 4 theorems over the node thread model with events numbered in production order: in every reachable state the "
        "network events handed to the callback are exactly 0..k-1 in order (no loss, duplication or reordering across the "
        "cache hand-over, any cache size, any mode, any schedule), cached before live, and the pipeline (held + cache + "
        "polled) is contiguous and complete while the node runs. Tie: real peers act before the listener call with delays "
        "0-300 ms; the callback's event sequence must equal the peers' action sequence.",
   ref="DESIGN.md §8 C15, §7 M4",
   note="Lean kernel + standard axioms; the per-endpoint guarantees of the cached events are C03 composed with this (theorem lifecycle_wellformed_through_node)",
   technique="Lean 4 proof (inductive invariant over all interleavings of the thread model) + trace correspondence on real connections"),
 "C12": dict(
   text="Lean 4 theorems over a model of the UDP adapter (size check and status mapping of send_packet, the recv / recv_from "
        "loops with their MAX_LOCAL_PAYLOAD_LEN buffer, regenerated), the UDP paths of the driver (event = (listener id, sender "
        "address) or (id, peer address); Local ids send with send_to(endpoint.addr())) and Endpoint::from_listener, composed with "
        "an abstract datagram kernel: for every reachable world and every socket, reported events ++ queued datagrams = the "
        "datagrams the send history addressed to it, byte for byte, once each, in order, for every size 0..=max; every event is "
        "attributed to an existing sender that sent exactly that payload; a reply through the reported or from_listener endpoint "
        "is handed to the kernel for that address; refusal exactly above the declared maximum. Tie: scripted worlds on real "
        "loopback sockets (several senders per listener, replies, connected-socket filtering) + a size sweep through four paths.",
   ref="DESIGN.md §8 C12, §7 M8",
   note="Lean kernel + standard axioms; the kernel's datagram service (no loss while paced, whole datagrams, source address, connected-socket filter) is the model's environment, exercised by the tie; IPv6/multicast/receive_broadcasts not modelled",
   technique="Lean 4 proof (inductive invariant + refinement to the send history) + differential correspondence on real sockets"),
 "C13": dict(
   text="Lean 4 theorems: the status table of send (NotFound iff unregistered, NotAvailable iff registered and not ready "
        "with the adapter not invoked, else the adapter's status), send never touches the connection state, the Ws and Udp "
        "adapters answer MaxPacketSizeExceeded exactly above the regenerated declared maximum and transmit nothing then, "
        "the declared maxima table (decide). Tie: payloads around every limit on real connections in both directions "
        "(status, delivery, connection usable afterwards) + scripted histories with sends in every resource state.",
   ref="DESIGN.md §8 C13, §7 M5/M2/M8",
   note="Lean kernel + standard axioms; tungstenite's frame limits and the kernel's datagram limit are the environment (that they match the declared maximum is checked by the tie only)",
   technique="Lean 4 proof (case analysis on the model's send step, decide on the regenerated table) + differential correspondence"),
 "C14": dict(
   text="Lean 4 theorems over a model of the ResourceId bit layout (Nat with explicit 2^64 wrap, the Rust mask/shift "
        "expressions transcribed): field round trip, the accessors partition all 64 bits for every raw value, injectivity, "
        "poll-token round trip and waker distinctness on the token's domain, generator freshness for < 2^56 ids per "
        "registry, disjointness across registries, and the regenerated transport/driver table (decide). Tie: differential "
        "run through hooks on structured raw values + a live-network row. History level (network model M5): ids are never "
        "reused over any history, a send to an ended endpoint answers ResourceNotFound and reaches no adapter in every "
        "continuation; tied by scripted histories re-executed on the model.",
   ref="DESIGN.md §8 C14, §7 M6",
   note="Lean kernel + standard axioms (no bv_decide); hooks expose the private constructor/token conversions; usize = 64 bit",
   technique="Lean 4 proof (bit ops reduced to arithmetic normal forms + omega; decide on the regenerated table) + differential correspondence"),
 "C17": dict(
   text="Lean 4 theorem feed_total: no byte sequence in any chunking makes the decoder model panic (inductive "
        "invariant over reachable decoder states), plus boundedness of buffered garbage. Tie: differential run on "
        "malformed streams (non-canonical/over-long/huge prefixes, mutated streams) with panic detection under "
        "overflow checks. Network level (M5): a processor step on one connection changes no other connection's "
        "registration or readiness and reports events about that connection only, failed handshakes leave no event; tied "
        "by scripted histories with hostile raw peers (garbage, partial handshakes, resets) and a panic detector.",
   ref="DESIGN.md §8 C17, §7 M1",
   note="Lean kernel + standard axioms; checked-arithmetic semantics; tungstenite parsing exercised not modelled",
   technique="Lean 4 proof (inductive invariant, totality) + differential correspondence on malformed inputs"),
 "C18": dict(
   text="Lean 4 theorems over the driver model: a socket is open iff its register has a holder (the registry map or the "
        "in-flight processor step); every way of ending is a deregistration; once every registered resource has ended and "
        "the processor is idle no socket is open; a closed register is never held again. Tie: /proc/self/fd counted before "
        "the node, with the idle node, after all resources of a randomized history ended, and after dropping the node; peers "
        "that closed must have produced a Disconnected.",
   ref="DESIGN.md §8 C18, §7 M5",
   note="Lean kernel + standard axioms; Rust Drop order and the kernel closing a socket with its last descriptor are assumed; thread release is checked with the node model (C09)",
   technique="Lean 4 proof (holder invariant over the driver model) + resource accounting on real histories"),
 "C19": dict(
   text="Lean 4 theorems over a model of RemoteAddr parametric in the SocketAddr parser and printer (hold for every "
        "parser): classification, text preservation, predicate exactness, accessors, lossless typed conversions. Tie: "
        "differential run on grammar-generated strings with Rust's own parser as the oracle column.",
   ref="DESIGN.md §8 C19, §7 M7",
   note="Lean kernel + standard axioms; std's parser is a parameter, not verified",
   technique="Lean 4 proof (case analysis, parametric in the parser) + differential correspondence"),
}

NA_REASON = "not yet claimed in this revision: model and proof under construction (see DESIGN.md §8/§10 order of work); no other technique is substituted"

def main():
    hooks = subprocess.run(["git", "-C", "/repo", "log", "--format=%h %s"], capture_output=True, text=True).stdout.splitlines()
    hook_commits = [l.split()[0] for l in hooks if l.split(" ", 1)[1].startswith("verif hook")]
    checks = []
    for pid in ALL:
        if pid in CLAIMED:
            c = CLAIMED[pid]
            checks.append({
                "property_id": pid,
                "quick_cmd": "./check %s --tier quick" % pid,
                "thorough_cmd": "./check %s --tier thorough" % pid,
                "evidence_file": "/verif/evidence/%s.json" % pid,
                "replay_cmd_template": "./check %s --replay {path}" % pid,
                "engine": "lean4-mio-model",
                "level_claimed": {"category": "proof", "text": c["text"], "design_ref": c["ref"]},
                "level_note": c["note"],
                "technique": c["technique"],
            })
    m = {
        "version": 1,
        "setup_cmd": "./setup.sh",
        "hooks": {
            "guard": "cargo feature verif-hooks",
            "enable": "the harness crate depends on message-io with features=[\"verif-hooks\"] (path dependency on /repo)",
            "baseline_off_cmd": "cd /repo && cargo test --workspace --no-fail-fast --offline",
            "source_commits": hook_commits,
            "add_only": True,
        },
        "engines": [{
            "name": "lean4-mio-model", "path": "/verif/lean",
            "serves_properties": sorted(CLAIMED),
            "kind_free_text": "Lean 4 (core only) executable models + theorems; Rust differential harness in /verif/harness; python driver ./check",
        }],
        "checks": checks,
        "notes": "Machine-checked proof in Lean 4 about hand-written executable models, tied to /repo by regenerated constants and a differential correspondence run on every check. See DESIGN.md.",
        "not_applicable": [{"property_id": p, "reason": NA_REASON} for p in ALL if p not in CLAIMED],
    }
    json.dump(m, open(os.path.join(V, "MANIFEST.json"), "w"), indent=1)
    print("claimed:", sorted(CLAIMED))

if __name__ == "__main__":
    main()
