#!/usr/bin/env python3
"""Apply every seeded change of /verif/seeded/<id>/patch.diff to /repo in turn, run the checks that are
meant to catch it, undo it (git reset --hard), and write seeded/<id>/meta.json + seeded/RESULTS.md.

usage: tools/mutants.py [id ...]          (default: all)
"""
import json
import os
import subprocess
import sys
import time

VERIF = os.path.dirname(os.path.dirname(os.path.abspath(__file__)))
SEEDED = os.path.join(VERIF, "seeded")

# property the sub-agent was given, what the change needs to manifest, checks expected to see it
INFO = {
    "C01-1": ("C01", "a frame whose varint length prefix is split across reads right after a continuation byte "
                     "(take_while counts continuation bytes only up to the end of the chunk, +1 runs past it)",
              ["C01", "C02", "C17"]),
    "C02-1": ("C02", "a length prefix containing the byte 0x80 (e.g. length 128 = 80 01) arriving in pieces", ["C02", "C01"]),
    "C03-1": ("C03", "for_each_async with two or more events cached before the listener call (replayed back to front: "
                     "Message/Disconnected before Connected/Accepted)", ["C03", "C15"]),
    "C04-1": ("C04", "two threads calling remove(id) at the same time: both pass the read-locked contains_key test and both "
                     "return true", ["C04"]),
    "C05-1": ("C05", "for_each (sync mode): a signal and a network event at the same time; the signal thread calls the "
                     "callback through a raw pointer after the guard is dropped", ["C05"]),
    "C06-1": ("C06", "a timer sent while the receiver is blocked in receive()/receive_timeout(): the command is consumed by "
                     "the select arm and dropped", ["C06", "C16"]),
    "C07-1": ("C07", "send_with_timer(event, 0) while earlier-due timers or priority events are pending: the event jumps "
                     "the queue as a plain event", ["C07"]),
    "C08-1": ("C08", "a timer command folded in between the timer fold and the clock read: the clock is read after the fold, "
                     "a later-created timer can overtake (needs the forced interleaving at sync point events.ready_event.folded)",
              ["C08"]),
    "C09-1": ("C09", "stop() inside a signal callback while the network thread has passed the running test and waits for the "
                     "callback lock: it then invokes the callback after the stop", ["C09"]),
    "C10-1": ("C10", "two threads sending large FramedTcp messages to the same endpoint with a full socket buffer: the send "
                     "lock is released on WouldBlock and frames interleave", ["C10"]),
    "C11-1": ("C11", "a Tcp peer writing more than 65535 bytes at once: the 65536-byte read is one chunk larger than the "
                     "documented chunk bound", ["C11"]),
    "C12-1": ("C12", "a datagram longer than 1472 bytes sent to a connected UDP socket: cut to the smaller buffer", ["C12"]),
    "C13-1": ("C13", "a client message above tungstenite's default 16 MiB frame limit but within the declared 32 MiB maximum, "
                     "sent to an accepted WebSocket: the accepting side (now configured with the library defaults) rejects it and "
                     "drops the connection", ["C13"]),
    "C14-1": ("C14", "more than 65535 resources created by one generator: the 16-bit counter wraps and ids repeat", ["C14"]),
    "C15-1": ("C15", "a peer that connects, sends and disconnects before the listener call: its cached Message events are "
                     "dropped because the resource is gone at replay time", ["C15", "C03"]),
    "C16-1": ("C16", "receive_timeout(Duration::MAX) (no representable deadline): waits zero instead of forever", ["C16"]),
    "C17-1": ("C17", "a failed WebSocket handshake (garbage bytes instead of the upgrade request): the state is left as a "
                     "moved-from placeholder, the next event panics or the resource is never released", ["C17"]),
    "C18-1": ("C18", "a peer that writes less than the buffer and closes: the FIN behind a short read is never read, no "
                     "Disconnected, the descriptor stays open", ["C18", "C04"]),
    "C03-2": ("C03", "an inbound connection whose handshake fails (garbage or a truncated upgrade request to a Ws listener, "
                     "or gone at once): Connected(endpoint, false) is emitted for an accepted endpoint", ["C03", "C17"]),
    "C04-2": ("C04", "FramedTcp: the peer's last data and its FIN arrive within one readiness event; the read loop stops after "
                     "the short read, the FIN is never read: no Disconnected, the endpoint stays registered", ["C04", "C18"]),
    "C05-2": ("C05", "for_each: a signal becomes ready while the network thread is inside the callback; the signal thread "
                     "uses try_lock on the turn mutex and enters anyway", ["C05"]),
    "C09-2": ("C09", "receive_timeout restarts its full timeout on every timer command: with timers created/cancelled faster "
                     "than the 50 ms sampling period the signal thread never re-tests is_running() and the listener does not return",
              ["C16", "C08", "C09"]),
    "C12-2": ("C12", "two or more datagrams queued at a connected UDP socket at one readiness event: the receive loop stops "
                     "after the first short read and the rest stay in the kernel queue", ["C12"]),
    "C13-2": ("C13", "UDP over IPv6 with a payload of 65508..65527 bytes: the kernel accepts it (no EMSGSIZE), send() reports "
                     "Sent and the receiver gets it cut to 65507", ["C13", "C12"]),
    "C06-2": ("C06", "EventSender::clone() copies the timer sequence counter instead of sharing it: two clones scheduling "
                     "timers that fall on the same instant with equal private counts get equal TimerIds, one event is lost", ["C06", "C08"]),
    "C10-2": ("C10", "FramedTcp send lock taken per write call (vectored write of prefix+payload): concurrent senders with a "
                     "frame larger than the free socket buffer interleave", ["C10"]),
    "C14-2": ("C14", "id generation made a plain load/store and moved out of the registry write lock: two registrations on the "
                     "same registry at the same instant (connect() from two threads, or connect() racing an accept) get the same id",
              ["C14"]),
    "C15-2": ("C15", "for_each_async/enqueue: the cache became a Vec drained with pop(): cached events are replayed newest "
                     "first", ["C15", "C03"]),
    "C18-2": ("C18", "a failed inbound handshake (non-upgrade request to a Ws listener): the accepted resource is no longer "
                     "deregistered, its descriptor stays open and the peer never sees a close; silent", ["C18", "C17"]),
    "C02-2": ("C02", "a size prefix of 3 or more bytes (message >= 16384 bytes) cut twice, so that one chunk consists only of "
                     "continuation bytes while a partial prefix is stored: the middle byte is dropped", ["C02", "C01"]),
    "C07-2": ("C07", "more than 128 timer commands queued between two receive calls: enque_timers applies a bounded batch, "
                     "an expired timer behind the batch is invisible for that call (plain before expired timer, later "
                     "deadline before earlier, try_receive None with a due timer)", ["C07", "C08"]),
    "C08-2": ("C08", "more than 1024 timer commands queued while the receiver is away, the Cancel of a timer behind them and "
                     "its deadline passing before the next receive call: the cancelled timer is delivered", ["C08", "C07"]),
    "C16-2": ("C16", "two timers with different deadlines pending and the receiver blocking until the earlier one: the wake-up "
                     "is armed on the latest timer", ["C16", "C07"]),
    "C17-2": ("C17", "a FramedTcp peer sending 11 or more continuation bytes in one read and more bytes in a later read: "
                     "MAX_ENCODED_SIZE - stored.len() underflows (panic of the network thread)", ["C17", "C02"]),
    "C19-2": ("C19", "a string with leading/trailing whitespace: trimmed before parsing (classified as a socket address, or "
                     "stored trimmed)", ["C19"]),
    "C11-2": ("C11", "for_each (sync): two or more Message chunks of a Tcp connection cached before the listener call are "
                     "replayed newest first: the concatenation is no longer the sent stream", ["C11", "C15", "C03"]),
    "C01-2": ("C01", "WebSocket: a Ping / Pong / Text message and a Binary message behind it arrive in one read from an "
                     "independent peer, then silence: the loop stops at the control message and the Binary one is stranded", ["C01"]),
    "C04-3": ("C04", "Disconnected is emitted before the resource is deregistered (check-then-act): inside the Disconnected "
                     "callback is_ready() is Some(true), send() reaches the dead socket and remove() returns true; a remove() "
                     "from another thread during the callback also returns true", ["C04", "C03"]),
    "C10-3": ("C10", "FramedTcp send() first tries an unlocked vectored write and takes the lock only for the rest: with "
                     "frames larger than the free socket buffer concurrent senders interleave", ["C10"]),
    "C13-3": ("C13", "a reply larger than 1472 bytes from a UDP listener to a connected UDP socket: the connected socket's "
                     "receive buffer is MAX_INTERNET_PAYLOAD_LEN, the payload arrives cut although send() said Sent", ["C13", "C12"]),
    "C17-3": ("C17", "WebSocket frame limit lifted (max_frame_size None): after a correct handshake one frame header "
                     "announcing 2^63-1 bytes makes tungstenite reserve that much: capacity-overflow panic of the network thread",
              ["C17", "C13"]),
    "C18-3": ("C18", "Tcp/FramedTcp with a keepalive configuration: the descriptor is duplicated for set_tcp_keepalive and the "
                     "duplicate forgotten: one descriptor leaks per connection and the peer never sees the close", ["C18", "C04"]),
    "C03-3": ("C03", "a connected Udp resource whose peer went away (ICMP bounce leaves ECONNREFUSED pending) and came back: "
                     "the pending error is turned into Disconnected and the resource is deregistered", ["C03"]),
    "C05-3": ("C05", "the callback mutex replaced by a hand-made turn lock whose wait is bounded by the sampling period "
                     "(50 ms) and whose timeout result is ignored: a callback longer than 50 ms is overlapped by the other thread", ["C05"]),
    "C06-3": ("C06", "the timer sequence counter incremented with a separate load and store: two threads calling "
                     "send_with_timer at the same instant get the same (Instant, sequence) key", ["C06", "C08"]),
    "C09-3": ("C09", "for_each (sync): the is_running() test moved in front of the replay loop: stop() inside the callback of "
                     "a replayed cached event does not stop the replay of the remaining cached events", ["C09"]),
    "C12-3": ("C12", "a connected Udp socket with a pending ICMP error (an earlier send bounced off an absent peer): the "
                     "kernel refuses the next datagram, send() answers Sent anyway: the datagram is lost", ["C12", "C13"]),
    "C14-3": ("C14", "Connected(endpoint, false) is emitted before the failed resource is deregistered: inside that callback "
                     "send() answers ResourceNotAvailable, is_ready() Some(false), remove() true", ["C14", "C03", "C04"]),
    "C15-3": ("C15", "for_each_async/enqueue: one cached event is replayed per loop iteration, each followed by a live poll: "
                     "fresh events overtake the cached ones still waiting", ["C15", "C03"]),
    "C02-3": ("C02", "a frame with a multi-byte size prefix met with nothing buffered, the chunk ending 1..w-1 bytes before "
                     "the end of the frame: the 'whole frame present' test assumes a 1-byte prefix (panic in split_at)", ["C02", "C01", "C17"]),
    "C07-3": ("C07", "a priority event queued while the earliest timer has not expired: the early return for the pending timer "
                     "runs before the priority queue is looked at", ["C07"]),
    "C08-3": ("C08", "the expiry test truncates the remaining time to whole milliseconds: a receive that runs within the last "
                     "millisecond before a deadline returns the timer early", ["C08", "C07"]),
    "C16-3": ("C16", "the wake-up is armed only for timers later than a second clock reading: a timer that expires between the "
                     "expiry test and the arming is skipped and the receiver sleeps through it (forced at the sync point)", ["C16", "C08"]),
    "C19-3": ("C19", "a socket address text longer than 52 bytes ([v6 with embedded v4]:65535, or a long %scope): a length "
                     "guard skips parsing and classifies it as a string", ["C19"]),
    "C11-3": ("C11", "the driver returns right after reporting Connected for an outgoing connection: bytes the acceptor wrote "
                     "before the connector processed that event are never read (edge-triggered) until more arrive", ["C11", "C01", "C03"]),
    "C12-4": ("C12", "Udp pending() answers Incomplete on a read event: a datagram that reaches a connected socket before "
                     "its first poll event is processed is not read by the read half and the write half does not read", ["C12"]),
    "C13-4": ("C13", "a bound on tungstenite's write buffer of max payload + 10 bytes forgets the 4-byte client mask: a "
                     "client-side send within 3 bytes of the declared maximum answers ResourceNotFound", ["C13"]),
    "C15-4": ("C15", "consecutive cached Message events of one endpoint are merged for every connection-oriented transport "
                     "(right only for the stream transport Tcp): FramedTcp / Ws messages cached back to back arrive fused", ["C15", "C03"]),
    "C17-4": ("C17", "an accepted resource whose handshake fails is not deregistered: the next readiness event calls pending() "
                     "on RemoteState::Error: unreachable!() panics the network thread", ["C17", "C18"]),
    "C01-3": ("C01", "the WebSocket connector side is configured with the library defaults (16 MiB frame limit) while the "
                     "acceptor keeps the declared 32 MiB: a message above 16 MiB sent by the acceptor to the connector is "
                     "refused by the connector and the connection dropped", ["C01", "C13"]),
    "C10-4": ("C10", "the FramedTcp send lock is acquired by a bounded spin of try_lock with no blocking fallback: when the "
                     "holder stays inside one frame for long (several socket buffers, slow receiver) the waiter writes unlocked", ["C10"]),
    "C18-4": ("C18", "FramedTcp with a keepalive configuration the OS rejects: the borrowed Socket is dropped on the error "
                     "path, closing the stream's descriptor while the resource stays registered", ["C18", "C04"]),
    "C03-4": ("C03", "more than 128 connections queued at a Tcp listener when its readable event is processed: the accept "
                     "loop is capped at 128 per event and the edge-triggered event does not fire again", ["C03", "C04"]),
    "C04-4": ("C04", "WebSocket: a Ping (or Text) frame ahead of the Close frame in one read, the peer keeping its TCP "
                     "connection open: the loop stops at the control message, the Close stays in the codec buffer: no "
                     "Disconnected, the endpoint stays registered", ["C04", "C01"]),
    "C01-4": ("C01", "FramedTcp send uses try_lock and ignores the failure: a sender that finds the lock taken writes its "
                     "frame unlocked (needs two threads sending on one endpoint with frames larger than the socket buffer)", ["C01", "C10"]),
    "C02-4": ("C02", "a chunk that holds at least one complete frame and ends inside a multi-byte size prefix: the whole "
                     "chunk (including the frames already delivered) is stored instead of the undecoded tail", ["C02", "C01", "C17"]),
    "C05-4": ("C05", "the callback mutex replaced by a busy flag + condvar whose wait is not re-checked after wake-up: the "
                     "releasing thread re-takes the callback for its next queued event before the waiter runs, the waiter "
                     "then enters as well", ["C05"]),
    "C06-4": ("C06", "Cancel removes every pending timer with the same Instant (retain on the instant alone): a timer from "
                     "another thread that fell on the same nanosecond as a cancelled one is lost", ["C06", "C08"]),
    "C07-4": ("C07", "cancel_timer() of a timer whose deadline has passed but that has not been delivered yet sends nothing: "
                     "the cancelled event is still returned, ahead of plain events", ["C07", "C08"]),
    "C08-4": ("C08", "pending timer commands are not folded while a known timer is due: a cancel issued before the deadline "
                     "while the receiver was idle is not applied at the next receive after the deadline", ["C08", "C07"]),
    "C09-4": ("C09", "for_each_async/enqueue: the is_running() test under the callback lock of the live network loop is "
                     "dropped: the remaining events of a polled batch, or an event held while waiting for the lock, are "
                     "delivered after stop()", ["C09"]),
    "C11-4": ("C11", "Tcp with keepalive configured: pending() answers Incomplete on a read event; bytes already waiting when "
                     "the connection is first processed are not read until more arrive", ["C11", "C03"]),
    "C14-4": ("C14", "FramedTcp with a keepalive configuration the OS rejects: the stream's descriptor is closed while the "
                     "endpoint stays registered as ready; the next socket reuses the number and receives what is sent to the "
                     "old endpoint", ["C14", "C18"]),
    "C16-4": ("C16", "receive_timeout returns ready_event() straight from the expiry branch: a cancel that lands between the "
                     "expiry wake-up and the fold makes it return None long before the timeout", ["C16", "C08"]),
    "C19-4": ("C19", "the string is resolved with to_socket_addrs(): a host:port text the local resolver knows "
                     "(localhost:80) is classified as a socket address", ["C19"]),
    "C01-5": ("C01", "the start-up cache is filled with push_front and for_each pops from the back (still FIFO), but "
                     "for_each_async / enqueue still pop_front: messages cached before the listener call arrive reversed", ["C01", "C15"]),
    "C02-5": ("C02", "a partial multi-byte prefix is buffered and the next chunk completes it and carries payload: up to "
                     "10 - stored bytes of the chunk are skipped instead of the prefix bytes appended", ["C02", "C01"]),
    "C04-5": ("C04", "FramedTcp with a keepalive configuration the OS rejects: the stream's descriptor is closed on the error "
                     "path right when the connection becomes ready: the peer sees EOF, no Message, no Disconnected ever", ["C04", "C18"]),
    "C05-5": ("C05", "for_each_async: during the replay of cached start-up events the guard of a hand-made ticket lock is a "
                     "temporary dropped before the callback runs: a signal callback overlaps a replayed network event", ["C05"]),
    "C06-5": ("C06", "enque_timers breaks after taking the 1025th command out of the channel: with more than 1024 timer "
                     "commands pending one command is dropped per receive call", ["C06", "C07", "C08"]),
    "C07-5": ("C07", "try_receive fast path returns the oldest plain event when no priority event and no timer *command* is "
                     "waiting, forgetting timers already folded into the map: plain before an expired timer", ["C07"]),
    "C08-5": ("C08", "EventSender::new builds the sequence counter itself, so every clone starts its own at 0: same-instant "
                     "timers from different clones get equal ids (overwrite, cross-cancel)", ["C08", "C06"]),
    "C09-5": ("C09", "for_each (sync): the signal thread tests is_running() before taking the callback lock: stop() inside a "
                     "network callback while the signal thread holds a dequeued signal and waits for the lock", ["C09"]),
    "C10-5": ("C10", "an empty FramedTcp message (one byte on the wire) is sent without the lock: it lands inside a frame "
                     "another thread is writing", ["C10"]),
    "C13-5": ("C13", "Connected(endpoint, false) is reported before the failed resource is deregistered: a send() from "
                     "inside that callback answers ResourceNotAvailable instead of ResourceNotFound", ["C13", "C14"]),
    "C16-5": ("C16", "receive_timeout keeps a running 'remaining' and subtracts the cumulative elapsed time from it: after "
                     "two wake-ups by timer commands that make nothing deliverable it answers None before the timeout", ["C16", "C08"]),
    "C03-5": ("C03", "check_stream_ready treats only ECONNREFUSED as a failure: a connection reset while still pending "
                     "(RST in the accept queue, an acceptor that goes away) stays registered for ever", ["C03", "C18", "C13"]),
    "C18-5": ("C18", "the same narrowing of check_stream_ready (independently found): reset pending sockets leak their "
                     "descriptors and a connect() is never answered", ["C18", "C03"]),
    "C11-5": ("C11", "for_each_async drains the start-up cache with pop_back: events cached before the listener started "
                     "are replayed in reverse", ["C11", "C01", "C03", "C15"]),
    "C12-5": ("C12", "the IPv6 receive_broadcasts listener asks for IPv4 packet info: recvmsg never yields the control "
                     "message and every datagram is dropped", ["C12", "C13"]),
    "C14-5": ("C14", "the receive_broadcasts listener builds the endpoint from the address the datagram arrived on "
                     "instead of the sender's: a sender on another ip is reported as 127.0.0.1:port", ["C14", "C12"]),
    "C15-5": ("C15", "the caching thread polls with process_poll_events_until_timeout: it looks at its stop flag only after "
                     "50 ms without any poll activity, so with a peer sending every few ms the listener call never "
                     "takes over and nothing is delivered while the traffic lasts", ["C15", "C09"]),
    "C17-5": ("C17", "try_decode compares used_bytes + expected_size with the buffer: a 10-byte prefix near 2^64 arriving "
                     "in one read overflows the addition and panics the network thread", ["C17", "C02"]),
    "C02-6": ("C02", "decode() releases the buffer of a frame above 65535 bytes after try_decode has already stored the "
                     "undecoded tail of the chunk in it: the tail is thrown away (needs a big frame completed by a chunk "
                     "that ends inside the next frame)", ["C02", "C01"]),
    "C04-6": ("C04", "send() that answers ResourceNotFound deregisters the resource itself: the peer's close, processed "
                     "afterwards, finds nothing to deregister and no Disconnected is ever delivered", ["C04", "C03", "C18"]),
    "C05-6": ("C05", "for_each (sync): the callback is guarded by a turn flag taken once per poll but released after every "
                     "event: the second event of one poll runs unguarded while a signal is delivered", ["C05"]),
    "C06-6": ("C06", "a blocked receive that is woken by a plain event re-checks the priority channel and puts the plain "
                     "event back at the tail: one sender's plain events come out of order", ["C06", "C07", "C16"]),
    "C07-6": ("C07", "ready_event folds the timer commands only when no known timer is due: a later timer with an earlier "
                     "deadline, or a cancel, issued after a receive call has seen the first timer, is ignored at that call", ["C07", "C08"]),
    "C09-6": ("C09", "the signal thread (async / enqueue) loops on receive_timeout with `while let`: it looks at the running "
                     "flag only after 50 ms without a signal, so with a steady stream of signals wait()/drop never return", ["C09"]),
    "C12-6": ("C12", "the plain Udp listener treats a 0-byte recv_from as 'nothing more': empty datagrams are dropped and the "
                     "drain loop stops there", ["C12", "C13"]),
    "C14-6": ("C14", "ADAPTER_ID_MASK narrowed to 5 bits: bits 5 and 6 of a raw id belong to no accessor; a forged id reads "
                     "as another transport's", ["C14"]),
    "C19-6": ("C19", "SocketAddr -> RemoteAddr turns an IPv4-mapped IPv6 address into the plain IPv4 one", ["C19"]),
    "C01-6": ("C01", "Ws receive() uses try_lock on the connection state and gives the read event up when a sender holds it: "
                     "messages that arrive while another thread is inside a long send() on the same endpoint are "
                     "stranded if no further traffic comes", ["C01", "C10"]),
    "C08-6": ("C08", "a timer command that wakes a blocked receive is applied after the rest of the channel was folded: "
                     "send_with_timer + cancel_timer back to back while the receiver is blocked leaves the timer armed", ["C08", "C16", "C07"]),
    "C10-6": ("C10", "the FramedTcp send lock became a hand-rolled flag whose slow path re-takes it with load + store: two "
                     "waiters (or a waiter and a newcomer) both get in; needs >= 3 threads and many small messages", ["C10", "C01"]),
    "C11-6": ("C11", "Tcp send() gives up after 2^21 consecutive WouldBlock answers with ResourceNotAvailable even when part "
                     "of the buffer is already written: needs a multi-MiB send to a receiver that stops reading for ~1 s", ["C11", "C13"]),
    "C13-6": ("C13", "FramedTcp pending(): the borrowed socket2 handle is forgotten only when set_tcp_keepalive succeeds; a "
                     "keepalive the OS rejects closes the descriptor of a connection that is then reported ready", ["C13", "C18", "C14"]),
    "C15-6": ("C15", "the start-up cache is capped at 1024 events: the rest of the poll batch that crosses the cap is read "
                     "from the socket and thrown away (needs > 1024 events before the listener call)", ["C15"]),
    "C16-6": ("C16", "receive_timeout recomputes the remaining time after a wake-up and returns None when the deadline has "
                     "passed, before looking at ready_event: a timer expiring within the wake-up latency of the deadline is "
                     "reported as nothing", ["C16", "C08"]),
    "C17-6": ("C17", "a pending resource that ends Disconnected always emits Connected(endpoint, false), also for accepted "
                     "sockets: a peer that resets before the accept is processed (or fails the Ws handshake) produces an "
                     "event for a connection that never existed", ["C17", "C03"]),
    "C18-6": ("C18", "the Tcp accept loop no longer leaves on an accept() error: with the descriptor table full and a "
                     "connection waiting (EMFILE) the network thread spins in accept() and stop() cannot end it", ["C18", "C09"]),
    "C03-6": ("C03", "Tcp connect_with swallows a synchronous connect(2) error (ENETUNREACH towards a multicast / broadcast "
                     "address): connect() returns an endpoint that is never answered by a Connected event", ["C03", "C18", "C13"]),
    "C01-7": ("C01", "(= C13-6, found again from C01) FramedTcp pending(): the borrowed socket2 handle is dropped when the OS "
                     "rejects the keepalive: the connection is reported on a closed descriptor; messages are lost or land "
                     "in another connection", ["C01", "C13", "C18"]),
    "C02-7": ("C02", "try_decode tests `decoded` instead of `not_decoded` to go on: an empty message that is not the last "
                     "byte of its chunk ends the decoding of that chunk", ["C02", "C01"]),
    "C04-7": ("C04", "read_from_remote ignores the result of deregister(): a remove() that succeeded inside the callback "
                     "(or concurrently) is followed by a Disconnected when the peer's close is read in the same pass", ["C04", "C03"]),
    "C06-7": ("C06", "the priority channel is bounded (1024) and send_with_priority uses try_send: priority events beyond "
                     "1024 pending ones are dropped silently", ["C06"]),
    "C07-7": ("C07", "EventSender::clone clones the plain sender into the priority slot: send_with_priority on a cloned "
                     "sender goes to the plain queue (behind expired timers and older plain events)", ["C07", "C06"]),
    "C09-7": ("C09", "(= C15-5, found again from C09) the caching thread polls with process_poll_events_until_timeout: with "
                     "traffic arriving, stop() before the listener call is not followed by the listener returning", ["C09", "C15"]),
    "C10-7": ("C10", "FramedTcp send() gives up after 2 s without progress with ResourceNotAvailable even when part of the "
                     "frame is written: the next frames are swallowed as payload by the receiver", ["C10", "C01", "C13"]),
    "C12-7": ("C12", "the receive_broadcasts listener stops draining (break) at a datagram addressed to another local "
                     "address instead of skipping it: datagrams behind it wait for the next wake-up", ["C12"]),
    "C13-7": ("C13", "Udp send_packet answers Sent for ECONNREFUSED: the datagram that consumed a pending ICMP error was "
                     "never transmitted", ["C13", "C12"]),
    "C14-7": ("C14", "read_from_remote reports Disconnected before deregistering: inside that callback the stale endpoint "
                     "is still live (Tcp send Sent, is_ready Some(true), remove true)", ["C14", "C04", "C13"]),
    "C15-7": ("C15", "the caching thread drops an event equal to the last cached one: byte-identical messages of one "
                     "endpoint back to back before the listener call are delivered once", ["C15"]),
    "C16-7": ("C16", "each sender clone gets a private copy of the timer sequence: two timers from different clones with the "
                     "same deadline instant and the same per-clone number share a key and one overwrites the other", ["C16", "C06", "C08"]),
    "C17-7": ("C17", "(= C18-6 on the Ws listener) the Ws accept loop no longer leaves on an accept() error: with the "
                     "descriptor table full the network thread spins and serves nobody", ["C17", "C18"]),
    "C19-7": ("C19", "a fast-path byte filter lists only lowercase hex digits: an IPv6 ip:port text with uppercase hex is "
                     "classified as a string", ["C19"]),
    "C03-7": ("C03", "(= C13-6, found a third time, from C03) FramedTcp pending() closes the descriptor when the OS rejects "
                     "the keepalive: Connected(true) / Accepted for a connection the library has already closed", ["C03", "C13", "C01"]),
    "C08-7": ("C08", "cancel_timer sends nothing when less than 1 ms remains to the deadline (as_millis() > 0): a cancel in the "
                     "last millisecond, or of a sub-millisecond timer, is dropped", ["C08", "C07"]),
    "C11-7": ("C11", "Driver::send holds the registry read lock for the whole adapter send: while a thread is stuck in a Tcp "
                     "send to a stalled peer, an accept (registration) blocks the poll thread and nothing is delivered", ["C11", "C10"]),
    "C18-7": ("C18", "Ws receive() no longer ends on a Close frame but on ConnectionClosed: as a client, against a server "
                     "that sends Close and keeps TCP open, the resource stays registered and open for ever", ["C18", "C04", "C03"]),
    "C05-7": ("C05", "for_each (sync): the callback mutex is replaced by a 16-bit ticket lock that compares with `<`: at every "
                     "65536th turn under contention the other thread walks in (or both wait for ever)", ["C05"]),
    "C01-8": ("C01", "try_decode compares the whole chunk (prefix included) with the payload size: a frame with a k-byte prefix "
                     "that is 1..k-1 bytes short of complete is taken as complete and split_at panics (e.g. a 65533-byte "
                     "message read with the 65535-byte buffer)", ["C01", "C02", "C17"]),
    "C02-8": ("C02", "store_and_decoded_data tests stored+new <= expected (prefix width dropped): with something buffered, a "
                     "chunk ending 1..w-1 bytes before the end of a frame with a w-byte prefix panics in split_at", ["C02", "C01"]),
    "C05-8": ("C05", "for_each_async: the callback lock is a flag that the network thread clears after every poll, also after "
                     "a poll without events while the signal thread holds it: a network event during a signal callback "
                     "that spans an event-less poll (50 ms tick, half a frame) overlaps it", ["C05"]),
    "C08-8": ("C08", "receive(): the timer command that wakes the blocked select is dropped (bound to _) and only the rest "
                     "of the channel is folded: a cancel or a create that wakes a receiver blocked in receive() is lost", ["C08", "C16", "C06"]),
    "C09-8": ("C09", "for_each_async / enqueue: the cached replay takes the lock and tests is_running() once, before the "
                     "loop: stop() inside a replayed event does not stop the replay of the rest", ["C09"]),
    "C12-8": ("C12", "a multicast Udp listener binds the group address instead of the wildcard: a datagram sent to the "
                     "endpoint a peer saw for it (its unicast address) is dropped by the kernel", ["C12"]),
    "C13-8": ("C13", "Tcp send(): a write of 0 bytes answers ResourceNotFound: an empty payload on a live raw Tcp connection", ["C13", "C11"]),
    "C14-8": ("C14", "(close to C17-6) resolve_pending_remote guards Connected(false) with is_remote(): an accepted connection "
                     "that fails while pending produces Connected(endpoint, false) for an endpoint connect() never returned", ["C14", "C17", "C03"]),
    "C16-8": ("C16", "the blocked select listens to the timer-command channel only while the timer map is empty: with a "
                     "long timer already folded, a shorter timer sent while the receiver is blocked does not wake it", ["C16", "C08"]),
    "C17-8": ("C17", "Ws receive() continues after Error::Capacity: one frame header announcing more than the maximum makes "
                     "read() fail the same way for ever and the network thread spins", ["C17", "C01"]),
    "C19-8": ("C19", "the ip:port text is split by hand (port as u16, then the ip): '127.0.0.1:+80' becomes a socket "
                     "address and '[fe80::1%3]:80' stays a string", ["C19"]),
    "C04-8": ("C04", "(= C01-6, found again from C04) Ws receive() gives the read event up when a sender holds the state lock: "
                     "a peer's Close / FIN that arrives while another thread is inside send() is never processed", ["C04", "C01", "C10"]),
    "C10-8": ("C10", "(= C01-6, found again from C10) Ws receive() with try_lock: messages of the peer that arrive while local "
                     "threads are inside send() on the same endpoint are stranded", ["C10", "C01"]),
    "C06-8": ("C06", "next_timer_expiration arms never() when the first deadline is already past at its own clock reading: a "
                     "timer that expires between ready_event's clock reading and the arming (a long fold of commands "
                     "widens the window) leaves receive() asleep", ["C06", "C16", "C08"]),
    "C07-8": ("C07", "next_timer_expiration arms the *latest* pending deadline: with two pending timers a blocking receive "
                     "sleeps past the first one (receive_timeout answers None while try_receive would return it)", ["C07", "C16", "C08"]),
    "C11-8": ("C11", "Tcp receive() leaves its read loop after 100 ms with WaitNextEvent: with a slow callback and more than "
                     "one read buffer already queued, the tail is never read unless new bytes arrive", ["C11", "C01"]),
    "C03-8": ("C03", "the connected Udp socket's receive() treats recv() == 0 as end of stream: a zero-length datagram from "
                     "the peer yields Disconnected for a Udp endpoint", ["C03", "C12", "C04"]),
    "C15-8": ("C15", "enqueue(): Disconnected events go through the priority channel of the queue and overtake earlier "
                     "events still queued (a peer that connects, sends and closes before enqueue() is called)", ["C15", "C03"]),
    "C18-8": ("C18", "(= C09-6 in both listener kinds) the signal threads loop on receive_timeout with `while let`: with a "
                     "producer sending signals every few ms, stop() is not followed by the threads ending", ["C18", "C09"]),
    "C02-9": ("C02", "decode_size decodes the prefix as u32: a prefix announcing 2^32 bytes or more decodes to n mod 2^32", ["C02"]),
    "C04-9": ("C04", "the Tcp connector's socket is created without CLOEXEC: with a child process alive (fork+exec while the "
                     "connection is open) remove() closes the parent's descriptor only and the peer sees no close", ["C04", "C18"]),
    "C05-9": ("C05", "for_each (sync): the callback mutex is replaced by a two-flag Dekker protocol with Release/Acquire "
                     "orderings: store-buffer reordering lets both threads in when a signal and a network event become "
                     "ready within nanoseconds of each other", ["C05"]),
    "C06-9": ("C06", "receive(): the priority arm is dropped from the blocking select: a send_with_priority to a receiver "
                     "already blocked in receive() does not wake it", ["C06", "C16"]),
    "C07-9": ("C07", "receive_timeout returns None at once when now + timeout overflows (Duration::MAX), without looking at "
                     "the queue", ["C07", "C16"]),
    "C08-9": ("C08", "send_with_timer increments the shared sequence with load + store: two threads scheduling at the same "
                     "moment for the same instant get equal TimerIds; one timer is lost, a cancel hits the other", ["C08", "C06"]),
    "C09-9": ("C09", "for_each (sync) live loop polls with process_poll_events_until_timeout: with traffic arriving every few "
                     "ms, for_each does not return after stop()", ["C09", "C18"]),
    "C11-9": ("C11", "the live dispatch takes the callback lock with try_lock and drops the event when a signal callback "
                     "holds it: Tcp chunks that arrive during a long signal callback are lost", ["C11", "C01", "C05"]),
    "C13-9": ("C13", "FramedTcp send releases the send lock while waiting on WouldBlock: with several threads and frames "
                     "larger than the socket buffer another frame lands inside a partly written one", ["C13", "C10", "C01"]),
    "C14-9": ("C14", "Endpoint equality and hash ignore the address: all peers of one Udp listener compare equal", ["C14", "C12"]),
    "C15-9": ("C15", "a cached Accepted event is replayed with the connection's own id in place of the listener's id", ["C15", "C03"]),
    "C16-9": ("C16", "receive_timeout(): the priority arm is dropped from the blocking select: a priority send to a receiver "
                     "already blocked in receive_timeout() does not wake it", ["C16", "C06"]),
    "C17-9": ("C17", "Tcp pending() with keepalive configured returns early, before forget(), when the stream is not ready: a "
                     "peer that resets before the accept is processed makes the adapter close the descriptor twice "
                     "(abort)", ["C17", "C18", "C03"]),
    "C18-9": ("C18", "receive_timeout waits the full timeout again after every timer command: with timer commands arriving "
                     "faster than the 50 ms sampling period the signal thread never looks at the running flag", ["C18", "C09", "C16"]),
    "C19-9": ("C19", "the last byte of the text is sliced off to test for a digit: a text ending in a multi-byte character "
                     "panics in to_remote_addr", ["C19"]),
    "C01-9": ("C01", "FramedTcp receive() stops reading when a read ends exactly on a frame boundary: with a full 65535-byte "
                     "read ending on a boundary (a 65532-byte payload), frames queued behind it are stranded", ["C01", "C11"]),
    "C10-9": ("C10", "ResourceRegistry::get uses try_read: while another thread registers or removes a resource on the same "
                     "node and transport, send() on a live endpoint answers ResourceNotFound and poll events are dropped", ["C10", "C13", "C14"]),
    "C12-9": ("C12", "the receive_broadcasts listener reads into a 1472-byte buffer: datagrams above 1472 bytes are cut", ["C12", "C13"]),
    "C03-9": ("C03", "(= C04-7, found again from C03) read_from_remote ignores the result of deregister(): a remove() inside the "
                     "Message callback, with the peer's close queued behind the data, is followed by a Disconnected", ["C03", "C04"]),
    "C02-10": ("C02", "encode_size writes sizes <= 0x80 as one byte: the prefix of a 128-byte payload is the lone byte 0x80", ["C02", "C01"]),
    "C04-10": ("C04", "Tcp pending() applies the keepalive to a dup() of the descriptor and forgets it: with keepalive "
                      "configured, remove() closes only the original and the peer never sees the close", ["C04", "C18"]),
    "C05-10": ("C05", "for_each_async: the callback lock is a turn word taken with swap(me); a waiter's second swap reads back "
                      "its own mark and walks in while the owner is still inside (needs contention longer than one spin)", ["C05"]),
    "C06-10": ("C06", "send_with_timer with a zero duration sends the event through the plain channel: a later timer of the "
                      "same thread that is due at the receive call overtakes it", ["C06", "C07"]),
    "C07-10": ("C07", "ready_event treats a timer with less than 1 ms left as expired (as_millis() == 0): it is returned "
                      "ahead of older plain events, up to a millisecond early", ["C07", "C08"]),
    "C08-10": ("C08", "send_with_timer saturates an unrepresentable deadline (Duration::MAX) to now: the timer fires at once", ["C08", "C07"]),
    "C09-10": ("C09", "(= C18-6 on the FramedTcp listener) the FramedTcp accept loop no longer leaves on an accept() error", ["C09", "C18", "C17"]),
    "C10-10": ("C10", "Ws: the write buffer is bounded at one maximal frame and send() releases the state lock between flush "
                      "attempts: with a stalled peer several threads queue more than 32 MiB and a send answers "
                      "ResourceNotFound (WriteBufferFull)", ["C10", "C13"]),
    "C11-10": ("C11", "the caching thread appends a Tcp chunk to the previous cached Message of the same endpoint: more than "
                      "65535 bytes arriving before the listener call are replayed as one oversized chunk", ["C11", "C15"]),
    "C12-10": ("C12", "the receive_broadcasts listener rebuilds the sender's IPv6 address from ip and port: the scope id of a "
                      "link-local sender is dropped and the reply cannot be routed", ["C12"]),
    "C13-10": ("C13", "Ws send() rejects a payload of exactly the declared maximum (>= instead of >)", ["C13", "C01"]),
    "C14-10": ("C14", "Endpoint::from_listener asserts `local || !connection_oriented` instead of both: a Udp connection id "
                      "(or a Tcp listener id) is accepted", ["C14", "C12"]),
    "C16-10": ("C16", "receive_timeout returns try_recv() when less than 1 ms remains: sub-millisecond timeouts do not wait and "
                      "a timer due within them is not returned", ["C16", "C07"]),
    "C17-10": ("C17", "Ws send() retries flush() on every I/O error, not only WouldBlock: a send to a peer that has reset its "
                      "connection (before the node processed it) never returns", ["C17", "C13"]),
    "C18-10": ("C18", "the Ws server handshake treats HandshakeIncomplete (the peer closed during the upgrade) as 'needs more "
                      "data': the accepted socket of a peer that connects and leaves stays open for ever", ["C18", "C03", "C17"]),
    "C19-10": ("C19", "a text that is not ip:port is stored in its url-canonical form when it parses as a url "
                      "('ws://domain:1234' becomes 'ws://domain:1234/')", ["C19"]),
    "C01-10": ("C01", "Ws pending() ignores Read readiness: the handshake always completes on the Write dispatch, after which "
                      "the driver does not read: messages that arrived together with the 101 answer are stranded", ["C01", "C03"]),
    "C15-10": ("C15", "the caching thread drops Message events with an empty payload", ["C15", "C01"]),
    "C03-10": ("C03", "the Ws client handshake's failure arm no longer restores the state: a connect to a peer that answers "
                      "with something other than 101 leaves Handshake(None) and the resource's drop panics (unreachable)", ["C03", "C17"]),
    "C19-5": ("C19", "an ip:port text with port 0 (127.0.0.1:0, [::1]:0) is classified as a string", ["C19"]),
    "C19-1": ("C19", "SocketAddrV6 with non-zero flowinfo/scope_id converted to RemoteAddr: the fields are dropped", ["C19"]),
}


def sh(cmd, **kw):
    return subprocess.run(cmd, shell=isinstance(cmd, str), capture_output=True, text=True, **kw)


def regress(ids):
    """re-run only the own property's check for each seeded change (meta.json is left alone); the outcome
    goes to seeded/REGRESSION.md"""
    assert sh("git -C /repo status --porcelain").stdout.strip() == "", "/repo is not clean"
    out = []
    for mid in ids:
        prop, needs, checks = INFO[mid]
        patch = os.path.join(SEEDED, mid, "patch.diff")
        r = sh(["git", "-C", "/repo", "apply", "--3way", patch])
        if r.returncode != 0:
            out.append((mid, prop, "patch does not apply"))
            sh("git -C /repo reset -q --hard HEAD")
            print(mid, "patch does not apply", flush=True)
            continue
        try:
            t0 = time.time()
            rr = sh([os.path.join(VERIF, "check"), prop], cwd=VERIF)
            viol = [l for l in rr.stdout.splitlines() if l.startswith("VIOLATION")]
            withinput = sum(1 for l in viol if not l.endswith("no-failing-input-found"))
            verdict = "caught (%d with a failing input)" % withinput if rr.returncode == 1 else "**MISSED**"
            out.append((mid, prop, "%s, %.0f s" % (verdict, time.time() - t0)))
        finally:
            sh("git -C /repo reset -q --hard HEAD")
        print(mid, out[-1][2], flush=True)
    assert sh("git -C /repo status --porcelain").stdout.strip() == "", "/repo left dirty"
    path = os.path.join(SEEDED, "REGRESSION.md")
    old = open(path).read().splitlines()[2:] if os.path.exists(path) else []
    keep = {l.split("|")[1].strip(): l for l in old if l.startswith("|")}
    for mid, prop, v in out:
        keep[mid] = "| %s | %s | %s |" % (mid, prop, v)
    open(path, "w").write("| change | own property's check (quick tier), re-run after all later strengthening | \n|---|---|---|\n".replace("| change | own", "| change | property | own")
                          + "\n".join(keep[k] for k in sorted(keep)) + "\n")


def main():
    if len(sys.argv) > 1 and sys.argv[1] == "--regress":
        return regress(sys.argv[2:] or sorted(INFO))
    ids = sys.argv[1:] or sorted(INFO)
    assert sh("git -C /repo status --porcelain").stdout.strip() == "", "/repo is not clean"
    rows = []
    for mid in ids:
        prop, needs, checks = INFO[mid]
        d = os.path.join(SEEDED, mid)
        patch = os.path.join(d, "patch.diff")
        r = sh(["git", "-C", "/repo", "apply", "--3way", patch])
        if r.returncode != 0:
            print(mid, "patch does not apply:", r.stderr[-300:])
            sh("git -C /repo reset -q --hard HEAD")
            continue
        results = {}
        try:
            for c in checks:
                t0 = time.time()
                rr = sh([os.path.join(VERIF, "check"), c], cwd=VERIF)
                viol = [l for l in rr.stdout.splitlines() if l.startswith("VIOLATION")]
                results[c] = {"exit": rr.returncode, "violations": len(viol),
                              "with_failing_input": sum(1 for l in viol if not l.endswith("no-failing-input-found")),
                              "summary": (rr.stdout.strip().splitlines() or [""])[-1], "seconds": round(time.time() - t0, 1)}
                # keep the first replay as the demonstration found by the check itself
                if viol and c == checks[0]:
                    rp = viol[0].split("replay=")[1].split()[0]
                    if os.path.exists(rp):
                        rep = json.load(open(rp))
                        results[c]["replay"] = {k: (rep.get(k) or "")[:600] if isinstance(rep.get(k), str) else rep.get(k)
                                                for k in ("kind", "what", "case", "impl", "model", "oracle")}
        finally:
            sh("git -C /repo reset -q --hard HEAD")
        demo = [f for f in os.listdir(d) if f.startswith("demo")]
        meta = {
            "id": mid, "property": prop,
            "origin": "written by a fresh sub-agent that was given only the property text and a scratch worktree of /repo "
                      "(nothing from /verif); confirmed here: applies to /repo HEAD, builds, the repository's 72 tests pass with it",
            "needs_to_manifest": needs,
            "demonstration": demo,
            "how_to_apply": "git -C /repo apply --3way /verif/seeded/%s/patch.diff ; ./check %s ; git -C /repo reset -q --hard HEAD" % (mid, checks[0]),
            "ran": ["./check %s (tier quick)" % c for c in checks],
            "results": results,
            "caught_by": [c for c in checks if results.get(c, {}).get("exit") == 1],
            "repo_head": sh("git -C /repo rev-parse --short HEAD").stdout.strip(),
        }
        json.dump(meta, open(os.path.join(d, "meta.json"), "w"), indent=1)
        rows.append(meta)
        print(mid, {c: (results[c]["exit"], results[c]["with_failing_input"]) for c in results}, flush=True)
    assert sh("git -C /repo status --porcelain").stdout.strip() == "", "/repo left dirty"
    # table over all meta.json present
    lines = ["| change | property | caught by (quick tier) | failing input reported | needs |", "|---|---|---|---|---|"]
    for mid in sorted(os.listdir(SEEDED)):
        mp = os.path.join(SEEDED, mid, "meta.json")
        if os.path.exists(mp):
            m = json.load(open(mp))
            lines.append("| %s | %s | %s | %s | %s |" % (
                mid, m["property"], ", ".join(m["caught_by"]) or "**missed**",
                ", ".join(c for c in m["caught_by"] if m["results"][c]["with_failing_input"]) or "-", m["needs_to_manifest"]))
    open(os.path.join(SEEDED, "RESULTS.md"), "w").write("\n".join(lines) + "\n")


if __name__ == "__main__":
    main()
