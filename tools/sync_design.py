#!/usr/bin/env python3
"""Refresh the generated parts of DESIGN.md: the theorem column of the §12.2 table (from lean/props.json)
and the seeded-changes table (from seeded/RESULTS.md)."""
import json, re, os
V = os.path.dirname(os.path.dirname(os.path.abspath(__file__)))
p = os.path.join(V, "DESIGN.md")
s = open(p).read()
d = json.load(open(os.path.join(V, "lean/props.json")))
out = []
for ln in s.split("\n"):
    m = re.match(r"\| (C\d\d) \| ([^|]*) \| ([^|]*) \| ([^|]*) \| ([^|]*) \|$", ln)
    if m and m.group(1) in d and "~" in m.group(5):
        pid = m.group(1)
        th = ", ".join(t.split('.')[-1] for t in d[pid]["theorems"])
        ln = "| %s | %s | %s | %s | %s |" % (pid, th, m.group(3).strip(), m.group(4).strip(), m.group(5).strip())
    out.append(ln)
s = "\n".join(out)
t = open(os.path.join(V, "seeded/RESULTS.md")).read()
i = s.index('<!-- seeded-table -->')
j = s.index('<!-- /seeded-table -->')
s = s[:i] + '<!-- seeded-table -->\n' + t + s[j:]
n = len([x for x in os.listdir(os.path.join(V, "seeded")) if os.path.isdir(os.path.join(V, "seeded", x))])
open(p, "w").write(s)
print("DESIGN.md refreshed; seeded changes:", n)
