#!/usr/bin/env python3
"""Refresh the generated parts of DESIGN.md: the theorem column of the §12.2 table (from lean/props.json)
and the seeded-changes table (from seeded/RESULTS.md)."""
import json, re, os
V = os.path.dirname(os.path.dirname(os.path.abspath(__file__)))
p = os.path.join(V, "DESIGN.md")
s = open(p).read()
d = json.load(open(os.path.join(V, "lean/props.json")))
# tie column: the harness generator modes each property's tie() actually runs (read from checklib/props.py);
# quick column: seconds of the last quick run recorded in evidence/<id>.json
src = open(os.path.join(V, "checklib/props.py")).read()
ties = {}
for m in re.finditer(r"^class (C\d\d)\(", src, re.M):
    body = src[m.start():]
    nxt = re.search(r"^class ", body[6:], re.M)
    body = body[: nxt.start() + 6] if nxt else body
    tie = re.search(r"def tie\(self.*?(?=\n    def |\Z)", body, re.S)
    modes = []
    if tie:
        for c in re.finditer(r'tie_run\(stats, "(\w+)", \["([\w-]+)"((?:, "[\w-]+")*)', tie.group(0)):
            extra = " ".join(re.findall(r'"([\w-]+)"', c.group(3)))
            name = ("%s %s %s" % (c.group(1), c.group(2), extra)).strip()
            if name not in modes:
                modes.append(name)
    ties[m.group(1)] = modes
# classes that inherit their tie
for pid, base in re.findall(r"^class (C\d\d)\((C\d\d)\)", src, re.M):
    if not ties.get(pid):
        ties[pid] = ties.get(base, [])
secs = {}
for pid in d:
    try:
        ev = json.load(open(os.path.join(V, "evidence", pid + ".json")))
        t = ev.get("wall_s")
        if t:
            secs[pid] = "~%d s" % round(float(t))
    except Exception:
        pass
out = []
for ln in s.split("\n"):
    m = re.match(r"\| (C\d\d) \| ([^|]*) \| ([^|]*) \| ([^|]*) \| ([^|]*) \|$", ln)
    if m and m.group(1) in d and "~" in m.group(5):
        pid = m.group(1)
        th = ", ".join(t.split('.')[-1] for t in d[pid]["theorems"])
        tie = ", ".join("`%s`" % x for x in ties.get(pid, [])) or m.group(3).strip()
        ln = "| %s | %s | %s | %s | %s |" % (pid, th, tie, m.group(4).strip(), secs.get(pid, m.group(5).strip()))
    out.append(ln)
s = "\n".join(out)
t = open(os.path.join(V, "seeded/RESULTS.md")).read()
i = s.index('<!-- seeded-table -->')
j = s.index('<!-- /seeded-table -->')
s = s[:i] + '<!-- seeded-table -->\n' + t + s[j:]
n = len([x for x in os.listdir(os.path.join(V, "seeded")) if os.path.isdir(os.path.join(V, "seeded", x))])
open(p, "w").write(s)
print("DESIGN.md refreshed; seeded changes:", n)
